#!/bin/bash
# Offline build of the whole framework: all Coq files (full .vo build) and the Rust executor.
set -e
cd "$(dirname "$0")"
mkdir -p .cache evidence replays
python3-vt -c "import sys; sys.path.insert(0,'driver'); import translate; translate.regenerate()" || true
cd coq
./mkproject.sh
timeout 6000 make -j16 -k 2>&1 | tail -5
cd ../harness
ln -sfn "${VERIF_REPO:-/repo}" ../.cache/repo
cp "${VERIF_REPO:-/repo}/Cargo.lock" Cargo.lock 2>/dev/null || true
CARGO_NET_OFFLINE=true RUSTFLAGS="--cfg ohsl_verif" timeout 1500 cargo build --offline 2>&1 | tail -3
