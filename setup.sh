#!/bin/bash
# Offline build of the whole framework: all Coq files (full .vo build) and the Rust executor.
set -e
cd "$(dirname "$0")"
mkdir -p .cache evidence replays
cd coq
coq_makefile -f _CoqProject -o Makefile > /dev/null
timeout 3000 make -j16 2>&1 | tail -5
cd ../harness
cp /repo/Cargo.lock Cargo.lock 2>/dev/null || true
CARGO_NET_OFFLINE=true RUSTFLAGS="--cfg ohsl_verif" timeout 1500 cargo build --offline 2>&1 | tail -3
