#!/usr/bin/env python3
"""Rewrite the theorem counts of DESIGN.md section 0 (table column 3 and the total) from coq/Props/C*.v."""
import re, os, sys
ROOT = os.path.dirname(os.path.dirname(os.path.abspath(__file__)))
sys.path.insert(0, os.path.join(ROOT, "driver"))
from common import ntheorems
p = os.path.join(ROOT, "DESIGN.md")
s = open(p).read()
tot = 0
for k in range(1, 21):
    pid = "C%02d" % k
    n = ntheorems(pid); tot += n
    s, c = re.subn(r"(?m)^(\| %s \| [^|]*\| )\d+(:)" % pid, r"\g<1>%d\2" % n, s)
    if c != 1: print("row %s not found (%d)" % (pid, c))
s, c = re.subn(r"\(\d+ in total, all `Qed`", "(%d in total, all `Qed`" % tot, s)
open(p, "w").write(s)
print("total", tot, "rows updated")
