#!/usr/bin/env python3
# tools/rewrites/mk_corpus.py -- the corpus of HARMLESS rewrites of /repo/src as data: every entry is a list of exact textual
# replacements; `mk_corpus.py gen <scratch repo>` applies each entry to a clean scratch worktree, writes NN-name.diff
# (git diff) and INDEX.md, and restores the worktree.  The .diff files are what tools/rewrites/run.py applies.
import os, sys, re, subprocess

HERE = os.path.dirname(os.path.abspath(__file__))
P_MOD, P_ARI = "src/polynomial/mod.rs", "src/polynomial/arithmetic.rs"
V_FUN, V_ARI, V_F64 = "src/vector/functions.rs", "src/vector/arithmetic.rs", "src/vector/vec_f64.rs"
M_OPS, M_SOL, M_ARI = "src/matrix/operations.rs", "src/matrix/solve.rs", "src/matrix/arithmetic.rs"
SPR, BND, TRI, NWT, MSH = "src/sparse.rs", "src/banded.rs", "src/tridiagonal.rs", "src/newton.rs", "src/mesh1d.rs"

# (name, checks, what, why harmless, [(file, old, new)])     -- `old` must occur exactly once in the file unless (file, old, new, k) picks the k-th (0-based) occurrence
R = []
def add(name, checks, what, why, edits): R.append((name, checks, what, why, edits))

# ------------------------------------------------------------------------------------------------ polynomial/
add("poly-eval-rev-to-while", "C11 C12",
    "Polynomial::eval: `for i in (0..degree).rev()` -> `let mut i = degree; while i > 0 { i -= 1; .. }`",
    "same index sequence degree-1, .., 0; the decrement happens before the body, so `i -= 1` never underflows (guarded by i > 0)",
    [(P_MOD, """        for i in (0..degree).rev() {
            p = p * x + self.coeffs[ i ];
        }
        p
    }

    /// Check if all""", """        let mut i = degree;
        while i > 0 {
            i -= 1;
            p = p * x + self.coeffs[ i ];
        }
        p
    }

    /// Check if all""")])
add("poly-eval-rename", "C11 C12",
    "Polynomial::eval: locals renamed (`degree` -> `deg`, `p` -> `acc`)",
    "alpha-renaming of two locals; no capture (neither new name is in scope)",
    [(P_MOD, """        let degree = self.degree().unwrap(); //TODO unwrap
        let mut p = self.coeffs[ degree ];
        for i in (0..degree).rev() {
            p = p * x + self.coeffs[ i ];
        }
        p
    }

    /// Check if all""", """        let deg = self.degree().unwrap(); //TODO unwrap
        let mut acc = self.coeffs[ deg ];
        for i in (0..deg).rev() {
            acc = acc * x + self.coeffs[ i ];
        }
        acc
    }

    /// Check if all""")])
add("poly-eval-let-intro", "C11 C12",
    "Polynomial::eval: the coefficient read is bound by a `let c = self.coeffs[i];` before the multiply-add",
    "the read is in range (i < degree = len-1) and `*`/`+` on T are pure, so moving the read before the product changes nothing; same float operations in the same order",
    [(P_MOD, """            p = p * x + self.coeffs[ i ];
        }
        p
    }

    /// Check if all""", """            let c = self.coeffs[ i ];
            p = p * x + c;
        }
        p
    }

    /// Check if all""")])
add("poly-is_zero-for-to-while", "C11 C12",
    "Polynomial::is_zero: `for i in 0..len` -> explicit counter `let mut i = 0; while i < len { ..; i += 1; }`",
    "same index sequence 0..len-1; len is re-read each pass but the vector is not modified",
    [(P_MOD, """        for i in 0..self.coeffs.len() {
            if self.coeffs[ i ] != T::zero() { return false; }
        }
        true""", """        let mut i = 0;
        while i < self.coeffs.len() {
            if self.coeffs[ i ] != T::zero() { return false; }
            i += 1;
        }
        true""")])
add("poly-derivative-drop-clone", "C11",
    "Polynomial::derivative: `.clone()` removed from a Copy scalar read",
    "T: Copy in this impl; clone() of a Copy value is a bitwise copy",
    [(P_MOD, "p.coeffs[ i ] = p.coeffs[ i ] + self.coeffs[ i + 1 ].clone();", "p.coeffs[ i ] = p.coeffs[ i ] + self.coeffs[ i + 1 ];")])
add("poly-add-hoist-degree", "C11",
    "Polynomial + Polynomial: `self.degree().unwrap()` bound once before the loop instead of once per pass (loop-invariant hoisting)",
    "degree() is a pure function of coeffs.len(), which the loop does not change (it writes into `sum`); it cannot fail here because the Err case returned earlier",
    [(P_ARI, """        for i in 0..=degree {
            if i <= self.degree().unwrap() {
                sum.coeffs[ i ] = sum.coeffs[ i ] + self.coeffs[ i ].clone();
            }""", """        let self_degree = self.degree().unwrap();
        for i in 0..=degree {
            if i <= self_degree {
                sum.coeffs[ i ] = sum.coeffs[ i ] + self.coeffs[ i ].clone();
            }""")])
add("poly-mul-plus-assign", "C11",
    "Polynomial * Polynomial: `degree += times_degree` -> `degree = degree + times_degree`",
    "usize compound assignment is by definition the same operation (same overflow check)",
    [(P_ARI, "        degree += times_degree;", "        degree = degree + times_degree;")])
add("poly-polydiv-comments-attrs", "C12",
    "polydiv: extra comments, blank lines, `#[inline]` removed, `count += 1` -> `count = count + 1`",
    "comments / blank lines / inlining hints have no semantics; usize `+=` is `= .. +`",
    [(P_ARI, """    /// Divide the polynomial by another polynomial to get a quotient and remainder
    #[inline]
    pub fn polydiv(""", """    /// Divide the polynomial by another polynomial to get a quotient and remainder
    // (schoolbook long division, highest power first)

    pub fn polydiv("""),
     (P_ARI, "            count += 1;\n", "            /* one more pass */\n            count = count + 1;\n")])
add("poly-degree-negated-if", "C11 C12",
    "Polynomial::degree: `if .. { Err(..) } else { Ok(..) }` with negated condition and swapped arms",
    "`len == 0` vs `len != 0` with the arms exchanged: same value on every input",
    [(P_MOD, """        if self.coeffs.len() == 0 { Err("Polynomial.degree() == 0.") }
        else { Ok( self.coeffs.len() - 1 ) }""", """        if self.coeffs.len() != 0 { Ok( self.coeffs.len() - 1 ) }
        else { Err("Polynomial.degree() == 0.") }""")])

# ------------------------------------------------------------------------------------------------ vector/
add("vec-dot-plus-assign", "C15 C16",
    "Vector::dot: `result += a * b` -> `result = result + a * b`",
    "T: Number; AddAssign on the element types used (f64, Complex, Rat) is defined as self = self + rhs; same operand order, same rounding",
    [(V_FUN, "            result += self.vec[i] * w.vec[i];\n        }\n        result\n    }\n\n    /// Return the sum of all", "            result = result + self.vec[i] * w.vec[i];\n        }\n        result\n    }\n\n    /// Return the sum of all")])
add("vec-dot-size-vs-len", "C15",
    "Vector::dot: `self.size()` -> `self.vec.len()` in the loop bound",
    "size() is defined as self.vec.len()",
    [(V_FUN, """        let mut result: T = T::zero();
        for i in 0..self.size() {
            result += self.vec[i] * w.vec[i];""", """        let mut result: T = T::zero();
        for i in 0..self.vec.len() {
            result += self.vec[i] * w.vec[i];""")])
add("vec-sum_slice-drop-clone", "C15",
    "Vector::sum_slice / product_slice: `.clone()` removed from Copy scalar reads",
    "T: Copy in this impl",
    [(V_FUN, "            result += self.vec[i].clone();", "            result += self.vec[i];"),
     (V_FUN, "        let mut result: T = self.vec[start].clone();", "        let mut result: T = self.vec[start];"),
     (V_FUN, "            result *= self.vec[i].clone();", "            result *= self.vec[i];")])
add("vec-abs-rename", "C15",
    "Vector::abs: locals renamed (`size` -> `n`, `vec` -> `out`; the struct literal spelled `Vector { vec: out }`)",
    "alpha-renaming; field-init shorthand `Vector { vec }` is sugar for `Vector { vec: vec }`",
    [(V_FUN, """        let size = self.size();
        let mut vec = vec![ T::zero(); size ];
        for i in 0..size {
            vec[i] = self.vec[i].abs();
        }
        Vector { vec }//, size }""", """        let n = self.size();
        let mut out = vec![ T::zero(); n ];
        for i in 0..n {
            out[i] = self.vec[i].abs();
        }
        Vector { vec: out }""")])
add("vec-norm_1-for-to-while", "C15",
    "Vector::norm_1: `for i in 0..size` -> `let mut i = 0; while i < self.size() { ..; i += 1; }`",
    "same index sequence; the vector is not modified in the loop",
    [(V_FUN, """        let mut result = T::zero();
        for i in 0..self.size() {
            result += self.vec[i].abs();
        }
        result""", """        let mut result = T::zero();
        let mut i = 0;
        while i < self.size() {
            result += self.vec[i].abs();
            i += 1;
        }
        result""")])
add("vec-functions-comments-attrs", "C15",
    "vector/functions.rs: comments, blank lines added, `#[inline]` dropped on assign/dot, `#[inline(always)]` on sum",
    "no executable token changes",
    [(V_FUN, """    /// Assign a value to every element in the vector
    #[inline]
    pub fn assign(&mut self, elem: T ) {
        for i in 0..self.size() {
            self.vec[i] = elem;
        }""", """    /// Assign a value to every element in the vector
    pub fn assign(&mut self, elem: T ) {
        // every slot, front to back

        for i in 0..self.size() {
            self.vec[i] = elem; /* overwrite */
        }"""),
     (V_FUN, """    /// Return the sum of all the elements in the vector
    #[inline]""", """    /// Return the sum of all the elements in the vector
    #[inline(always)]""")])
add("vec-vadd-let-intro", "C15",
    "&Vector + &Vector: the sum is bound by a `let s = ..;` before it is pushed",
    "introduces a name for a pure expression used once",
    [(V_ARI, "            result.push( self.vec[i] + plus.vec[i] );", "            let s = self.vec[i] + plus.vec[i];\n            result.push( s );")])
add("vec-vneg-borrow-copy", "C15",
    "Neg for Vector: `-result[i].clone()` -> `-(&result[i]).clone()`",
    "`(&x).clone()` on T: Clone auto-derefs to the same Clone::clone(&x) call",
    [(V_ARI, "            result[i] = -result[i].clone();", "            result[i] = -(&result[i]).clone();")])
add("vec-norm_inf-let-intro", "C15 C17",
    "Vector<f64>::norm_inf: `self.vec[i].abs()` computed once into `let a` instead of twice",
    "f64::abs is pure and the element is not modified between the two uses",
    [(V_F64, """            if result < self.vec[i].abs() {
                result = self.vec[i].abs();
            }""", """            let a = self.vec[i].abs();
            if result < a {
                result = a;
            }""")])
add("vec-norm_2-return", "C15 C08",
    "Vector<f64>::norm_2: tail expression -> `return f64::sqrt( result );`",
    "a tail expression and a `return` of the same expression as last statement are the same control flow",
    [(V_F64, "        f64::sqrt( result )\n    }", "        return f64::sqrt( result );\n    }")])
add("vec-linspace-cast-noop", "C15",
    "Vector::linspace: no-op cast `(i as usize) as f64` and loop-invariant `h` unchanged",
    "`i` already is usize: `i as usize` is the identity",
    [(V_F64, "            vec[i] = a + h * (i as f64);", "            vec[i as usize] = a + h * ((i as usize) as f64);")])

# ------------------------------------------------------------------------------------------------ matrix/
add("mat-get_row-hoist", "C03",
    "Matrix::get_row: loop-invariant `row * self.cols` hoisted into `let base`",
    "usize product of two values the loop does not change; in debug profile the overflow check moves before the loop, but row < rows and rows*cols = mat.len() fits usize",
    [(M_OPS, """        for j in 0..self.cols {
            result[ j ] = self.mat[ row * self.cols + j ];
        }""", """        let base = row * self.cols;
        for j in 0..self.cols {
            result[ j ] = self.mat[ base + j ];
        }""")])
add("mat-set_col-inline-index", "C03 C18",
    "Matrix::set_col: `self[(i, col)] = ..` -> the body of index_mut inlined: `self.mat[ i * self.cols + col ] = ..`",
    "IndexMut<(usize,usize)> is defined as `&mut self.mat[index.0 * self.cols + index.1]`",
    [(M_OPS, "            self[(i, col)] = vec[ i ];", "            self.mat[ i * self.cols + col ] = vec[ i ];")])
add("mat-multiply-let-intro", "C03",
    "Matrix::multiply: the row is bound by `let r = self.get_row( row );` before `.dot`",
    "names a temporary that Rust creates anyway",
    [(M_OPS, "           result.push( self.get_row( row ).dot( vec ) );", "           let r = self.get_row( row );\n           result.push( r.dot( vec ) );")])
add("mat-fill_diag-negated-if", "C03",
    "Matrix::fill_diag: `if cols < rows { cols } else { rows }` -> `if cols >= rows { rows } else { cols }`",
    "negated condition with swapped arms (usize is totally ordered)",
    [(M_OPS, "let n: usize = if self.cols < self.rows { self.cols } else { self.rows };", "let n: usize = if self.cols >= self.rows { self.rows } else { self.cols };")])
add("mat-fill_band-cast-noop", "C03",
    "Matrix::fill_band: no-op cast `row as usize` in the index",
    "`row` is a usize loop variable",
    [(M_OPS, "                self[(row, i as usize)] = elem.clone();", "                self[(row as usize, i as usize)] = elem.clone();")])
add("mat-swap_elem-drop-clone", "C03 C01",
    "Matrix::swap_elem / fill: `.clone()` removed from Copy scalars",
    "T: Copy in this impl",
    [(M_OPS, "        let mut temp = self[(row_1,col_1)].clone();", "        let mut temp = self[(row_1,col_1)];"),
     (M_OPS, """            for j in 0..self.cols {
                self[(i, j)] = elem.clone();
            }""", """            for j in 0..self.cols {
                self[(i, j)] = elem;
            }""")])
add("mat-transpose-return", "C03",
    "Matrix::transpose: tail expression `temp` -> `return temp;`",
    "same control flow",
    [(M_OPS, "        temp.transpose_in_place();\n        temp\n", "        temp.transpose_in_place();\n        return temp;\n")])
add("mat-eye-rename", "C03 C02",
    "Matrix::eye: local `identity` -> `id`, parameter `size` -> `n`",
    "alpha-renaming of a local and of a parameter (callers pass positionally)",
    [(M_OPS, """    pub fn eye( size: usize ) -> Self {
        let mut identity = Matrix::<T>::new( size, size, T::zero() );
        for i in 0..size {
            identity[(i, i)] = T::one();
        }
        identity""", """    pub fn eye( n: usize ) -> Self {
        let mut id = Matrix::<T>::new( n, n, T::zero() );
        for i in 0..n {
            id[(i, i)] = T::one();
        }
        id""")])
add("mat-ops-reorder-fns", "C03",
    "matrix/operations.rs: `fill_col` moved before `fill_row` (order of items inside an impl)",
    "item order inside an impl block has no semantics",
    [(M_OPS, """    /// Fill a row of the matrix with specified elements
    #[inline]
    pub fn fill_row(&mut self, row: usize, elem: T ) {
        if self.rows <= row { panic!( "Matrix range error in fill_row" ); }
        for j in 0..self.cols {
            self[(row, j)] = elem.clone();
        }
    }

    /// Fill a column of the matrix with specified elements
    #[inline]
    pub fn fill_col(&mut self, col: usize, elem: T ) {
        if self.cols <= col { panic!( "Matrix range error in fill_col" ); }
        for i in 0..self.rows {
            self[(i, col)] = elem.clone();
        }
    }
""", """    /// Fill a column of the matrix with specified elements
    #[inline]
    pub fn fill_col(&mut self, col: usize, elem: T ) {
        if self.cols <= col { panic!( "Matrix range error in fill_col" ); }
        for i in 0..self.rows {
            self[(i, col)] = elem.clone();
        }
    }

    /// Fill a row of the matrix with specified elements
    #[inline]
    pub fn fill_row(&mut self, row: usize, elem: T ) {
        if self.rows <= row { panic!( "Matrix range error in fill_row" ); }
        for j in 0..self.cols {
            self[(row, j)] = elem.clone();
        }
    }
""")])
add("solve-reorder-private-fns", "C01 C02",
    "matrix/solve.rs: private `backsolve` moved before private `max_abs_in_column`",
    "item order inside an impl block has no semantics",
    [(M_SOL, """    #[inline]
    fn max_abs_in_column(&self, col: usize, start_row: usize) -> usize {
        let mut max_index: usize = 0;
        let mut max = T::zero();
        for i in start_row..self.rows {
            if max < self[(i,col)].abs() {
                max = self[(i,col)].abs();
                max_index = i;
            }
        }
        max_index
    }

    #[inline]
    fn backsolve(&self, x: &mut Vector<T> ) {
        let last = self.rows - 1;
        x[ last ] = x[ last ] / self[(last,last)];
        for n in 2..self.rows+1 {
            let k = self.rows - n;
            for j in self.rows-n+1..self.rows {
                let xj = x[ j ];
                x[ k ] -= self[(k,j)] * xj;
            }
            x[ k ] /= self[(k,k)];
        }
    }
""", """    #[inline]
    fn backsolve(&self, x: &mut Vector<T> ) {
        let last = self.rows - 1;
        x[ last ] = x[ last ] / self[(last,last)];
        for n in 2..self.rows+1 {
            let k = self.rows - n;
            for j in self.rows-n+1..self.rows {
                let xj = x[ j ];
                x[ k ] -= self[(k,j)] * xj;
            }
            x[ k ] /= self[(k,k)];
        }
    }

    #[inline]
    fn max_abs_in_column(&self, col: usize, start_row: usize) -> usize {
        let mut max_index: usize = 0;
        let mut max = T::zero();
        for i in start_row..self.rows {
            if max < self[(i,col)].abs() {
                max = self[(i,col)].abs();
                max_index = i;
            }
        }
        max_index
    }
""")])
add("solve-backsolve-reuse-k", "C01 C02",
    "backsolve: inner bound `self.rows-n+1` -> `k+1` (k = self.rows - n was just computed)",
    "k = rows - n did not underflow, so rows-n+1 = k+1 as usize values",
    [(M_SOL, "            for j in self.rows-n+1..self.rows {", "            for j in k+1..self.rows {")])
add("solve-gauss-minus-assign", "C01",
    "gauss_with_pivot: `self[(i,j)] -= elem * kj` -> `self[(i,j)] = self[(i,j)] - elem * kj`",
    "SubAssign on the element types is self = self - rhs; the place is read before the product either way and both are pure",
    [(M_SOL, "                    self[(i,j)] -= elem * kj;", "                    self[(i,j)] = self[(i,j)] - elem * kj;")])
add("solve-max_abs-let-intro", "C01",
    "max_abs_in_column: `self[(i,col)].abs()` computed once into `let a`",
    "abs() is pure, the matrix is not modified in between",
    [(M_SOL, """            if max < self[(i,col)].abs() {
                max = self[(i,col)].abs();
                max_index = i;
            }""", """            let a = self[(i,col)].abs();
            if max < a {
                max = a;
                max_index = i;
            }""")])
add("solve-determinant-negated-if", "C02",
    "determinant: `if pivots % 2 == 0 { det } else { -det }` -> `if pivots % 2 != 0 { -det } else { det }`",
    "negated condition, swapped arms",
    [(M_SOL, "        if pivots % 2 == 0 { det } else { - det }", "        if pivots % 2 != 0 { - det } else { det }")])
add("solve-lu-swap-lets", "C01 C02",
    "lu_decomp_in_place: the independent `let mut max_a = T::zero();` and `let mut imax = i;` exchanged",
    "neither initialiser mentions the other variable and both are pure",
    [(M_SOL, "            let mut max_a = T::zero();\n            let mut imax = i;\n", "            let mut imax = i;\n            let mut max_a = T::zero();\n")])
add("solve-inverse-rev-to-countdown", "C02",
    "inverse: `for i in (0..rows).rev()` -> `for ii in 0..rows { let i = rows - 1 - ii; .. }`",
    "i runs through rows-1, .., 0 in the same order; rows - 1 - ii does not underflow for ii < rows",
    [(M_SOL, "            for i in (0..self.rows()).rev() {\n", "            for ii in 0..self.rows() {\n                let i = self.rows() - 1 - ii;\n")])
add("solve-solve_basic-return", "C01",
    "solve_basic: tail expression `x` -> `return x;`",
    "same control flow",
    [(M_SOL, "        self.gauss_with_pivot( &mut x );\n        self.backsolve( &mut x );\n        x\n", "        self.gauss_with_pivot( &mut x );\n        self.backsolve( &mut x );\n        return x;\n")])
add("matarith-add_assign-expand", "C03",
    "Matrix += &Matrix: `self[(i,j)] += rhs[(i,j)]` -> `self[(i,j)] = self[(i,j)] + rhs[(i,j)]`",
    "AddAssign on the element types is self = self + rhs; both reads are in range (dimensions checked above)",
    [(M_ARI, "                self[(i,j)] += rhs[(i,j)];", "                self[(i,j)] = self[(i,j)] + rhs[(i,j)];")])

# ------------------------------------------------------------------------------------------------ sparse.rs
add("sp-scale-expand", "C07",
    "Sparse::scale: `self.val[k] *= *value` -> `self.val[k] = self.val[k] * *value`",
    "MulAssign on the element types is self = self * rhs",
    [(SPR, "            self.val[ k ] *= *value;", "            self.val[ k ] = self.val[ k ] * *value;")])
add("sp-multiply-inline-let", "C07 C08",
    "Sparse::multiply: `let xj = x[j];` inlined into its single use inside the inner loop",
    "x[j] is in range (j < cols = x.size(), checked above) and x is not modified: reading it per pass gives the same value",
    [(SPR, """            let xj = x[ j ];
            for k in self.col_start[ j ]..self.col_start[ j + 1 ] {
                result[ self.row_index[ k ] ] += self.val[ k ] * xj;""", """            for k in self.col_start[ j ]..self.col_start[ j + 1 ] {
                result[ self.row_index[ k ] ] += self.val[ k ] * x[ j ];""")])
add("sp-transpose-rename", "C06 C07",
    "Sparse::transpose: locals renamed (`at` -> `t`, `count` -> `cnt`, `index` -> `pos`)",
    "alpha-renaming, no capture",
    [(SPR, """        let mut at = Sparse::new_nonzero( self.cols, self.rows, self.nonzero );
        let mut count = vec![ 0; self.rows ];
        for i in 0..self.cols {
            for j in self.col_start[ i ]..self.col_start[ i + 1 ] {
                count[ self.row_index[ j ] ] += 1;
            }
        }
        for j in 0..self.rows {
            at.col_start[ j + 1 ] = at.col_start[ j ] + count[ j ];
        }
        count = vec![ 0; self.rows ];
        for i in 0..self.cols {
            for j in self.col_start[ i ]..self.col_start[ i + 1 ] {
                let k = self.row_index[ j ];
                let index = at.col_start[ k ] + count[ k ];
                at.row_index[ index ] = i;
                at.val[ index ] = self.val[ j ];
                count[ k ] += 1;
            }
        }
        at""", """        let mut t = Sparse::new_nonzero( self.cols, self.rows, self.nonzero );
        let mut cnt = vec![ 0; self.rows ];
        for i in 0..self.cols {
            for j in self.col_start[ i ]..self.col_start[ i + 1 ] {
                cnt[ self.row_index[ j ] ] += 1;
            }
        }
        for j in 0..self.rows {
            t.col_start[ j + 1 ] = t.col_start[ j ] + cnt[ j ];
        }
        cnt = vec![ 0; self.rows ];
        for i in 0..self.cols {
            for j in self.col_start[ i ]..self.col_start[ i + 1 ] {
                let k = self.row_index[ j ];
                let pos = t.col_start[ k ] + cnt[ k ];
                t.row_index[ pos ] = i;
                t.val[ pos ] = self.val[ j ];
                cnt[ k ] += 1;
            }
        }
        t""")])
add("sp-to_triplets-helper-fn", "C06",
    "Sparse::to_triplets: the inner loop body extracted into a private helper `fn push_entry(&self, out, j, k)`",
    "the helper performs the same reads and the same push with the same arguments",
    [(SPR, """                triplets.push( ( self.row_index[ k ], j, self.val[ k ] ) );
            }
        }
        triplets
    }
""", """                self.push_entry( &mut triplets, j, k );
            }
        }
        triplets
    }

    // one stored entry as a (row, column, value) triplet
    fn push_entry( &self, out: &mut Vec<(usize, usize, T)>, j: usize, k: usize ) {
        out.push( ( self.row_index[ k ], j, self.val[ k ] ) );
    }
""")])
add("sp-col_index-else-branch", "C06",
    "Sparse::col_index: early `if nonzero == 0 { return temp; }` -> `if nonzero == 0 { temp } else { ..rest..; temp }`",
    "early return of the first branch vs. an if/else expression: same paths",
    [(SPR, """        if self.nonzero == 0 { return temp; }
        if self.col_start.len() < self.cols + 1 {
            panic!( "Sparse matrix col_index: Some columns have no entries." );
        }
        let mut gaps = vec![ 0; self.col_start.len() - 1 ];
        for k in 0..gaps.len() {
            gaps[ k ] = self.col_start[ k + 1 ] - self.col_start[ k ];
            for _j in 0..gaps[ k ] {
                temp.push( k );
            }
        }
        temp
    }""", """        if self.nonzero == 0 { temp } else {
            if self.col_start.len() < self.cols + 1 {
                panic!( "Sparse matrix col_index: Some columns have no entries." );
            }
            let mut gaps = vec![ 0; self.col_start.len() - 1 ];
            for k in 0..gaps.len() {
                gaps[ k ] = self.col_start[ k + 1 ] - self.col_start[ k ];
                for _j in 0..gaps[ k ] {
                    temp.push( k );
                }
            }
            temp
        }
    }""")])
add("sp-col_start-plus-assign-usize", "C06",
    "Sparse::col_start_from_index: `sum += ck` -> `sum = sum + ck` (usize)",
    "primitive compound assignment",
    [(SPR, "            sum += ck;", "            sum = sum + ck;")])
add("sp-from_vecs-field-shorthand", "C06",
    "Sparse::from_vecs / from_triplets: `rows: rows, cols: cols` -> shorthand, trailing comma added after the last field, comments",
    "field-init shorthand and trailing commas are syntax only",
    [(SPR, "            rows: rows,\n            cols: cols,\n", "            rows,\n            cols,\n"),
     (SPR, "            col_start: vec![ 0; cols + 1 ]\n        };", "            col_start: vec![ 0; cols + 1 ], // one slot per column, plus the end\n        };")])
add("sp-from_triplets-rename-locals", "C06",
    "Sparse::from_triplets: locals renamed (`row_index` -> `ri`, `col_index` -> `ci`, `triplet` -> `t`)",
    "alpha-renaming (the struct literal spells the field explicitly: `row_index: ri`)",
    [(SPR, """        let mut row_index = vec![];
        let mut col_index = vec![];
        let mut val = vec![];
        let mut nonzero = 0;
        for triplet in triplets.drain(..) { // Drain the triplets vector so we don't keep a copy
            let row = triplet.0;
            let col = triplet.1;
            if row >= rows { panic!( "Sparse matrix from_triplets: row range error." ); }
            if col >= cols { panic!( "Sparse matrix from_triplets: col range error." ); }
            row_index.push( triplet.0 );
            col_index.push( triplet.1 );
            val.push( triplet.2 );
            nonzero += 1;
        }
        let mut sparse = Self {
            rows,
            cols,
            nonzero,
            val,
            row_index,
            col_start: vec![ 0; cols + 1 ]
        };
        sparse.col_start = sparse.col_start_from_index( &Vector::create( col_index ) );""", """        let mut ri = vec![];
        let mut ci = vec![];
        let mut val = vec![];
        let mut nonzero = 0;
        for t in triplets.drain(..) { // Drain the triplets vector so we don't keep a copy
            let row = t.0;
            let col = t.1;
            if row >= rows { panic!( "Sparse matrix from_triplets: row range error." ); }
            if col >= cols { panic!( "Sparse matrix from_triplets: col range error." ); }
            ri.push( t.0 );
            ci.push( t.1 );
            val.push( t.2 );
            nonzero += 1;
        }
        let mut sparse = Self {
            rows,
            cols,
            nonzero,
            val,
            row_index: ri,
            col_start: vec![ 0; cols + 1 ]
        };
        sparse.col_start = sparse.col_start_from_index( &Vector::create( ci ) );""")])
add("sp-cg-swap-lets", "C08 C09",
    "solve_cg: the independent declarations `let mut p = ..;` and `let mut z = ..;` exchanged",
    "both initialisers are pure and independent",
    [(SPR, """        let mut resid: f64;
        let mut p = Vector::new( self.rows, 0.0 );
        let mut z = Vector::new( self.rows, 0.0 );
        let mut q: Vector<f64>;""", """        let mut resid: f64;
        let mut z = Vector::new( self.rows, 0.0 );
        let mut p = Vector::new( self.rows, 0.0 );
        let mut q: Vector<f64>;""")])
add("sp-bicg-rename-counter", "C08 C09",
    "solve_bicg: the loop counter `iter` renamed `it`",
    "alpha-renaming of a local",
    [(SPR, """        let mut iter: usize = 0;
        while iter < max_iter {
            iter += 1;""", """        let mut it: usize = 0;
        while it < max_iter {
            it += 1;"""),
     (SPR, "            if iter == 1 {\n                p = z.clone();\n                pp = zz.clone();", "            if it == 1 {\n                p = z.clone();\n                pp = zz.clone();"),
     (SPR, "            if err <= tol { return Ok( iter ); }", "            if err <= tol { return Ok( it ); }")])

# ------------------------------------------------------------------------------------------------ banded.rs
add("band-solve-swap-lets", "C04",
    "Banded::solve: the independent `let mm = ..;` and `let mut l = self.m1;` exchanged",
    "pure, independent initialisers",
    [(BND, """        let mut x = b.clone();
        let mm = self.m1 + self.m2 + 1;
        let mut l = self.m1;""", """        let mut x = b.clone();
        let mut l = self.m1;
        let mm = self.m1 + self.m2 + 1;""")])
add("band-decompose-for-to-while", "C04",
    "Banded::decompose: the row-swap loop `for j in 0..mm` -> `let mut j = 0; while j < mm { ..; j += 1; }`",
    "same index sequence; mm is loop-invariant",
    [(BND, """                for j in 0..mm {
                    au.swap_elem( k, j, i, j )
                }""", """                let mut j = 0;
                while j < mm {
                    au.swap_elem( k, j, i, j );
                    j += 1;
                }""")])
add("band-det-drop-clone", "C04",
    "Banded::det / solve: `.clone()` removed from Copy scalars (`d.clone()`, `x[i].clone()`)",
    "T: Copy in this impl",
    [(BND, "        let mut dd = d.clone();", "        let mut dd = d;"),
     (BND, "            let mut dum = x[ i ].clone();", "            let mut dum = x[ i ];")])
add("band-solve-rev-to-while", "C04",
    "Banded::solve: back substitution `for i in (0..self.n).rev()` -> `let mut i = self.n; while i > 0 { i -= 1; .. }`",
    "same index sequence n-1, .., 0; `i -= 1` guarded by i > 0",
    [(BND, "        for i in (0..self.n).rev() {\n            let mut dum = x[ i ].clone();", "        let mut i = self.n;\n        while i > 0 {\n            i -= 1;\n            let mut dum = x[ i ].clone();")])
add("band-new-let-intro", "C04",
    "Banded::new: the width bound by `let width = m1 + m2 + 1;`",
    "names a pure subexpression",
    [(BND, """        Banded {
            n,
            m1,
            m2,
            compact: Matrix::new( n, m1 + m2 + 1, value ),
        }""", """        let width = m1 + m2 + 1;
        Banded {
            n,
            m1,
            m2,
            compact: Matrix::new( n, width, value ),
        }""")])
add("band-solve-minus-assign", "C04",
    "Banded::solve: `dum -= au[(i,k)] * x[k+i]` -> `dum = dum - au[(i,k)] * x[k+i]`",
    "SubAssign on the element types is self = self - rhs",
    [(BND, "                dum -= au[(i, k)] * x[ k + i ];", "                dum = dum - au[(i, k)] * x[ k + i ];")])

# ------------------------------------------------------------------------------------------------ tridiagonal.rs
add("tri-solve-rename", "C05",
    "Tridiagonal::solve: locals renamed (`a_temp` -> `lower`, `c_temp` -> `upper`)",
    "alpha-renaming, no capture",
    [(TRI, """        let mut a_temp = self.sub.clone();
        let mut c_temp = self.sup.clone();
        a_temp.push_front( T::zero() );
        c_temp.push( T::zero() );""", """        let mut lower = self.sub.clone();
        let mut upper = self.sup.clone();
        lower.push_front( T::zero() );
        upper.push( T::zero() );"""),
     (TRI, """            gamma[j] = c_temp[j - 1] / beta;
            beta = self.main[j] - a_temp[j] * gamma[j];
            if beta == T::zero() { panic!( "Tridiagonal error: zero pivot." ); }
            u[j] = ( r[j] - a_temp[j] * u[j - 1] ) / beta;""", """            gamma[j] = upper[j - 1] / beta;
            beta = self.main[j] - lower[j] * gamma[j];
            if beta == T::zero() { panic!( "Tridiagonal error: zero pivot." ); }
            u[j] = ( r[j] - lower[j] * u[j - 1] ) / beta;""")])
add("tri-solve-inline-let", "C05",
    "Tridiagonal::solve: `let temp = gamma[j+1]*u[j+1]; u[j] -= temp;` -> `u[j] = u[j] - gamma[j+1]*u[j+1];`",
    "all three reads are in range (j+1 <= n-1); reads and `*`, `-` are pure, so the order of the reads is unobservable",
    [(TRI, "            let temp = gamma[j + 1] * u[j + 1];\n            u[j] -= temp;", "            u[j] = u[j] - gamma[j + 1] * u[j + 1];")])
add("tri-det-for-to-while", "C05",
    "Tridiagonal::det: `for j in 2..self.n + 1` -> `let mut j = 2; while j < self.n + 1 { ..; j += 1; }`",
    "same index sequence; self.n is not modified",
    [(TRI, """        for j in 2..self.n + 1 {
            f[ j ] = self.main[ j - 1 ] * f[ j - 1 ]
                   - self.sub[ j - 2 ] * self.sup[ j - 2 ] * f[ j - 2 ];
        }""", """        let mut j = 2;
        while j < self.n + 1 {
            f[ j ] = self.main[ j - 1 ] * f[ j - 1 ]
                   - self.sub[ j - 2 ] * self.sup[ j - 2 ] * f[ j - 2 ];
            j += 1;
        }""")])
add("tri-index-else-chain", "C05",
    "Index for Tridiagonal: the chain of early `return`s -> one `if / else if / else { panic! }` expression",
    "the early returns are mutually exclusive tests evaluated in the same order",
    [(TRI, """        if i == j { return &self.main[i]; }
        if i == j + 1 { return &self.sub[j]; }
        if i + 1 == j { return &self.sup[i]; }
        panic!("Tridiagonal error: index out of bounds.");
    }
}

impl<T> IndexMut""", """        if i == j { &self.main[i] }
        else if i == j + 1 { &self.sub[j] }
        else if i + 1 == j { &self.sup[i] }
        else { panic!("Tridiagonal error: index out of bounds."); }
    }
}

impl<T> IndexMut""")])
add("tri-with_vectors-size-vs-len", "C05",
    "Tridiagonal::with_vectors: `main.size()` / `sub.size()` -> `main.vec.len()` / `sub.vec.len()`",
    "Vector::size() is defined as self.vec.len()",
    [(TRI, """        let n = main.size();
        if sub.size() != n - 1 || sup.size() != n - 1 { """, """        let n = main.vec.len();
        if sub.vec.len() != n - 1 || sup.vec.len() != n - 1 { """)])
add("tri-transpose-return", "C05",
    "Tridiagonal::transpose: tail `temp` -> `return temp;`",
    "same control flow",
    [(TRI, "        let mut temp = self.clone();\n        temp.transpose_in_place();\n        temp\n", "        let mut temp = self.clone();\n        temp.transpose_in_place();\n        return temp;\n")])
add("tri-convert-negated-if", "C05",
    "Tridiagonal::convert: `if self.n == 1 { A } else { B }` -> `if self.n != 1 { B } else { A }`",
    "negated condition, swapped arms",
    [(TRI, """        if self.n == 1 {
            //dense[0][0] = self.main[0];
            dense[(0,0)] = self.main[0];
        } else {
            //dense[0][0] = self.main[0];
            dense[(0,0)] = self.main[0];
            //dense[0][1] = self.sup[0];
            dense[(0,1)] = self.sup[0];
            for i in 1..self.n - 1 {
                //dense[i][i - 1] = self.sub[i - 1];
                dense[(i,i-1)] = self.sub[i - 1];
                //dense[i][i] = self.main[i];
                dense[(i,i)] = self.main[i];
                //dense[i][i + 1] = self.sup[i];
                dense[(i,i+1)] = self.sup[i];
            }
            //dense[self.n - 1][self.n - 2] = self.sub[self.n - 2];
            dense[(self.n - 1, self.n - 2)] = self.sub[self.n - 2];
            //dense[self.n - 1][self.n - 1] = self.main[self.n - 1];
            dense[(self.n - 1, self.n - 1)] = self.main[self.n - 1];
        }""", """        if self.n != 1 {
            dense[(0,0)] = self.main[0];
            dense[(0,1)] = self.sup[0];
            for i in 1..self.n - 1 {
                dense[(i,i-1)] = self.sub[i - 1];
                dense[(i,i)] = self.main[i];
                dense[(i,i+1)] = self.sup[i];
            }
            dense[(self.n - 1, self.n - 2)] = self.sub[self.n - 2];
            dense[(self.n - 1, self.n - 1)] = self.main[self.n - 1];
        } else {
            dense[(0,0)] = self.main[0];
        }""")])

# ------------------------------------------------------------------------------------------------ newton.rs
add("newton-f64-minus-assign", "C17",
    "Newton<f64>::solve: `current -= dx` -> `current = current - dx`",
    "f64 compound assignment",
    [(NWT, "            current -= dx;\n            if dx.abs() <= self.tol {\n                return Ok( current );\n            }\n        }\n        Err( current ) \n    }\n}\n\nimpl Newton<Cmplx>", "            current = current - dx;\n            if dx.abs() <= self.tol {\n                return Ok( current );\n            }\n        }\n        Err( current ) \n    }\n}\n\nimpl Newton<Cmplx>")])
add("newton-f64-let-intro", "C17",
    "Newton<f64>::solve: `func(current)` bound by `let fx` (after the derivative, where it was evaluated before)",
    "the three calls of `func` happen in the same order with the same arguments",
    [(NWT, """                          func( current - self.delta ) ) / ( 2.0 * self.delta );
            let dx = func(current) / deriv;
            current -= dx;
            if dx.abs() <= self.tol {
                return Ok( current );
            }
        }
        Err( current )
    }
}

impl Newton<Cmplx>""", """                          func( current - self.delta ) ) / ( 2.0 * self.delta );
            let fx = func(current);
            let dx = fx / deriv;
            current -= dx;
            if dx.abs() <= self.tol {
                return Ok( current );
            }
        }
        Err( current )
    }
}

impl Newton<Cmplx>""")])
add("newton-vec-rename", "C17",
    "Newton<Vec64>::solve: locals renamed (`max_residual` -> `res`, `f` -> `fv`, `j` -> `jac`)",
    "alpha-renaming, no capture",
    [(NWT, """            let f: Vec64 = func( current.clone() );
            let max_residual = f.norm_inf();
            let mut j = Mat64::jacobian( current.clone(), func, self.delta );
            let dx: Vec64 = j.solve_basic( &f );
            current -= dx;
            if max_residual <= self.tol {""", """            let fv: Vec64 = func( current.clone() );
            let res = fv.norm_inf();
            let mut jac = Mat64::jacobian( current.clone(), func, self.delta );
            let dx: Vec64 = jac.solve_basic( &fv );
            current -= dx;
            if res <= self.tol {""")])
add("newton-f64-for-to-while", "C17",
    "Newton<f64>::solve: `for _ in 0..self.max_iter` -> `let mut it = 0; while it < self.max_iter { it += 1; .. }`",
    "same number of passes (max_iter is not modified); the counter is not otherwise used",
    [(NWT, """        let mut current: f64 = self.guess;
        for _ in 0..self.max_iter {
            let deriv""", """        let mut current: f64 = self.guess;
        let mut it: usize = 0;
        while it < self.max_iter {
            it += 1;
            let deriv""")])
add("newton-vec-return-semicolon", "C17",
    "Newton<Vec64>::solve_jacobian: `return Ok( current )` -> `return Ok( current );`, tail `Err( current )` -> `return Err( current );`",
    "a trailing semicolon after `return` and `return` of the tail expression change nothing",
    [(NWT, """            let mut j: Mat64 = jac( current.clone() );
            let dx: Vec64 = j.solve_basic( &f );
            current -= dx;
            if max_residual <= self.tol {
                return Ok( current )
            }
        }
        Err( current )""", """            let mut j: Mat64 = jac( current.clone() );
            let dx: Vec64 = j.solve_basic( &f );
            current -= dx;
            if max_residual <= self.tol {
                return Ok( current );
            }
        }
        return Err( current );""")])

# ------------------------------------------------------------------------------------------------ mesh1d.rs
add("mesh-trapezium-plus-assign", "C19",
    "Mesh1D::trapezium: `sum += 0.5 * dx * (..)` -> `sum = sum + 0.5 * dx * (..)`",
    "f64 compound assignment; operand order unchanged",
    [(MSH, "            sum += 0.5 * dx * ( self.vars[ node ][ var ] ", "            sum = sum + 0.5 * dx * ( self.vars[ node ][ var ] ")])
add("mesh-trapezium-let-intro", "C19",
    "Mesh1D::trapezium: the two ordinates bound by `let a`, `let b` before the update",
    "both reads are pure; the float expression 0.5 * dx * (a + b) is unchanged",
    [(MSH, """            sum += 0.5 * dx * ( self.vars[ node ][ var ]
                              + self.vars[ node + 1 ][ var ] );""", """            let a = self.vars[ node ][ var ];
            let b = self.vars[ node + 1 ][ var ];
            sum += 0.5 * dx * ( a + b );""")])
add("mesh-new-rename", "C19",
    "Mesh1D::new: locals renamed (`node_vars` -> `nv`, `_i` -> `_k`)",
    "alpha-renaming",
    [(MSH, """        let node_vars = Vector::<T>::new( nvars, T::zero() );
        let mut vars = Vec::new();
        for _i in 0..nodes.size() {
            vars.push( node_vars.clone() );
        }""", """        let nv = Vector::<T>::new( nvars, T::zero() );
        let mut vars = Vec::new();
        for _k in 0..nodes.size() {
            vars.push( nv.clone() );
        }""")])
add("mesh-interp-swap-lets", "C19",
    "Mesh1D::get_interpolated_vars: the independent `let left = ..;` and `let right = ..;` exchanged",
    "both are in-range clones of stored vectors (node + 1 <= size - 1): pure and independent",
    [(MSH, """                let left = self.get_nodes_vars( node );
                let right = self.get_nodes_vars( node + 1 );""", """                let right = self.get_nodes_vars( node + 1 );
                let left = self.get_nodes_vars( node );""")])
add("mesh-get_nodes_vars-return", "C19",
    "Mesh1D::get_nodes_vars: tail expression -> `return ..;`, comments and a blank line added",
    "same control flow",
    [(MSH, """        if node >= self.nodes.size() { panic!( "Mesh1D error: get_nodes_vars range error." ); }
        self.vars[ node ].clone()""", """        if node >= self.nodes.size() { panic!( "Mesh1D error: get_nodes_vars range error." ); }

        // a copy, the mesh keeps its own
        return self.vars[ node ].clone();""")])

# ------------------------------------------------------------------------------------------------ held-out set
# written AFTER the canonicalisations of rust2coq.py (round four) had been implemented against the entries above, and not used to
# tune them: the same classes of rewrite on other functions, plus three classes that were not addressed on purpose
add("held-mat-fill_row-helper-fn", "C03",
    "Matrix::fill_row: the loop body extracted into a private helper `fn put(&mut self, i, j, e)` of the same impl",
    "the helper performs the same single indexed write",
    [(M_OPS, """        if self.rows <= row { panic!( "Matrix range error in fill_row" ); }
        for j in 0..self.cols {
            self[(row, j)] = elem.clone();
        }
    }
""", """        if self.rows <= row { panic!( "Matrix range error in fill_row" ); }
        for j in 0..self.cols {
            self.put( row, j, elem.clone() );
        }
    }

    // one entry
    fn put(&mut self, i: usize, j: usize, e: T ) {
        self[(i, j)] = e;
    }
""")])
add("held-tri-solve-rev-to-while", "C05",
    "Tridiagonal::solve: back substitution `for j in (0..self.n - 1).rev()` -> `let mut j = self.n - 1; while j > 0 { j -= 1; .. }`",
    "same index sequence n-2, .., 0; `self.n - 1` is evaluated once in both versions (n >= 1 here: u[0] was written above)",
    [(TRI, """        for j in (0..self.n - 1).rev() {
            let temp = gamma[j + 1] * u[j + 1];""", """        let mut j = self.n - 1;
        while j > 0 {
            j -= 1;
            let temp = gamma[j + 1] * u[j + 1];""")])
add("held-vec-assign-for-to-while", "C15",
    "Vector::assign: `for i in 0..self.size()` -> counter `while`",
    "same index sequence; the length of the vector does not change (only elements are overwritten)",
    [(V_FUN, """        for i in 0..self.size() {
            self.vec[i] = elem;
        }""", """        let mut i = 0;
        while i < self.size() {
            self.vec[i] = elem;
            i += 1;
        }""")])
add("held-sp-tmul-for-to-while", "C07",
    "Sparse::transpose_multiply: outer `for i in 0..self.cols` -> counter `while`",
    "same index sequence; self is not modified",
    [(SPR, """        let mut result = Vector::create( vec![ T::zero(); self.cols ] );
        for i in 0..self.cols {
            for k in self.col_start[ i ]..self.col_start[ i + 1 ] {
                result[ i ] += self.val[ k ] * x[ self.row_index[ k ] ];
            }
            
        }""", """        let mut result = Vector::create( vec![ T::zero(); self.cols ] );
        let mut i = 0;
        while i < self.cols {
            for k in self.col_start[ i ]..self.col_start[ i + 1 ] {
                result[ i ] += self.val[ k ] * x[ self.row_index[ k ] ];
            }
            i += 1;
        }""")])
add("held-band-det-for-to-while", "C04",
    "Banded::det: the product loop `for i in 0..self.n` -> counter `while` with the bound on the left (`self.n > i`)",
    "same index sequence",
    [(BND, """        for i in 0..self.n {
            //dd *= au[ i ][ 0 ];
            dd *= au[(i, 0)];
        }""", """        let mut i = 0;
        while self.n > i {
            dd *= au[(i, 0)];
            i += 1;
        }""")])
add("held-mat-swap_rows-demorgan", "C03 C01",
    "Matrix::swap_rows: guard `rows <= r1 || rows <= r2` -> `!( rows > r1 && rows > r2 )` (De Morgan)",
    "propositionally equal on usize; NOT addressed by the translator (no boolean normal form): expected to need the equality lemma",
    [(M_OPS, "        if self.rows <= row_1 || self.rows <= row_2 { panic!( \"Matrix swap row range error.\" ); }", "        if !( self.rows > row_1 && self.rows > row_2 ) { panic!( \"Matrix swap row range error.\" ); }")])
add("held-newton-vec-for-to-while", "C17",
    "Newton<Vec64>::solve: `for _ in 0..self.max_iter` -> counter `while` incremented at the END of the body (a `return` inside)",
    "same number of passes; the early `return` leaves the loop in both versions",
    [(NWT, """        let mut current: Vec64 = self.guess.clone();
        for _ in 0..self.max_iter {
            let f: Vec64 = func( current.clone() );
            let max_residual = f.norm_inf();
            let mut j = Mat64::jacobian( current.clone(), func, self.delta );
            let dx: Vec64 = j.solve_basic( &f );
            current -= dx;
            if max_residual <= self.tol {
                return Ok( current )
            }
        }""", """        let mut current: Vec64 = self.guess.clone();
        let mut pass: usize = 0;
        while pass < self.max_iter {
            let f: Vec64 = func( current.clone() );
            let max_residual = f.norm_inf();
            let mut j = Mat64::jacobian( current.clone(), func, self.delta );
            let dx: Vec64 = j.solve_basic( &f );
            current -= dx;
            if max_residual <= self.tol {
                return Ok( current )
            }
            pass += 1;
        }""")])
add("held-poly-derivative_n-for-to-while", "C11",
    "Polynomial::derivative_n: `for _ in 0..n` -> `let mut k = 0; while k < n { ..; k += 1; }`",
    "same number of passes; n is a parameter",
    [(P_MOD, """        for _ in 0..n {
            p = p.derivative();
        }""", """        let mut k = 0;
        while k < n {
            p = p.derivative();
            k += 1;
        }""")])
add("held-mesh-new-for-to-while", "C19",
    "Mesh1D::new: `for _i in 0..nodes.size()` -> counter `while`",
    "same number of passes; `nodes` is not modified",
    [(MSH, """        for _i in 0..nodes.size() {
            vars.push( node_vars.clone() );
        }""", """        let mut i = 0;
        while i < nodes.size() {
            vars.push( node_vars.clone() );
            i += 1;
        }""")])
add("held-solve-determinant-while-ne", "C02",
    "determinant: `for i in 0..self.rows()` -> `let mut i = 0; while i != self.rows() { ..; i += 1; }`",
    "i starts at 0 <= rows, so `!=` and `<` agree; NOT addressed by the translator (`!=` is a counter loop only when lo <= hi is known): expected refusal",
    [(M_SOL, """        for i in 0..self.rows() {
            det *= temp[(i,i)];
        }""", """        let mut i = 0;
        while i != self.rows() {
            det *= temp[(i,i)];
            i += 1;
        }""")])
add("held-sp-get-return-none", "C06",
    "Sparse::get: tail `None` -> `return None;`, and the `if` in the loop with negated condition and an empty else",
    "same control flow",
    [(SPR, """                return Some( self.val[ k ] );
            }
        }
        None
    }""", """                return Some( self.val[ k ] );
            }
        }
        return None;
    }""")])
add("held-band-index-swap-stmts", "C04",
    "Banded::decompose: the independent statements `let mut i = k;` and `if l < self.n { l += 1; }` exchanged",
    "the two statements touch different variables (i / l) and are pure; NOT addressed (statement order is kept by the translator): expected to need the equality lemma",
    [(BND, """            let mut i = k;
            if l < self.n { l += 1; }
            for j in k + 1..l {
                //if au[ j ][ 0 ] > dum {""", """            if l < self.n { l += 1; }
            let mut i = k;
            for j in k + 1..l {
                //if au[ j ][ 0 ] > dum {""")])

# second held-out batch: written after the LAST change of the translator, evaluated once, nothing tuned afterwards
add("held2-mat-get_col-for-to-while", "C03",
    "Matrix::get_col: `for i in 0..self.rows` -> counter `while`",
    "same index sequence; self is not modified, `result` only element-wise",
    [(M_OPS, """        for i in 0..self.rows {
            result[ i ] = self.mat[ i * self.cols + col ];
        }""", """        let mut i = 0;
        while i < self.rows {
            result[ i ] = self.mat[ i * self.cols + col ];
            i += 1;
        }""")])
add("held2-matarith-mscale-for-to-while", "C03",
    "&Matrix * scalar: outer `for i in 0..result.rows()` -> counter `while` whose bound reads the matrix being filled",
    "element writes do not change result.rows()",
    [(M_ARI, """        let mut result = Matrix::<T>::new( self.rows(), self.cols(), T::zero() );
        for i in 0..result.rows() {
            for j in 0..result.cols() {
                result[(i,j)] = self[(i,j)] * scalar;
            }
        }""", """        let mut result = Matrix::<T>::new( self.rows(), self.cols(), T::zero() );
        let mut i = 0;
        while i < result.rows() {
            for j in 0..result.cols() {
                result[(i,j)] = self[(i,j)] * scalar;
            }
            i += 1;
        }""")])
add("held2-vec-vsub-guard-not-eq", "C15",
    "&Vector - &Vector: guard `a != b` -> `!( a == b )`",
    "usize equality is decidable",
    [(V_ARI, "        if self.size() != minus.size() { panic!( \"Vector sizes do not agree (-).\" ); }\n        let mut result = Vec::new();", "        if !( self.size() == minus.size() ) { panic!( \"Vector sizes do not agree (-).\" ); }\n        let mut result = Vec::new();")])
add("held2-tri-with_vectors-demorgan", "C05",
    "Tridiagonal::with_vectors: guard `a != n-1 || b != n-1` -> `!( a == n-1 && b == n-1 )`",
    "De Morgan on usize comparisons; the operands (incl. the checked n - 1) are evaluated in the same order under short-circuiting",
    [(TRI, """        let n = main.size();
        if sub.size() != n - 1 || sup.size() != n - 1 { """, """        let n = main.size();
        if !( sub.size() == n - 1 && sup.size() == n - 1 ) { """)])
add("held2-band-det-rename-expand", "C04",
    "Banded::det: `dd` renamed `prod`, `dd *= x` -> `prod = prod * x`",
    "alpha-renaming; MulAssign on the element types is self = self * rhs",
    [(BND, """        let mut dd = d.clone();
        for i in 0..self.n {
            //dd *= au[ i ][ 0 ];
            dd *= au[(i, 0)];
        }
        dd""", """        let mut prod = d.clone();
        for i in 0..self.n {
            prod = prod * au[(i, 0)];
        }
        prod""")])
add("held2-sp-to_dense-inner-while", "C06",
    "Sparse::to_dense: inner `for k in col_start[j]..col_start[j+1]` -> `let mut k = col_start[j]; while k < col_start[j+1] { ..; k += 1; }`",
    "the two bounds are read in the same order (lower first); self is not modified, so the upper bound is invariant",
    [(SPR, """            for k in self.col_start[ j ]..self.col_start[ j + 1 ] {
                dense[( self.row_index[ k ], j )] = self.val[ k ];
            }""", """            let mut k = self.col_start[ j ];
            while k < self.col_start[ j + 1 ] {
                dense[( self.row_index[ k ], j )] = self.val[ k ];
                k += 1;
            }""")])
add("held2-poly-pmul-let-index", "C11",
    "Polynomial * Polynomial: the index `i + j` bound by `let ij = i + j;`",
    "names a pure usize expression used three times",
    [(P_ARI, "                product.coeffs[ i + j ] = product.coeffs[ i + j ] + self.coeffs[ i ].clone() * times.coeffs[ j ].clone();", "                let ij = i + j;\n                product.coeffs[ ij ] = product.coeffs[ ij ] + self.coeffs[ i ].clone() * times.coeffs[ j ].clone();")])
add("held2-newton-cmplx-minus-assign", "C17",
    "Newton<Cmplx>::solve: `current -= dx` -> `current = current - dx`",
    "SubAssign for Complex is defined by the same component formulas as Sub (C13 assign_eq_binary)",
    [(NWT, """            let dx = func(current) / deriv;
            current -= dx;
            if dx.abs() <= self.tol {
                return Ok( current );
            }
        }
        Err( current ) 
    }
}

impl Newton<Vec64>""", """            let dx = func(current) / deriv;
            current = current - dx;
            if dx.abs() <= self.tol {
                return Ok( current );
            }
        }
        Err( current ) 
    }
}

impl Newton<Vec64>""")])
add("held2-mesh-trapezium-for-to-while", "C19",
    "Mesh1D::trapezium: `for node in 0..self.nodes.size()-1` -> counter `while` (the bound contains a checked subtraction)",
    "the bound is invariant (self is not modified); if size() = 0 the subtraction panics at the first evaluation in both versions",
    [(MSH, """        let mut sum: f64 = 0.0;
        for node in 0..self.nodes.size()-1 {
            let dx = self.nodes[ node + 1 ] - self.nodes[ node ];
            sum += 0.5 * dx * ( self.vars[ node ][ var ] 
                              + self.vars[ node + 1 ][ var ] );
        }""", """        let mut sum: f64 = 0.0;
        let mut node = 0;
        while node < self.nodes.size()-1 {
            let dx = self.nodes[ node + 1 ] - self.nodes[ node ];
            sum += 0.5 * dx * ( self.vars[ node ][ var ] 
                              + self.vars[ node + 1 ][ var ] );
            node += 1;
        }""")])
add("held2-solve-solve_lu-inner-while", "C01",
    "solve_lu: forward substitution `for k in 0..i` -> `let mut k = 0; while k < i { ..; k += 1; }`",
    "the bound is the outer loop variable",
    [(M_SOL, """            for k in 0..i {
                let xk = x[ k ];
                x[ i ] -= self[(i,k)] * xk;
            }""", """            let mut k = 0;
            while k < i {
                let xk = x[ k ];
                x[ i ] -= self[(i,k)] * xk;
                k += 1;
            }""")])
add("held2-vec-norm_p-let-return", "C15 C03",
    "Vector<f64>::norm_p: the exponent bound by `let inv = 1.0 / p;` and the result returned by `return`",
    "the division happens after the loop in both versions; same float operations",
    [(V_F64, "        f64::powf( result, 1.0/p )", "        let inv = 1.0/p;\n        return f64::powf( result, inv );")])
add("held2-sp-scale-helper-fn", "C07",
    "Sparse::scale: the loop body extracted into a private helper `fn scale_one(&mut self, k: usize, v: T)`",
    "the helper performs the same read-multiply-write on the same slot",
    [(SPR, """        for k in 0..self.nonzero {
            self.val[ k ] *= *value;
        }
    }
""", """        for k in 0..self.nonzero {
            self.scale_one( k, *value );
        }
    }

    fn scale_one( &mut self, k: usize, v: T ) {
        self.val[ k ] *= v;
    }
""")])

# ------------------------------------------------------------------------------------------------ negative set
# NOT harmless: each of these changes behaviour while looking like one of the canonicalised shapes.  Every one must still be
# REPORTED (translator refusal or broken equality lemma) -- `run.py --set negative` checks that none is silent.
NEG = []
def neg(name, checks, what, why, edits): NEG.append((name, checks, what, why, edits))
neg("poly-eval-while-decrement-last", "C11",
    "Polynomial::eval as `let mut i = degree; while i > 0 { p = p * x + coeffs[i]; i -= 1; }` (decrement AFTER the body)",
    "uses the indices degree..1 instead of degree-1..0: wrong value",
    [(P_MOD, """        for i in (0..degree).rev() {
            p = p * x + self.coeffs[ i ];
        }
        p
    }

    /// Check if all""", """        let mut i = degree;
        while i > 0 {
            p = p * x + self.coeffs[ i ];
            i -= 1;
        }
        p
    }

    /// Check if all""")])
neg("vec-norm_1-while-step-2", "C15",
    "Vector::norm_1 as a counter `while` with `i += 2`",
    "skips every other element",
    [(V_FUN, """        let mut result = T::zero();
        for i in 0..self.size() {
            result += self.vec[i].abs();
        }
        result""", """        let mut result = T::zero();
        let mut i = 0;
        while i < self.size() {
            result += self.vec[i].abs();
            i += 2;
        }
        result""")])
neg("vec-assign-while-bound-shrinks", "C15",
    "Vector::assign as a counter `while` whose body also pops an element (the bound `self.size()` changes)",
    "the vector is truncated",
    [(V_FUN, """        for i in 0..self.size() {
            self.vec[i] = elem;
        }""", """        let mut i = 0;
        while i < self.size() {
            self.vec[i] = elem;
            self.vec.pop();
            i += 1;
        }""")])
neg("mat-fill_diag-max-instead-of-min", "C03",
    "Matrix::fill_diag: `if cols > rows { cols } else { rows }` (the larger dimension)",
    "index out of range on non-square matrices",
    [(M_OPS, "let n: usize = if self.cols < self.rows { self.cols } else { self.rows };", "let n: usize = if self.cols > self.rows { self.cols } else { self.rows };")])
neg("solve-determinant-sign-flipped", "C02",
    "determinant: `if pivots % 2 != 0 { det } else { -det }`",
    "wrong sign",
    [(M_SOL, "        if pivots % 2 == 0 { det } else { - det }", "        if pivots % 2 != 0 { det } else { - det }")])
neg("solve-inverse-forward-order", "C02",
    "inverse: back substitution `for ii in 0..rows { let i = ii; .. }` (forward instead of backward)",
    "wrong inverse",
    [(M_SOL, "            for i in (0..self.rows()).rev() {\n", "            for ii in 0..self.rows() {\n                let i = ii;\n")])
neg("band-solve-while-stops-at-1", "C04",
    "Banded::solve: back substitution `let mut i = self.n; while i > 1 { i -= 1; .. }`",
    "row 0 is never solved",
    [(BND, "        for i in (0..self.n).rev() {\n            let mut dum = x[ i ].clone();", "        let mut i = self.n;\n        while i > 1 {\n            i -= 1;\n            let mut dum = x[ i ].clone();")])
neg("newton-f64-while-one-more-pass", "C17",
    "Newton<f64>::solve: `let mut it = 0; while it <= self.max_iter { it += 1; .. }`",
    "max_iter + 1 passes",
    [(NWT, """        let mut current: f64 = self.guess;
        for _ in 0..self.max_iter {
            let deriv""", """        let mut current: f64 = self.guess;
        let mut it: usize = 0;
        while it <= self.max_iter {
            it += 1;
            let deriv""")])
neg("sp-to_triplets-helper-swapped", "C06",
    "Sparse::to_triplets through a private helper that pushes (column, row, value)",
    "row and column exchanged",
    [(SPR, """                triplets.push( ( self.row_index[ k ], j, self.val[ k ] ) );
            }
        }
        triplets
    }
""", """                self.push_entry( &mut triplets, j, k );
            }
        }
        triplets
    }

    fn push_entry( &self, out: &mut Vec<(usize, usize, T)>, j: usize, k: usize ) {
        out.push( ( j, self.row_index[ k ], self.val[ k ] ) );
    }
""")])
neg("tri-index-else-chain-swapped", "C05",
    "Index for Tridiagonal as an if / else-if chain with sub and sup exchanged",
    "returns the wrong diagonal",
    [(TRI, """        if i == j { return &self.main[i]; }
        if i == j + 1 { return &self.sub[j]; }
        if i + 1 == j { return &self.sup[i]; }
        panic!("Tridiagonal error: index out of bounds.");
    }
}

impl<T> IndexMut""", """        if i == j { &self.main[i] }
        else if i == j + 1 { &self.sup[j] }
        else if i + 1 == j { &self.sub[i] }
        else { panic!("Tridiagonal error: index out of bounds."); }
    }
}

impl<T> IndexMut""")])
neg("solve-max_abs-nan-negation", "C01",
    "max_abs_in_column: `if max < a` -> `if !( max >= a )` on element values",
    "differs when a is NaN (floating-point comparison is not a total order)",
    [(M_SOL, "            if max < self[(i,col)].abs() {", "            if !( max >= self[(i,col)].abs() ) {")])
neg("sp-cg-early-exit-inverted", "C08",
    "solve_cg: `if i == 1 { p = z } else { .. }` -> `if i != 1 { p = z } else { .. }` (arms NOT exchanged)",
    "wrong search direction",
    [(SPR, """            rho = r.dot( &z );
            if i == 1 {
                p = z.clone();""", """            rho = r.dot( &z );
            if i != 1 {
                p = z.clone();""")])

neg("vec-dot-zip-without-guard", "C15",
    "Vector::dot as `for (a, b) in self.vec.iter().zip(w.vec.iter())` with the size guard REMOVED",
    "vectors of different lengths no longer panic: the product over the common prefix is returned",
    [(V_FUN, """        if self.size() != w.size() { panic!( "Vector sizes do not agree dot()." ); }
        let mut result: T = T::zero();
        for i in 0..self.size() {
            result += self.vec[i] * w.vec[i];
        }
        result""", """        let mut result: T = T::zero();
        for ( a, b ) in self.vec.iter().zip( w.vec.iter() ) {
            result += *a * *b;
        }
        result""")])
neg("vec-norm_1-iter-wrong-element", "C15",
    "Vector::norm_1 as `for _x in self.vec.iter()` whose body reads `self.vec[0]` instead of the element",
    "sums |v[0]| n times (and panics on the empty vector)",
    [(V_FUN, """        let mut result = T::zero();
        for i in 0..self.size() {
            result += self.vec[i].abs();
        }
        result""", """        let mut result = T::zero();
        for _x in self.vec.iter() {
            result += self.vec[0].abs();
        }
        result""")])

# iterator idioms (the rewrites clippy's needless_range_loop suggests), written together with C9
add("held3-vec-norm_1-iter", "C15",
    "Vector::norm_1: `for i in 0..self.size() { .. self.vec[i] .. }` -> `for x in self.vec.iter() { .. x .. }`",
    "the iterator yields the elements in index order",
    [(V_FUN, """        let mut result = T::zero();
        for i in 0..self.size() {
            result += self.vec[i].abs();
        }
        result""", """        let mut result = T::zero();
        for x in self.vec.iter() {
            result += x.abs();
        }
        result""")])
add("held3-vec-assign-iter_mut", "C15",
    "Vector::assign: index loop -> `for slot in self.vec.iter_mut() { *slot = elem; }`",
    "every slot is overwritten once, front to back",
    [(V_FUN, """        for i in 0..self.size() {
            self.vec[i] = elem;
        }""", """        for slot in self.vec.iter_mut() {
            *slot = elem;
        }""")])
add("held3-vec-dot-enumerate", "C15 C16",
    "Vector::dot: `for i in 0..self.size()` -> `for (i, a) in self.vec.iter().enumerate() { result += *a * w.vec[i]; }`",
    "same products in the same order (w.vec[i] is in range: the sizes agree)",
    [(V_FUN, """        for i in 0..self.size() {
            result += self.vec[i] * w.vec[i];
        }
        result
    }

    /// Return the sum of all""", """        for ( i, a ) in self.vec.iter().enumerate() {
            result += *a * w.vec[i];
        }
        result
    }

    /// Return the sum of all""")])

def sh(cmd, cwd):
    return subprocess.run(cmd, cwd=cwd, shell=True, stdout=subprocess.PIPE, stderr=subprocess.STDOUT, text=True)

def apply_entry(repo, edits):
    for ed in edits:
        f, old, new = ed[0], ed[1], ed[2]
        p = os.path.join(repo, f)
        s = open(p).read()
        n = s.count(old)
        if len(ed) > 3:
            k = ed[3]; assert n > k, (f, old[:60], n)
            pos = -1
            for _ in range(k + 1): pos = s.index(old, pos + 1)
            s = s[:pos] + new + s[pos + len(old):]
        elif n == 0:
            # tolerate trailing blanks at line ends of the source
            rx = re.compile(r"[ \t]*\n".join(re.escape(l.rstrip()) for l in old.split("\n")))
            ms = list(rx.finditer(s))
            assert len(ms) == 1, "%s: pattern occurs %d times (blank-tolerant): %r" % (f, len(ms), old[:70])
            s = s[:ms[0].start()] + new + s[ms[0].end():]
        else:
            assert n == 1, "%s: pattern occurs %d times: %r" % (f, n, old[:70])
            s = s.replace(old, new)
        open(p, "w").write(s)

def gen(repo):
    assert sh("git status --porcelain", repo).stdout.strip() == "", "scratch repo not clean"
    idx = ["# Corpus of harmless rewrites of `/repo/src` (generated by `mk_corpus.py gen <scratch repo>`)", "",
           "Each `NN-name.diff` applies with `git apply` to the pinned source; `run.py` applies it to a scratch worktree, runs the",
           "236 tests and the listed checks, and restores the tree.", "",
           "| # | patch | checks | what | why harmless |", "|---|---|---|---|---|"]
    for k, (name, checks, what, why, edits) in enumerate(R, 1):
        apply_entry(repo, edits)
        d = sh("git diff", repo).stdout
        assert d.strip(), name
        fn = "%02d-%s.diff" % (k, name)
        open(os.path.join(HERE, fn), "w").write(d)
        sh("git checkout -- .", repo)
        idx.append("| %02d | `%s` | %s | %s | %s |" % (k, fn, checks, what.replace("|", "\\|"), why.replace("|", "\\|")))
    open(os.path.join(HERE, "INDEX.md"), "w").write("\n".join(idx) + "\n")
    print("wrote %d patches" % len(R))
    os.makedirs(os.path.join(HERE, "negative"), exist_ok=True)
    idx = ["# Negative set: behaviour-CHANGING edits that look like the canonicalised shapes -- every one must be reported", "",
           "| # | patch | checks | what | why it is not harmless |", "|---|---|---|---|---|"]
    for k, (name, checks, what, why, edits) in enumerate(NEG, 1):
        apply_entry(repo, edits)
        d = sh("git diff", repo).stdout
        assert d.strip(), name
        fn = "n%02d-%s.diff" % (k, name)
        open(os.path.join(HERE, "negative", fn), "w").write(d)
        sh("git checkout -- .", repo)
        idx.append("| %02d | `%s` | %s | %s | %s |" % (k, fn, checks, what.replace("|", "\\|"), why.replace("|", "\\|")))
    open(os.path.join(HERE, "negative", "INDEX.md"), "w").write("\n".join(idx) + "\n")
    print("wrote %d negative patches" % len(NEG))

if __name__ == "__main__":
    if sys.argv[1] == "gen": gen(sys.argv[2])
    elif sys.argv[1] == "list":
        for k, r in enumerate(R, 1): print("%02d %s %s" % (k, r[0], r[1]))
