#!/usr/bin/env python3
# tools/rewrites/seeds.py -- detection must not regress: apply seeded mutations (seeded/<ID>-<k>/patch.diff) to a scratch source
# tree, run the check of their property and require a VIOLATION.      seeds.py --repo <scratch tree> C07-4 C08-1 ..
# (tools/seedcheck.py does the same through git worktrees of /repo; this variant touches nothing outside the scratch tree.)
import os, sys, json, argparse
sys.path.insert(0, os.path.dirname(os.path.abspath(__file__)))
import run as R

def main():
    ap = argparse.ArgumentParser()
    ap.add_argument("--repo", required=True); ap.add_argument("--verif", default=os.path.dirname(os.path.dirname(R.BASE)))
    ap.add_argument("--out", default=""); ap.add_argument("seeds", nargs="+")
    ap.add_argument("--mode", default="check")        # check: ./check of the property | fast: translator + equality lemmas only
    a = ap.parse_args()
    repo, verif = os.path.abspath(a.repo), os.path.abspath(a.verif)
    snap = repo.rstrip("/") + ".pristine-src"
    if not os.path.isdir(snap):
        import shutil; shutil.copytree(os.path.join(repo, "src"), snap)
    R.restore(repo, snap)
    env = {"VERIF_REPO": repo, "VERIF_SEED": os.environ.get("VERIF_SEED", "0")}
    res, bad = {}, 0
    for sid in a.seeds:
        pid = sid.split("-")[0]
        rc, out = R.sh("patch -p1 --no-backup-if-mismatch < %s" % os.path.join(verif, "seeded", sid, "patch.diff"), cwd=repo)
        if rc != 0:
            print(sid, "patch does not apply:", out[-200:]); R.restore(repo, snap); bad += 1; continue
        if a.mode == "fast":
            import re
            try:
                rc, out = R.sh("python3-vt -c '%s'" % R.FAST.replace("'", "'\"'\"'"), cwd=verif, env=env)
            finally:
                R.restore(repo, snap)
            m = re.search(r"@@(\{.*\})", out)
            f = json.loads(m.group(1)) if m else {"error": out[-800:]}
            res[sid] = {"refused": sorted(f.get("refused", {})), "lemmas": f.get("lemmas"), "error": f.get("error")}
            print(sid, "refused:", res[sid]["refused"], "lemmas:", res[sid]["lemmas"], res[sid]["error"] or ""); sys.stdout.flush()
            if a.out: json.dump(res, open(a.out, "w"), indent=1)
            continue
        try:
            rc, out = R.sh("./check %s --tier quick 2>&1" % pid, cwd=verif, env=env)
        finally:
            R.restore(repo, snap)
        vio = [l for l in out.split("\n") if l.startswith("VIOLATION")]
        det = [l.strip() for l in out.split("\n") if l.startswith("  ")][:3]
        ok = rc != 0 and bool(vio)
        bad += 0 if ok else 1
        res[sid] = {"exit": rc, "violations": vio[:3], "detail": det, "reported": ok}
        print(sid, "REPORTED" if ok else "NOT REPORTED", vio[:1], " | ".join(det)[:260]); sys.stdout.flush()
        if a.out: json.dump(res, open(a.out, "w"), indent=1)
    if a.mode == "fast": R.sh("python3-vt -c '%s'" % R.FAST.replace("'", "'\"'\"'"), cwd=verif, env=env)     # gen/ back to the pristine source
    sys.exit(1 if bad else 0)

if __name__ == "__main__":
    main()
