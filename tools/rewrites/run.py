#!/usr/bin/env python3
# tools/rewrites/run.py -- apply every harmless rewrite of the corpus to a scratch copy of the source and record what the
# verification says:   run.py --repo <scratch source tree> [--verif <verification tree>] [--mode fast|check] [--tests]
#                             [--only 01,07,..] [--out results.json]
#   fast : regenerate coq/gen/Src*.v from the rewritten source and rebuild the Proofs/SrcEq*.vo that depend on what changed
#          (translator refusals and broken equality lemmas, ~seconds per rewrite; development loop)
#   check: run `./check CXX` (quick tier) for every check listed for the rewrite in INDEX.md and classify its verdict
#          (silent / VIOLATION no-failing-input-found (which obligation) / VIOLATION with a failing input)
# The scratch tree is restored from a snapshot of its src/ taken before the first patch (no git needed in the scratch tree).
import os, sys, re, json, subprocess, shutil, time, argparse

HERE = os.path.dirname(os.path.abspath(__file__))
BASE = HERE

def sh(cmd, cwd=None, env=None, timeout=3000):
    e = dict(os.environ); e.update(env or {})
    p = subprocess.run(cmd, cwd=cwd, shell=True, stdout=subprocess.PIPE, stderr=subprocess.STDOUT, text=True, env=e, timeout=timeout)
    return p.returncode, p.stdout

def corpus():
    out = []
    for line in open(os.path.join(HERE, "INDEX.md")):
        m = re.match(r"\| (\d+) \| `([^`]+)` \| ([^|]*) \|", line)
        if m: out.append((m.group(1), m.group(2), m.group(3).split()))
    return out

def restore(repo, snap):
    for root, _, files in os.walk(snap):
        for f in files:
            a = os.path.join(root, f); b = os.path.join(repo, "src", os.path.relpath(a, snap))
            if open(a, "rb").read() != open(b, "rb").read(): shutil.copyfile(a, b)

FAST = r'''
import sys, os, json
sys.path.insert(0, "driver")
import translate_src, common
from translate import write_if_changed
files, summary, broken = translate_src.render_all()
changed = []
for name, text in files.items():
    if write_if_changed(os.path.join(common.COQDIR, "gen", name + ".v"), text): changed.append(name)
res = {"refused": broken, "changed": changed, "lemmas": []}
mods = sorted(set(k.split(".")[0] for k in broken) | set(c[3:] for c in changed if c != "SrcPrelude"))
for m in mods:
    rc, log = common.coq_make("Proofs/SrcEq%s.vo" % m)
    if rc != 0: res["lemmas"].append(common.failing_statement(log) or ("Proofs/SrcEq%s.v" % m))
print("@@" + json.dumps(res))
'''

def classify(out):
    """verdict of one ./check run from its output"""
    vio = [l for l in out.split("\n") if l.startswith("VIOLATION")]
    if not vio: return "silent", ""
    detail = " ; ".join(l.strip() for l in out.split("\n") if l.startswith("  proof:") or l.startswith("  correspondence:") or l.startswith("  model:"))
    if all("no-failing-input-found" in l for l in vio): return "noise", detail[:600]
    return "FAILING-INPUT", (" ; ".join(vio) + " " + detail)[:600]

def main():
    global HERE
    ap = argparse.ArgumentParser()
    ap.add_argument("--repo", required=True); ap.add_argument("--verif", default=os.path.dirname(os.path.dirname(HERE)))
    ap.add_argument("--mode", default="fast"); ap.add_argument("--tests", action="store_true")     # mode: fast | check | none
    ap.add_argument("--only", default=""); ap.add_argument("--out", default="")
    ap.add_argument("--checks", default="")                   # run these checks instead of the ones listed in INDEX.md (e.g. C20)
    ap.add_argument("--set", default="")                      # "negative": tools/rewrites/negative/ (every entry must be reported)
    a = ap.parse_args()
    if a.set: HERE = os.path.join(BASE, a.set)
    repo, verif = os.path.abspath(a.repo), os.path.abspath(a.verif)
    snap = repo.rstrip("/") + ".pristine-src"
    if not os.path.isdir(snap): shutil.copytree(os.path.join(repo, "src"), snap)
    restore(repo, snap)
    only = set(x for x in a.only.split(",") if x)
    env = {"VERIF_REPO": repo, "VERIF_SEED": os.environ.get("VERIF_SEED", "0")}
    results = {}
    if a.out and os.path.exists(a.out): results = json.load(open(a.out))
    for num, fn, checks in corpus():
        if only and num not in only: continue
        t0 = time.time()
        if a.checks: checks = a.checks.split(",")
        r = {"patch": fn, "checks": checks}
        rc, out = sh("patch -p1 --no-backup-if-mismatch < %s" % os.path.join(HERE, fn), cwd=repo)
        if rc != 0:
            r["error"] = "patch does not apply: " + out[-300:]; results[num] = r; restore(repo, snap); continue
        try:
            if a.tests:
                rc, out = sh("cargo test --offline 2>&1", cwd=repo, timeout=1200)
                npass = sum(int(x) for x in re.findall(r"test result: \w+\. (\d+) passed", out))
                nfail = sum(int(x) for x in re.findall(r"test result: \w+\. \d+ passed; (\d+) failed", out))
                r["tests"] = ("ok %d" % npass) if (rc == 0 and nfail == 0) else ("FAILED (%d passed, %d failed)" % (npass, nfail))
            if a.mode == "fast":
                rc, out = sh("python3-vt -c '%s'" % FAST.replace("'", "'\"'\"'"), cwd=verif, env=env)
                m = re.search(r"@@(\{.*\})", out)
                r["fast"] = json.loads(m.group(1)) if m else {"error": out[-1500:]}
            elif a.mode == "check":
                r["verdicts"] = {}
                for c in checks:
                    # REWRITES_PREFIX: e.g. "taskset -c 8-11".  A failure that names neither a lemma nor a translator refusal nor a
                    # case is environmental (coqc killed under memory pressure, a timeout): the run is repeated, at most twice
                    for attempt in range(3):
                        rc, out = sh("%s ./check %s --tier quick 2>&1" % (os.environ.get("REWRITES_PREFIX", ""), c), cwd=verif, env=env)
                        v, d = classify(out)
                        if v == "silent" or "Lemma" in d or "source translator" in d or "correspondence" in d or v == "FAILING-INPUT": break
                    if rc == 0 and v != "silent": v = "silent(rc0?)"
                    if rc != 0 and v == "silent": v, d = "ERROR", out[-800:]
                    r["verdicts"][c] = [v, d]
        finally:
            restore(repo, snap)
        r["seconds"] = round(time.time() - t0, 1)
        results[num] = r
        if a.mode == "fast":
            f = r.get("fast", {})
            print(num, fn, r.get("tests", ""), "| refused:", "; ".join("%s: %s" % kv for kv in f.get("refused", {}).items())[:300],
                  "| lemmas:", f.get("lemmas"), "| changed:", f.get("changed"), f.get("error", ""))
        else:
            print(num, fn, r.get("tests", ""), {c: v[0] for c, v in r.get("verdicts", {}).items()}, r["seconds"])
        sys.stdout.flush()
        if a.out: json.dump(results, open(a.out, "w"), indent=1, sort_keys=True)
    # leave every generated fragment (gen/Src*.v, gen/GuardTable.v, ..) as it is for the pristine source
    sh("python3-vt -c 'import sys; sys.path.insert(0, \"driver\"); import translate; translate.regenerate_all()'", cwd=verif, env=env)

if __name__ == "__main__":
    main()
