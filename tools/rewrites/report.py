#!/usr/bin/env python3
# tools/rewrites/report.py <before.json> <after.json> -- the table of findings/harmless-rewrites.md from two `run.py --mode check` result files
import sys, json, re, os
HERE = os.path.dirname(os.path.abspath(__file__))

def short(detail):
    """the obligation named by a noise verdict"""
    m = re.search(r"source translator \(([^)]*)\): (s_\w+): rust2coq: \w+: ([^;|]{0,90})", detail)
    if m: return "translator refuses %s: %s" % (m.group(2), m.group(3).strip())
    m = re.search(r"failed at (Proofs/\w+\.v: Lemma \w+)", detail) or re.search(r"(Proofs/SrcEq\w+\.v: Lemma \w+)", detail)
    if m: return "equality lemma " + m.group(1).replace("Proofs/", "").replace(".v: Lemma ", ".")
    m = re.search(r"source translator \(([^)]*)\): ([^;|]{0,110})", detail)
    if m: return "translator (%s): %s" % (m.group(1), m.group(2).strip())
    return detail[:120]

def cell(r):
    if r is None: return "(not run)"
    if "error" in r: return "ERROR " + r["error"][:60]
    out = []
    for c, (v, d) in sorted(r.get("verdicts", {}).items()):
        if v == "silent": out.append("%s silent" % c)
        elif v == "noise": out.append("%s **noise**: %s" % (c, short(d)))
        else: out.append("%s **%s** %s" % (c, v, d[:160]))
    return "; ".join(out)

def noisy(r): return r is not None and any(v[0] != "silent" for v in r.get("verdicts", {}).values())
def failing(r): return r is not None and any(v[0] not in ("silent", "noise") for v in r.get("verdicts", {}).values())

def main():
    before, after = json.load(open(sys.argv[1])), json.load(open(sys.argv[2]))
    idx = {}
    for line in open(os.path.join(HERE, "INDEX.md")):
        m = re.match(r"\| (\d+) \| `([^`]+)` \|", line)
        if m: idx[m.group(1)] = m.group(2)
    print("| # | rewrite | before (translator of main) | after (this package) |")
    print("|---|---|---|---|")
    groups = {"tuned (01-71)": [], "held-out 1 (72-83)": [], "held-out 2 (84-95)": []}
    for k in sorted(idx):
        b, a = before.get(k), after.get(k)
        print("| %s | `%s` | %s | %s |" % (k, idx[k][3:-5], cell(b), cell(a)))
        g = "tuned (01-71)" if int(k) <= 71 else ("held-out 1 (72-83)" if int(k) <= 83 else "held-out 2 (84-95)")
        groups[g].append((b, a))
    print()
    print("| set | rewrites | noisy before | noisy after | with a failing input (before / after) |")
    print("|---|---|---|---|---|")
    tot = [0, 0, 0, 0, 0]
    for g, rows in groups.items():
        nb, na = sum(noisy(b) for b, a in rows), sum(noisy(a) for b, a in rows)
        fb, fa = sum(failing(b) for b, a in rows), sum(failing(a) for b, a in rows)
        print("| %s | %d | %d | %d | %d / %d |" % (g, len(rows), nb, na, fb, fa))
        for i, x in enumerate((len(rows), nb, na, fb, fa)): tot[i] += x
    print("| all | %d | %d | %d | %d / %d |" % tuple(tot))

if __name__ == "__main__":
    main()
