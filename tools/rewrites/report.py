#!/usr/bin/env python3
# tools/rewrites/report.py -- the tables of findings/harmless-rewrites.md from the result files of run.py
#   report.py corpus <before-check.json> <before-fast-held.json> <after-fast.json> <after-check.json> [<after-check-2.json> ..]
#   report.py coord  <coordinator detect dir> <before-fast.json> <after-fast.json> <after-check.json>
import sys, json, re, os
HERE = os.path.dirname(os.path.abspath(__file__))

def short(detail):
    m = re.search(r"source translator \(([^)]*)\): (s_\w+): rust2coq: \w+: ([^;|]{0,70})", detail)
    if m: return "translator refuses %s (%s)" % (m.group(2), m.group(3).strip())
    m = re.search(r"(Proofs/SrcEq\w+\.v: Lemma \w+)", detail)
    if m: return "lemma " + m.group(1).replace("Proofs/", "").replace(".v: Lemma ", ".")
    m = re.search(r"source translator \(([^)]*)\): ([^;|]{0,90})", detail)
    if m: return "translator (%s): %s" % (m.group(1), m.group(2).strip())
    return detail[:90]

def check_cell(r):
    if not r or not r.get("verdicts"): return None
    out = []
    for c, (v, d) in sorted(r["verdicts"].items()):
        out.append("%s silent" % c if v == "silent" else ("%s **noise**: %s" % (c, short(d)) if v == "noise" else "%s **%s** %s" % (c, v, d[:120])))
    return "; ".join(out)

def fast_cell(r):
    f = (r or {}).get("fast")
    if f is None: return None
    if f.get("error"): return "ERROR"
    bits = ["translator refuses s_%s" % k.split(".", 1)[1] for k in sorted(f.get("refused", {}))]
    bits += ["lemma " + l.split(" (line")[0].replace("Proofs/", "").replace(".v: Lemma ", ".") for l in (f.get("lemmas") or [])
             if not any(l.split("Lemma src_")[-1].split(" ")[0] == k.split(".", 1)[1] for k in f.get("refused", {}))]
    return "silent" if not bits else "**noise**: " + "; ".join(sorted(set(bits)))

def noisy_check(r): return any(v[0] != "silent" for v in (r or {}).get("verdicts", {}).values())
def noisy_fast(r):
    f = (r or {}).get("fast") or {}
    return bool(f.get("refused")) or bool(f.get("lemmas"))

def index(sub=""):
    idx = {}
    for line in open(os.path.join(HERE, sub, "INDEX.md")):
        m = re.match(r"\| (\d+) \| `([^`]+)` \| ([^|]*) \|", line)
        if m: idx[m.group(1)] = (m.group(2), m.group(3).strip())
    return idx

def corpus(args):
    bc, bf, af = [json.load(open(a)) for a in args[:3]]
    ac = {}
    for a in args[3:]: ac.update(json.load(open(a)))
    idx = index()
    print("| # | rewrite | checks | before | after: translator + `SrcEq` lemmas | after: `./check` (quick) |")
    print("|---|---|---|---|---|---|")
    groups = {"tuning set 01-71": [0, 0, 0, 0, 0], "held-out 1 (72-83)": [0, 0, 0, 0, 0], "held-out 2 (84-95)": [0, 0, 0, 0, 0],
              "iterator idioms 96-98 (written with C9)": [0, 0, 0, 0, 0]}
    for k in sorted(idx):
        g = "tuning set 01-71" if int(k) <= 71 else ("held-out 1 (72-83)" if int(k) <= 83 else ("held-out 2 (84-95)" if int(k) <= 95 else "iterator idioms 96-98 (written with C9)"))
        before = check_cell(bc.get(k)) if int(k) <= 71 else fast_cell(bf.get(k))
        nb = noisy_check(bc.get(k)) if int(k) <= 71 else noisy_fast(bf.get(k))
        after_f, after_c = fast_cell(af.get(k)), check_cell(ac.get(k))
        print("| %s | `%s` | %s | %s | %s | %s |" % (k, idx[k][0][3:-5], idx[k][1], before or "-", after_f or "-", after_c or "(not re-run)"))
        G = groups[g]; G[0] += 1; G[1] += nb; G[2] += noisy_fast(af.get(k))
        if ac.get(k): G[3] += 1; G[4] += noisy_check(ac.get(k))
    print()
    print("| set | rewrites | noisy before | noisy after | of which re-run through `./check`: entries / noisy |")
    print("|---|---|---|---|---|")
    tot = [0] * 5
    for g, G in groups.items():
        print("| %s | %d | %d | %d | %d / %d |" % (g, G[0], G[1], G[2], G[3], G[4]))
        tot = [a + b for a, b in zip(tot, G)]
    print("| all | %d | %d | %d | %d / %d |" % tuple(tot))

def coord(args):
    ddir, bf, af, ac = args[0], json.load(open(args[1])), json.load(open(args[2])), json.load(open(args[3])) if len(args) > 3 and os.path.exists(args[3]) else {}
    idx = index("coord")
    print("| # | property | before: `./check` (coordinator's run) | before: translator + lemmas | after: translator + lemmas | after: `./check` |")
    print("|---|---|---|---|---|---|")
    n = [0, 0, 0, 0, 0]
    for k in sorted(idx):
        c = idx[k][1]
        j = json.load(open(os.path.join(ddir, c, "detect.json"))).get(c, {})
        b = "silent" if j.get("exit") == 0 else "**noise**: " + short(" | ".join(x.strip() for x in j.get("detail", [])))
        print("| %s | %s | %s | %s | %s | %s |" % (k, c, b, fast_cell(bf.get(k)) or "-", fast_cell(af.get(k)) or "-", check_cell(ac.get(k)) or "(not re-run)"))
        n[0] += j.get("exit") != 0; n[1] += noisy_fast(bf.get(k)); n[2] += noisy_fast(af.get(k))
        if ac.get(k): n[3] += 1; n[4] += noisy_check(ac.get(k))
    print()
    print("noisy: %d of 20 before in `./check` (%d by the loop translator / its lemmas), %d after by the loop translator / its lemmas; re-run through `./check` after: %d entries, %d noisy" % tuple(n))

if __name__ == "__main__":
    (corpus if sys.argv[1] == "corpus" else coord)(sys.argv[2:])
