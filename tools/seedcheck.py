#!/usr/bin/env python3
"""tools/seedcheck.py -- confirm a seeded mutation and run the checks against it.
   seedcheck.py confirm <dir>            dir has patch.diff, zz_demo.rs, meta.json
        -> fresh scratch worktree of /repo; demo passes without the patch; with the patch the 236 existing
           tests still pass and the demo fails.  Writes <dir>/confirm.json.
   seedcheck.py detect <dir> <PID> [<PID>...]
        -> applies the patch in a scratch worktree and runs ./check <PID> --tier quick with VERIF_REPO pointing at it;
           records exit code / VIOLATION lines in <dir>/detect.json.
   Scratch worktrees live under /tmp/seedrun and are removed afterwards."""
import sys, os, subprocess, json, shutil, re
VERIF = os.path.dirname(os.path.dirname(os.path.abspath(__file__)))

def sh(cmd, cwd=None, env=None, timeout=3600):
    e = dict(os.environ); e["CARGO_NET_OFFLINE"] = "true"
    if env: e.update(env)
    p = subprocess.run(cmd, shell=True, cwd=cwd, env=e, stdout=subprocess.PIPE, stderr=subprocess.STDOUT, text=True, timeout=timeout, errors="replace")
    return p.returncode, p.stdout

def worktree(tag):
    wt = "/tmp/seedrun/%s_%d" % (tag, os.getpid())
    os.makedirs("/tmp/seedrun", exist_ok=True)
    sh("git -C /repo worktree remove --force %s" % wt)
    rc, out = sh("git -C /repo worktree add -q --detach %s HEAD" % wt)
    if rc != 0: raise SystemExit("cannot create worktree: " + out)
    return wt

def drop(wt):
    sh("git -C /repo worktree remove --force %s" % wt)
    shutil.rmtree(wt, ignore_errors=True)

def counts(out):
    p = sum(int(x) for x in re.findall(r"test result: \w+\. (\d+) passed", out))
    f = sum(int(x) for x in re.findall(r"test result: \w+\. \d+ passed; (\d+) failed", out))
    return p, f

def confirm(d):
    d = os.path.abspath(d); tag = d.strip("/").replace("/", "_")[-40:]
    wt = worktree(tag); res = {}
    try:
        shutil.copy(os.path.join(d, "zz_demo.rs"), os.path.join(wt, "tests", "zz_demo.rs"))
        tdir = "/tmp/seedrun/target_%d" % os.getpid()       # private: a shared target dir lets concurrent runs execute each other's zz_demo binary
        tgt = {"CARGO_TARGET_DIR": tdir}
        rc, out = sh("cargo test --offline --test zz_demo 2>&1", cwd=wt, env=tgt)
        res["demo_passes_unpatched"] = (rc == 0); res["demo_unpatched_tail"] = out[-600:]
        rc, out = sh("git apply %s" % os.path.join(d, "patch.diff"), cwd=wt)
        res["patch_applies"] = (rc == 0)
        if rc != 0: res["apply_error"] = out[-600:]
        os.rename(os.path.join(wt, "tests", "zz_demo.rs"), os.path.join(wt, "zz_demo.rs.off"))
        rc, out = sh("cargo test --offline 2>&1", cwd=wt, env=tgt)
        p, f = counts(out)
        res["suite_patched"] = {"rc": rc, "passed": p, "failed": f}
        res["suite_passes_patched"] = (rc == 0 and p >= 236 and f == 0)
        os.rename(os.path.join(wt, "zz_demo.rs.off"), os.path.join(wt, "tests", "zz_demo.rs"))
        rc, out = sh("cargo test --offline --test zz_demo 2>&1", cwd=wt, env=tgt)
        res["demo_fails_patched"] = (rc != 0); res["demo_patched_tail"] = out[-800:]
        res["confirmed"] = bool(res["demo_passes_unpatched"] and res["patch_applies"] and res["suite_passes_patched"] and res["demo_fails_patched"])
    finally:
        drop(wt)
        shutil.rmtree("/tmp/seedrun/target_%d" % os.getpid(), ignore_errors=True)
    json.dump(res, open(os.path.join(d, "confirm.json"), "w"), indent=1)
    print(d, "CONFIRMED" if res.get("confirmed") else "NOT CONFIRMED", {k: v for k, v in res.items() if isinstance(v, bool)})
    return res.get("confirmed")

def detect(d, pids, tier="quick"):
    d = os.path.abspath(d); tag = d.strip("/").replace("/", "_")[-40:]
    wt = worktree(tag); res = {}
    # the check regenerates coq/gen from the source it is pointed at: keep the files generated from /repo and put them back afterwards
    gen = os.path.join(VERIF, "coq", "gen"); genbak = "/tmp/seedrun/genbak_%d" % os.getpid()
    shutil.rmtree(genbak, ignore_errors=True); shutil.copytree(gen, genbak)
    try:
        rc, out = sh("git apply %s" % os.path.join(d, "patch.diff"), cwd=wt)
        if rc != 0: raise SystemExit("patch does not apply: " + out)
        for pid in pids:
            ev = os.path.join(VERIF, "evidence", pid + ".json")
            keep = open(ev).read() if os.path.exists(ev) else None     # evidence must describe runs on /repo itself
            rc, out = sh("./check %s --tier %s 2>&1" % (pid, tier), cwd=VERIF, env={"VERIF_REPO": wt}, timeout=3000)
            if keep is not None:
                open(ev, "w").write(keep)
            vio = [l for l in out.split("\n") if l.startswith("VIOLATION")]
            res[pid] = {"exit": rc, "violations": vio[:5], "summary": [l for l in out.split("\n") if " quick:" in l or " thorough:" in l][-1:],
                        "detail": [l for l in out.split("\n") if l.startswith("  ")][:4]}
            print(d, pid, "exit", rc, vio[:2])
    finally:
        drop(wt)
        # point the executor back at /repo
        sh("ln -sfn /repo %s/.cache/repo && touch /repo/src/lib.rs" % VERIF)
        for f in os.listdir(genbak):
            if f.endswith(".v") and open(os.path.join(genbak, f)).read() != (open(os.path.join(gen, f)).read() if os.path.exists(os.path.join(gen, f)) else None):
                shutil.copy(os.path.join(genbak, f), os.path.join(gen, f))
        shutil.rmtree(genbak, ignore_errors=True)
    old = {}
    p = os.path.join(d, "detect.json")
    if os.path.exists(p): old = json.load(open(p))
    old.update(res)
    json.dump(old, open(p, "w"), indent=1)
    return res

if __name__ == "__main__":
    if sys.argv[1] == "confirm": sys.exit(0 if confirm(sys.argv[2]) else 1)
    if sys.argv[1] == "detect": detect(sys.argv[2], sys.argv[3:])
