#!/usr/bin/env python3
"""copy confirmed seeded mutations from /tmp/seed/<ID>/<k>/ into /verif/seeded/<ID>-<k>/ (patch.diff, zz_demo.rs, meta.json)"""
import os, json, shutil, glob, sys
BASE = sys.argv[1] if len(sys.argv) > 1 else "/tmp/seed"
OFFSET = int(sys.argv[2]) if len(sys.argv) > 2 else 0
V = os.path.dirname(os.path.dirname(os.path.abspath(__file__)))
n = 0
for d in sorted(glob.glob(BASE + "/C*/[0-9]")):
    cf = os.path.join(d, "confirm.json")
    if not os.path.exists(cf): continue
    c = json.load(open(cf))
    if not c.get("confirmed"): continue
    pid, k = d.split("/")[-2:]
    out = os.path.join(V, "seeded", "%s-%d" % (pid, int(k) + OFFSET)); os.makedirs(out, exist_ok=True)
    shutil.copy(os.path.join(d, "patch.diff"), out); shutil.copy(os.path.join(d, "zz_demo.rs"), out)
    m = json.load(open(os.path.join(d, "meta.json")))
    m["confirmed_by_coordinator"] = {"how": "tools/seedcheck.py confirm: fresh scratch worktree of /repo HEAD; demo passes unpatched; patch applies; full suite with patch: %s; demo fails with patch" % json.dumps(c.get("suite_patched")),
                                     "demo_failure_excerpt": c.get("demo_patched_tail", "")[-400:]}
    old = {}
    if os.path.exists(os.path.join(out, "meta.json")):
        try: old = json.load(open(os.path.join(out, "meta.json")))
        except Exception: old = {}
    det = old.get("detection", {})
    df = os.path.join(d, "detect.json")
    if os.path.exists(df):
        for pid2, r in json.load(open(df)).items():
            det[pid2] = {"exit": r["exit"], "violation_lines": r["violations"][:2], "detail": r.get("detail", [])[:2], "summary": r.get("summary")}
    m["detection"] = det
    json.dump(m, open(os.path.join(out, "meta.json"), "w"), indent=1)
    n += 1
print("synced", n)
