# driver/gen_c20_coq.py -- writes the STATIC Coq files of C20 from driver/guardtable.py (run by hand when the
# table changes; the results are committed):  Model/Guards.v (range specifications), Proofs/Guards.v (lemmas),
# Props/C20.v (pinned theorems).  The guard definitions themselves (gen/GuardTable.v) are regenerated from
# /repo/src on every check run by translate.py, so each theorem is re-proved against what the code says now.
import os, sys
sys.path.insert(0, os.path.dirname(os.path.abspath(__file__)))
import guardtable
COQ = os.path.join(os.path.dirname(os.path.dirname(os.path.abspath(__file__))), "coq")

def stmt(e):
    vs = [n for n, _, _ in e["vars"]]
    hyps = ["0 <= %s" % n for n, lo, _ in e["vars"] if lo >= 0]
    if e["pre"]: hyps.append(e["pre"])
    body = "(g_%s %s = false <-> ok_%s %s)" % (e["key"], " ".join(vs), e["key"], " ".join(vs))
    return "forall %s : Z, %s" % (" ".join(vs), " -> ".join(hyps + [body]))

def main():
    ents = [e for e in guardtable.ENTRIES if not e["native"]]
    L = ["(* Model/Guards.v -- range / conformability specifications of the checked entry points (C20).",
         "   This file is written out by driver/gen_c20_coq.py from the hand-written `spec` column of driver/guardtable.py",
         "   (one line per entry; edit it there).  The specifications come from the documentation and the property text,",
         "   NOT from the guards: the theorems of Props/C20.v show that the guards regenerated from the source",
         "   (gen/GuardTable.v) fire exactly outside these ranges.  Entries rejected only by Vec indexing (band_index_*,",
         "   raw (i,j) operators: `native` in the table) have no specification here; their contract is",
         "   entry_contract_native in Props/C20.v. *)",
         "From Coq Require Import ZArith.", "Local Open Scope Z_scope.", ""]
    for e in ents:
        vs = " ".join(n for n, _, _ in e["vars"])
        L.append("Definition ok_%s (%s : Z) : Prop := %s." % (e["key"], vs, e["spec"]))
    open(os.path.join(COQ, "Model", "Guards.v"), "w").write("\n".join(L) + "\n")
    L = ["(* Proofs/Guards.v -- each regenerated guard fires exactly outside the specified range (C20). *)",
         "From Coq Require Import ZArith Bool Lia ZifyBool.",
         "From OV Require Import gen.GuardTable Model.Guards.", "Local Open Scope Z_scope.", "",
         "Ltac guard_tac g ok := intros; unfold g, ok; lia.", ""]
    for e in ents:
        L.append("Lemma guard_%s_lemma : %s.\nProof. guard_tac g_%s ok_%s. Qed." % (e["key"], stmt(e), e["key"], e["key"]))
    open(os.path.join(COQ, "Proofs", "Guards.v"), "w").write("\n".join(L) + "\n")
    L = ["(* Props/C20.v -- property theorems only.  guard_<entry>: for all (non-negative) sizes and arguments, the explicit guards",
         "   of the entry point -- as regenerated from /repo/src into gen/GuardTable.v on this run -- let the call through",
         "   exactly when the arguments are conformable / in the documented range (Model/Guards.v). *)",
         "From Coq Require Import ZArith Bool.",
         "From OV Require Import gen.GuardTable Model.Guards Proofs.Guards.", "Local Open Scope Z_scope.", ""]
    for e in ents:
        s = stmt(e)
        L.append("Theorem guard_%s : %s.\nProof. exact guard_%s_lemma. Qed.\nCheck guard_%s : %s.\nPrint Assumptions guard_%s.\n" % (
            e["key"], s, e["key"], e["key"], s, e["key"]))
    # non-vacuity: each specification is satisfiable and refutable inside the enumerated domain
    L.append("(* non-vacuity: every range specification has an instance that holds (and the guards let it through) *)")
    import itertools
    for e in ents:
        doms = [range(lo, hi + 1) for _, lo, hi in e["vars"]]
        good = next((t for t in itertools.product(*doms) if e["ok"](*t) and not (e["dontcare"] and e["dontcare"](*t))), None)
        if good is None: continue
        args = " ".join("(%d)" % v for v in good)
        L.append("Example guard_%s_nonvacuous : ok_%s %s /\\ g_%s %s = false.\nProof. unfold ok_%s, g_%s; split; [lia | reflexivity]. Qed." % (
            e["key"], e["key"], args, e["key"], args, e["key"], e["key"]))
    text = "\n".join(L) + "\n"
    text = text.replace("From Coq Require Import ZArith Bool.\nFrom OV Require Import gen.GuardTable Model.Guards Proofs.Guards.",
                        "From Coq Require Import ZArith Bool Lia.\nFrom OV Require Import gen.GuardTable Model.Guards Proofs.Guards.")
    open(os.path.join(COQ, "Props", "C20.v"), "w").write(text)
    print("wrote Guards.v x2, Props/C20.v: %d theorems" % len(ents))

main()
