# C04 -- a banded matrix behaves exactly like the dense matrix with the same band.
from fractions import Fraction
import math
from common import *
from engine import Case
from bandlib import *

PID = "C04"
IMPORTS = "From OV Require Import Model.Vector Model.Matrix Model.Banded."
MODEL_VO = ["Model/Banded.vo"]
EXHAUSTIVE = False      # exhaustive in (n,m1,m2) (thorough: all 385 triples), sampled in the entry values
RULE = ("band.hist cases (initial compact storage with every padding slot set to a loud value, then operations; the state is dumped where the "
        "history asks for it): (a) every (n,m1,m2), 0<=m1,m2<n, n=1..6 quick / 1..10 thorough (all 385 triples; quick adds a seeded sample of 36 "
        "triples with n=7..10) x 7 rational sign patterns (mixed, negative dominant diagonal, zero diagonal over nonzero sub-diagonal, tiny positive "
        "sub-diagonals under a negative diagonal, all negative, positive dominant, singular) x [getall, size, mulv, det, solve]; on every triple up to "
        "n=6 (7 thorough) and a seeded sample of the larger ones: (b) the arithmetic operators and compound assignments, (c) f64 and Complex<f64> "
        "(tiny sub-diagonals 1e-20, scaled rows, NaN/inf/1e300 padding; det/solve only where cond_inf <= 1e8; quick: n<=5 + sample), (d) padding "
        "written through new / fill_band / index_mut (in-band, column >= n) / += constant; (e) mismatched sizes, out-of-band and out-of-range "
        "arguments (must be rejected); (f) seeded random histories incl. resize; (g) bandwidths >= n (tie only). "
        "Structured families (every triple up to n=4 and a seeded rotation of 14 larger ones; thorough: n<=6 + 30): (h) structured matrices over Rat -- constant "
        "positive bands (the unit tests' class), one special value per band, equal magnitudes with random signs (ties in every pivot search), entries "
        "from {0,1,-1,2,1/2,-2,-1/2}, s*I, diagonal matrices (zeros on the diagonal allowed), the zero matrix, sign patterns flipped entry by entry -- x structured vectors and right-hand sides (zero, ones, "
        "alternating, a unit vector, first/last component only, special draws); (i) the same over f64 (-0.0 included) and Complex<f64> (entries on the four "
        "axes +-k, +-ki, unit modulus 0.6+0.8i, purely imaginary pivot candidates, equal moduli with different arguments); (j) floats at extreme power-of-two "
        "scales (f64 2^+-(100..800), Complex 2^+-(100..200); most cases need a row exchange and sit in the last quarter of the range; right-hand side moves with the matrix; mulv and solve judged, "
        "no det); (k) operators with special scalars (0, -0.0, 1, -1, 2, 1/2, +-i, 0.6+0.8i; B *= 0 included) and both operands the same object (&B + &B, &B - &B, "
        "owned forms compared); (l) every ordered pair of the 13 mutating operations (set, fill, fill_band, new, resize, +=/-= B borrowed and owned, *=, /=, += c, -= c) "
        "with mulv (Rat: also det and solve) before, the state after each, and getall/size/mulv/neg (Rat: also det and solve) after (quick: a seeded third of the 169 pairs; "
        "thorough: all; element type Rat/f64/Complex 4:1:1 and sizes drawn per pair). Float entries (get, getall, dumped state, operator results) are compared normwise, "
        "1e-11 * max|dense twin| (an entry that cancels to zero carries the rounding of its operands; bit-level agreement is the tie's demand); float det is judged to "
        "1e-9 * (product of the row norms) and counted as det-float-unjudged in the coverage when that product is >= 1e300 or the twin has a non-finite entry. "
        "distinct = distinct executor line; non-trivial = n >= 2")
TRUSTED = ["Coq 8.16.1 kernel + vm_compute", "Rust executor /verif/harness (Rat = i128 rationals; banded literals built through new/index_mut/resize)",
           "python driver: generators, dense-twin reference in Fraction / float, stream comparators",
           "hand-written Gallina model coq/Model/Banded.v (on coq/Model/Matrix.v) tied to src/banded.rs by differential execution (Rat vs Qc exact; f64/Complex vs primitive floats)"]
ASSUMPTIONS = ["Rust semantics of Vec/usize/isize as modelled (checked indexing, debug overflow checks)",
               "`B += c` / `B -= c` are read as acting on the stored in-band entries (a banded matrix cannot hold the others)",
               "resize, indices with row >= n and division by zero are outside the claim (tied to the model, not judged by the oracle)",
               "float backward error of solve is demanded (1e-11 normwise) only when cond_inf(D) <= 1e8; the theorems are about the model",
               "Complex<f64> data is drawn within 2^+-200: beyond 2^+-511 the unscaled complex modulus/division return NaN (the recorded cause "
               "cplx-sqmod-range of C01/C02/C15); not drawn, not suppressed"]
UNPROVED = ["band_det = \\det of the dense twin is proved over every mathcomp fieldType and at Qc (band_det_is_det, band_det_spec); for an arbitrary FieldLaws arithmetic (R, C) only the abstract-determinant form (Proofs/BandedDet2.v band_det_abs) is available",
            "backward error: proved in the standard rounding model for the same Gallina functions (band_lu_backward_error: LU = PB + dB; band_solve_single_backward_error: (B + dB) x = b with |dB| <= (3 gam_N + gam_N^2)|L||U|; without row exchanges the constants depend on the bandwidth only, gam(3(m1+m2+1))); NOT proved: the growth factor |L||U| / |B| (with pivoting a row can be updated n-1 times whatever m1 is), band_det accuracy, and anything at binary64 (tie + search)",
            "operand non-mutation / owned = borrowed forms are run-time observations of the executor"]

MANIFEST = dict(
    text=("[round two: band_det_is_det / band_det_spec (Banded::det = \\det of the dense twin, singular included), band_solve_spec (solve = D^-1 b or Panic DivZero iff \\det = 0), padding independence of det/solve/product for ANY arithmetic, band_wide_panics (m1 > n), band_mul_backward_error in the standard rounding model.] Theorems, for all n, m1, m2 and all entry values, about the Gallina model of src/banded.rs (compact n x (m1+m2+1) storage on the flat "
          "dense-matrix model, decompose statement by statement): the in-band test and slot map (range, injectivity, distinct offsets); element access = "
          "dense twin / refused outside the band; &B*&v = (dense twin).v and independent of every padding slot; every operator and compound assignment "
          "commutes with the dense twin; band_solve is sound over any field (whatever it returns solves the dense twin's system, also across matrices "
          "that differ in padding only), never leaves its buffers (it answers or refuses at a zero pivot of its own factorisation), and with the magnitude "
          "pivot rule answers on every nonsingular band (trivial kernel); the pre-repair signed rule is refuted by the committed witness. The model is run "
          "against the implementation on every (n,m1,m2) up to n=6 (10 thorough) x sign patterns x loud padding (Rat vs Qc exact, f64/Complex vs primitive "
          "floats, bit-compared), and a dense-twin reference in Fraction judges entries, arithmetic, product, determinant and the residual of solve. "
          "The search also draws structured classes: special values (0, -0.0, +-1, 2, 1/2, complex axes and unit modulus), constant / equal-magnitude / "
          "identity / zero matrices, structured vectors, extreme power-of-two scales, special scalars, same-object operands and every ordered pair of mutating operations."),
    note=("band_det is proved equal to the determinant of the dense twin over every mathcomp fieldType and at Qc; the backward error of the LU factors and of solve is proved in the standard rounding model (growth factor not bounded), float accuracy itself is searched (backward error 1e-11 on "
          "systems with cond <= 1e8). Hypothesis m1 <= n in the LU theorems (the property has m1 < n; wider bands are tied to the model only)."),
    technique="Coq proof over an abstract ring/field + model/implementation differential execution (vm_compute vs Rust executor) + dense-twin oracle",
    design="7 (C04)")

# ------------------------------------------------------------------ values
def rint(rng, lo, hi, nonzero=False):
    while True:
        x = rng.range(lo, hi)
        if x != 0 or not nonzero: return Fraction(x)

PAD_RAT = [Fraction(77), Fraction(-13), Fraction(1, 3), Fraction(1000), Fraction(-999), Fraction(5, 7), Fraction(-1), Fraction(42)]
PAD_F64 = [77.0, -13.0, 1e300, -1e300, 0.333, 1e-300, -2.5, 4096.0]
PAD_WILD = [float('nan'), float('inf'), float('-inf'), 1e308, -1e308]

PATTERNS = ["mixed", "neg-diag", "zero-diag", "tiny-sub", "all-neg", "pos-dominant", "singular"]

def entry(rng, pat, n, m1, m2, i, j, tiny):
    """in-band entry (i,j) of a sign pattern, as a Fraction"""
    d = j - i
    if pat == "mixed":
        k = rng.below(7)
        if k == 0: return Fraction(0)
        if k < 6: return rint(rng, -5, 5)
        return Fraction(rng.range(-7, 7), rng.range(2, 3))
    if pat == "neg-diag":
        return -rint(rng, 4, 9) if d == 0 else rint(rng, -2, 2)
    if pat == "zero-diag":
        if d == 0: return Fraction(0)
        if d == -1: return rint(rng, -4, 4, nonzero=True)
        return rint(rng, -3, 3)
    if pat == "tiny-sub":
        if d == 0: return -rint(rng, 1, 3)
        if d < 0: return tiny * rng.range(1, 3)
        return rint(rng, -2, 2)
    if pat == "all-neg":
        return -rint(rng, 1, 6)
    if pat == "pos-dominant":
        return rint(rng, 6, 9) if d == 0 else rint(rng, -1, 1)
    if pat == "singular":
        return rint(rng, -3, 3)
    raise ValueError(pat)

def gen_band(rng, pat, n, m1, m2, elt='rat', pads=None, want_nonsingular=True):
    """(n, m1, m2, vals) with every padding slot loud; values as Fractions (rat) or floats"""
    mm = m1 + m2 + 1
    tiny = Fraction(1, 64) if elt == 'rat' else Fraction(1, 10 ** 20)
    pads = pads or (PAD_RAT if elt == 'rat' else PAD_F64)
    best = None
    for attempt in range(12):
        vals = [None] * (n * mm)
        for i in range(n):
            for s in range(mm):
                j = i + s - m1
                if 0 <= j < n: vals[i * mm + s] = entry(rng, pat, n, m1, m2, i, j, tiny)
                else: vals[i * mm + s] = rng.choice(pads)
        if pat == "singular":
            # zero column or zero row (within the band), or an exactly repeated row pattern
            c = rng.below(n)
            for i in range(n):
                s = m1 + c - i
                if 0 <= s < mm:
                    if rng.chance(1, 2) or True: vals[i * mm + s] = Fraction(0)
            return (n, m1, m2, vals)
        best = (n, m1, m2, vals)
        if not want_nonsingular: break
        D = dense_of((n, m1, m2, [Fraction(x) if not isinstance(x, float) else Fraction(0) for x in vals]), Fraction(0))
        if det_exact([x for r in D for x in r], n) != 0: break
    return best

def to_elt(rng, B, elt, scale=1.0):
    n, m1, m2, vals = B
    if elt == 'rat': return B
    def cv(x):
        if isinstance(x, float): return x           # padding
        return float(x) * scale
    if elt == 'f64': return (n, m1, m2, [cv(x) for x in vals])
    out = []
    for x in vals:
        re = cv(x)
        im = float(rng.range(-4, 4)) * scale if rng.chance(1, 2) else 0.0
        if isinstance(x, float) and (x != x or abs(x) == math.inf): im = 0.0
        out.append(complex(re, im))
    return (n, m1, m2, out)

def sval(rng, elt):
    if elt == 'rat':
        k = rng.below(6)
        if k < 4: return rint(rng, -5, 5)
        return Fraction(rng.range(-7, 7), rng.range(2, 3))
    x = float(rng.range(-6, 6)) if rng.chance(2, 3) else rng.range(-64, 64) / 8.0
    if elt == 'f64': return x
    return complex(x, float(rng.range(-3, 3)))

def svec(rng, elt, n):
    return [sval(rng, elt) for _ in range(n)]

def nz(rng, elt):
    while True:
        x = sval(rng, elt)
        if x != 0: return x

def mk(elt, B, ops, family, nontrivial=None, tie_only=False, tol=1e-9):
    if nontrivial is None: nontrivial = B[0] >= 2
    meta = {"B": B, "ops": ops}
    if tie_only: meta["tie_only"] = True
    return Case(elt, bhist_line(elt, B, ops), bhist_term(elt, B, ops), meta=meta, family=family, nontrivial=nontrivial, tol=tol)

def triples(lo, hi):
    return [(n, m1, m2) for n in range(lo, hi + 1) for m1 in range(n) for m2 in range(n)]

LIN = lambda g, elt, n: [("getall",), ("size",), ("mulv", svec(g, elt, n)), ("det",), ("solve", svec(g, elt, n))]

def arith_ops(g, elt, n, m1, m2, short=False):
    C = lambda: to_elt(g, gen_band(g, "mixed", n, m1, m2, elt if elt == 'rat' else 'f64', want_nonsingular=False), elt)
    val = [("neg",), ("add", C()), ("sub", C()), ("scale", sval(g, elt)), ("div", nz(g, elt))]
    mut = [("add_assign", C()), ("sub_assign_own", C()), ("mul_assign_s", nz(g, elt)), ("add_assign_s", sval(g, elt)),
           ("div_assign_s", nz(g, elt)), ("sub_assign_s", sval(g, elt)), ("sub_assign", C()), ("add_assign_own", C())]
    if short:
        val = g.shuffle(val)[:2]; mut = g.shuffle(mut)[:3]
        return val + mut + [("dump",), ("mulv", svec(g, elt, n))] + ([("det",)] if elt == 'rat' else [])
    ops = list(val)
    for m in mut: ops += [m, ("dump",)]
    return ops + [("mulv", svec(g, elt, n)), ("getall",)] + ([("det",)] if elt == 'rat' else [])

# ------------------------------------------------------------------ special value classes (structured families)
# entries, scalars and vector components drawn from the classes a fast path, a sign test or a zero test can key on
SPECIAL = {
    'rat': [Fraction(0), Fraction(1), Fraction(-1), Fraction(2), Fraction(1, 2), Fraction(-2), Fraction(-1, 2)],
    'f64': [0.0, -0.0, 1.0, -1.0, 2.0, 0.5, -2.0, -0.5],
    'cplx': [0j, complex(-0.0, 0.0), complex(0.0, -0.0), 1 + 0j, -1 + 0j, 1j, -1j, 2 + 0j, 0.5j, -2j, complex(-0.5, 0.0),
             complex(0.6, 0.8), complex(-0.6, 0.8), complex(0.8, -0.6)],
}
UNITS = [1, -1, 1j, -1j]
SHAPES = ["const-pos", "const", "pm", "unit", "identity", "diagonal", "zero", "axes"]

def sp(rng, elt, nz=False):
    while True:
        x = rng.choice(SPECIAL[elt])
        if x != 0 or not nz: return x

def one_of(elt):
    return Fraction(1) if elt == 'rat' else (1.0 if elt == 'f64' else 1 + 0j)

def special_band(rng, shape, n, m1, m2, elt, pads=None):
    """(n, m1, m2, vals) of a structured class, every padding slot loud:
       const-pos  constant positive bands (the class every unit test of the crate uses)
       const      constant bands, one special value per band
       pm         every in-band entry has the same magnitude; signs (complex: one of the four axes) at random -- ties in every pivot search
       unit       every in-band entry drawn from SPECIAL (0, -0.0, 1, -1, 2, 1/2, ...; complex: axes and unit modulus)
       identity   s * I: zero off-diagonal bands
       diagonal   zero off-diagonal bands under a diagonal of special values (zeros at any position)
       zero       the zero matrix (singular; -0.0 among the zeros for floats)
       axes       a sign pattern of the linear-algebra families rotated entry by entry onto an axis (complex) / sign-flipped (real):
                  purely imaginary sub-diagonals under a zero diagonal, equal moduli with different arguments"""
    mm = m1 + m2 + 1
    pads = pads or (PAD_RAT if elt == 'rat' else PAD_F64)
    cv = (lambda x: Fraction(x)) if elt == 'rat' else ((lambda x: float(x)) if elt == 'f64' else (lambda x: complex(x)))
    if shape == "const-pos": per = [cv(rng.range(1, 4)) for _ in range(mm)]
    if shape == "const": per = [sp(rng, elt) for _ in range(mm)]
    mag = cv(rng.choice([1, 2, 3]))
    base = None
    if shape == "axes":
        base = gen_band(rng, rng.choice(["zero-diag", "neg-diag", "mixed", "tiny-sub"]), n, m1, m2, 'rat')[3]
    z = cv(0)
    vals = [None] * (n * mm)
    for i in range(n):
        for sl in range(mm):
            j = i + sl - m1
            if not (0 <= j < n):
                p_ = rng.choice(pads); vals[i * mm + sl] = p_ if elt != 'cplx' else complex(p_); continue
            if shape in ("const-pos", "const"): x = per[sl]
            elif shape == "pm": x = mag * (rng.choice(UNITS) if elt == 'cplx' else rng.choice([1, -1]))
            elif shape == "unit": x = sp(rng, elt)
            elif shape == "identity": x = z if j != i else None
            elif shape == "diagonal": x = z if j != i else sp(rng, elt)
            elif shape == "zero": x = z if (elt == 'rat' or rng.chance(2, 3)) else -z
            elif shape == "axes":
                b = base[i * mm + sl]
                x = cv(b) * (rng.choice(UNITS) if elt == 'cplx' else rng.choice([1, -1]))
            vals[i * mm + sl] = x
    if shape == "identity":
        f = sp(rng, elt)
        vals = [(f if v is None else v) for v in vals]
    return (n, m1, m2, vals)

def special_vec(rng, elt, n, k):
    """structured vectors: 0 zero, 1 all ones, 2 alternating signs, 3 a unit vector, 4 first and last component only, 5 special draws"""
    one = one_of(elt); z = one - one
    if k == 0: return [z] * n
    if k == 1: return [one] * n
    if k == 2: return [one if i % 2 == 0 else -one for i in range(n)]
    if k == 3:
        j = rng.below(n); return [one if i == j else z for i in range(n)]
    if k == 4: return [(sp(rng, elt, nz=True) if i in (0, n - 1) else z) for i in range(n)]
    return [sp(rng, elt) for _ in range(n)]

def special_lin(g, elt, B, full):
    """views of one structured matrix with structured vectors; det / solve of floats only where the dense twin is well conditioned"""
    n = B[0]
    ks = list(range(6)) if full else g.shuffle(range(6))[:3]
    ops = [("getall",)] if n <= 4 else []
    ops += [("mulv", special_vec(g, elt, n, k)) for k in ks]
    if elt == 'rat' or cond_inf(dense_of(B, zero_of(elt))) <= COND_LIMIT:
        ops += [("det",)] + [("solve", special_vec(g, elt, n, k)) for k in (ks if full else ks[:2])]
    return ops

def scale_band(B, elt, sc):
    """multiply the in-band entries by a power of two (exact); padding stays loud"""
    n, m1, m2, vals = B
    mm = m1 + m2 + 1
    out = list(vals)
    for i in range(n):
        for sl in range(mm):
            if 0 <= i + sl - m1 < n: out[i * mm + sl] = vals[i * mm + sl] * sc
    return (n, m1, m2, out)

MUTS = ["set", "fill", "fill_band", "new", "resize", "add_assign", "sub_assign", "add_assign_own", "sub_assign_own",
        "mul_assign_s", "div_assign_s", "add_assign_s", "sub_assign_s"]

def gen_mut(g, elt, dims, m):
    """one valid mutating operation of class m on a matrix of sizes dims; returns (op, new dims)"""
    n, m1, m2 = dims
    sv = lambda nz=False: (sp(g, elt, nz) if g.chance(1, 2) else (nz_(g, elt) if nz else sval(g, elt)))
    C = lambda: to_elt(g, gen_band(g, "mixed", n, m1, m2, elt if elt == 'rat' else 'f64', want_nonsingular=False), elt)
    if m == "set":
        i = g.below(n); j = g.range(max(0, i - m1), min(n - 1, i + m2)); return ("set", i, j, sv()), dims
    if m == "fill": return ("fill", sv()), dims
    if m == "fill_band": return ("fill_band", g.range(-m1, m2), sv()), dims
    if m in ("new", "resize"):
        nn = g.range(1, 4); a1 = g.below(nn); a2 = g.below(nn)
        return (("new", nn, a1, a2, sv()) if m == "new" else ("resize", nn, a1, a2)), (nn, a1, a2)
    if m in ("add_assign", "sub_assign", "add_assign_own", "sub_assign_own"): return (m, C()), dims
    if m in ("mul_assign_s", "add_assign_s", "sub_assign_s"): return (m, sv()), dims
    if m == "div_assign_s": return (m, sv(True)), dims
    raise ValueError(m)

def nz_(g, elt):
    return nz(g, elt)

def generate(rng, tier):
    cases = []
    thorough = tier == "thorough"
    T = triples(1, 10 if thorough else 6)
    if not thorough:
        big = triples(7, 10)
        T = T + rng.fork("sample").shuffle(big)[:36]
    # (a) linear algebra on every triple x every sign pattern, loud padding
    g = rng.fork("lin")
    for (n, m1, m2) in T:
        for pat in PATTERNS:
            B = gen_band(g, pat, n, m1, m2)
            cases.append(mk('rat', B, LIN(g, 'rat', n), "rat-lin-" + pat))
    # the secondary families run on every triple up to n = 6 (quick) / 7 (thorough) and on a seeded sample of the larger ones
    # (the model side spends its time printing: the exhaustive sweep over all 385 triples is family (a))
    T2 = T if not thorough else [t for t in T if t[0] <= 7] + rng.fork("sample2").shuffle([t for t in T if t[0] > 7])[:48]
    # (b) arithmetic
    g = rng.fork("arith")
    for (n, m1, m2) in T2:
        B = gen_band(g, "mixed", n, m1, m2, want_nonsingular=False)
        cases.append(mk('rat', B, arith_ops(g, 'rat', n, m1, m2, short=(n > 4)), "rat-arith"))
    # (c) floats: every triple in the thorough tier; quick: every triple up to n = 5 and a sample of the larger ones
    g = rng.fork("flt")
    TF = T2 if thorough else [t for t in T if t[0] <= 5] + g.shuffle([t for t in T if t[0] > 5])[:16]
    for (n, m1, m2) in TF:
        for elt in ('f64', 'cplx'):
            pats = ["tiny-sub", "neg-diag", "zero-diag", "mixed", "all-neg"]
            # one pattern per (triple, element type) in the quick tier, two in the thorough tier (printing 64-bit
            # patterns is what the model side spends its time on)
            chosen = g.shuffle(pats)[:(2 if (thorough and n <= 5) else 1)]
            for p in chosen:
                sc = 10.0 ** g.range(-6, 6) if g.chance(1, 3) else 1.0
                wild = g.chance(1, 4)
                B0 = gen_band(g, p, n, m1, m2, 'f64', pads=(PAD_WILD if wild else PAD_F64))
                B = to_elt(g, B0, elt, sc)
                b = [x * sc for x in svec(g, elt, n)]
                # determinant and solution of a (nearly) singular float system are rounding noise that depends on the
                # order of equal-magnitude pivots: they are neither tied nor judged (the exact tier covers singular input)
                ops = [("mulv", svec(g, elt, n))]
                if cond_inf(dense_of(B, zero_of(elt))) <= COND_LIMIT: ops += [("det",), ("solve", b)]
                if n <= 3: ops = [("getall",)] + ops
                cases.append(mk(elt, B, ops, "%s-lin-%s%s" % (elt, p, "-wildpad" if wild else "")))
        if n <= 4 or (thorough and g.chance(1, 3)):
            elt = 'f64' if g.chance(1, 2) else 'cplx'
            B = to_elt(g, gen_band(g, "mixed", n, m1, m2, 'f64', want_nonsingular=False), elt)
            cases.append(mk(elt, B, arith_ops(g, elt, n, m1, m2, short=True), elt + "-arith"))
    # (d) padding written through the API: new (fill value), fill_band (whole compact column), index_mut with column >= n, += constant
    g = rng.fork("pad")
    for (n, m1, m2) in T2:
        if not thorough and n > 6 and g.chance(1, 2): continue
        B = gen_band(g, "mixed", n, m1, m2)
        ops = [("new", n, m1, m2, g.choice(PAD_RAT))]
        for b in g.shuffle(range(-m1, m2 + 1)):
            ops.append(("fill_band", b, g.choice(PAD_RAT)))
        pat = g.choice(["mixed", "neg-diag", "zero-diag", "all-neg"])
        for i in range(n):
            for j in range(max(0, i - m1), i + m2 + 1):        # j may exceed n-1: padding written by index
                if j < n: ops.append(("set", i, j, entry(g, pat, n, m1, m2, i, j, Fraction(1, 64))))
                elif g.chance(1, 2): ops.append(("set", i, j, g.choice(PAD_RAT)))
        c = sval(g, 'rat')
        ops += [("add_assign_s", c), ("sub_assign_s", c), ("dump",), ("getall",), ("mulv", svec(g, 'rat', n)), ("det",), ("solve", svec(g, 'rat', n))]
        cases.append(mk('rat', B, ops, "rat-padding-through-api"))
    # (e) arguments that must be rejected
    g = rng.fork("bad")
    for (n, m1, m2) in triples(1, 4):
        B = gen_band(g, "mixed", n, m1, m2, want_nonsingular=False)
        ops = []
        for (dn, d1, d2) in [(1, 0, 0), (0, 1, 0), (0, 0, 1), (-1, 0, 0), (0, -1, 0), (0, 0, -1)]:
            nn, a1, a2 = n + dn, m1 + d1, m2 + d2
            if nn < 1 or a1 < 0 or a2 < 0: continue
            C = gen_band(g, "mixed", nn, a1, a2, want_nonsingular=False)
            ops.append((g.choice(["add", "sub", "add_assign", "sub_assign", "add_assign_own", "sub_assign_own"]), C))
        ops += [("dump",), ("mulv", svec(g, 'rat', n + 1)), ("mulv", svec(g, 'rat', n - 1)), ("solve", svec(g, 'rat', n + 1)), ("solve", svec(g, 'rat', n - 1)),
                ("fill_band", -m1 - 1, Fraction(1)), ("fill_band", m2 + 1, Fraction(1)), ("fill_band", -m1, Fraction(2)), ("fill_band", m2, Fraction(3))]
        for i in range(n + 1):
            for j in range(n + m2 + 2):
                if g.chance(1, 2): ops.append(("get", i, j))
                else: ops.append(("set", i, j, sval(g, 'rat')))
        ops += [("dump",), ("getall",)]
        cases.append(mk('rat', B, ops, "rejects", nontrivial=True))
    # (f) random histories
    g = rng.fork("hist")
    nh = 300 if thorough else 60
    for h in range(nh):
        elt = 'rat' if h % 3 != 2 else ('f64' if h % 6 == 2 else 'cplx')
        n = g.range(1, 6); m1 = g.below(n); m2 = g.below(n)
        B = to_elt(g, gen_band(g, g.choice(PATTERNS[:6]), n, m1, m2, 'rat' if elt == 'rat' else 'f64'), elt)
        ops = []
        for _ in range(g.range(4, 16)):
            k = g.below(16)
            if k == 0:
                n = g.range(1, 5); m1 = g.below(n); m2 = g.below(n); ops.append(("resize", n, m1, m2))
            elif k == 1:
                n = g.range(1, 5); m1 = g.below(n); m2 = g.below(n); ops.append(("new", n, m1, m2, sval(g, elt)))
            elif k == 2: ops.append(("fill", sval(g, elt)))
            elif k == 3: ops.append(("fill_band", g.range(-m1, m2), sval(g, elt)))
            elif k in (4, 5):
                i = g.below(n); j = g.range(max(0, i - m1), i + m2); ops.append(("set", i, j, sval(g, elt)))
            elif k == 6: ops.append(("getall",))
            elif k == 7: ops.append(("mulv", svec(g, elt, n)))
            elif k == 8 and elt == 'rat': ops.append(("det",))          # floats: see (c); histories reach singular states
            elif k == 9 and elt == 'rat': ops.append(("solve", svec(g, elt, n)))
            elif k == 10: ops.append((g.choice(["add_assign_s", "sub_assign_s"]), sval(g, elt)))
            elif k == 11: ops.append((g.choice(["mul_assign_s", "div_assign_s", "scale", "div"]), nz(g, elt)))
            elif k == 12: ops.append(("neg",))
            else:
                C = to_elt(g, gen_band(g, "mixed", n, m1, m2, 'rat' if elt == 'rat' else 'f64', want_nonsingular=False), elt)
                ops.append((g.choice(["add", "sub", "add_assign", "sub_assign", "add_assign_own", "sub_assign_own"]), C))
            if g.chance(1, 3): ops.append(("dump",))
        ops += [("dump",), ("getall",)]
        cases.append(mk(elt, B, ops, "history-" + elt, nontrivial=True))
    # (g) bandwidths >= n: outside the quantifier, tied to the model only
    g = rng.fork("wide")
    for (n, m1, m2) in [(1, 1, 0), (1, 0, 1), (1, 1, 1), (2, 2, 0), (2, 0, 2), (2, 3, 1), (3, 3, 3), (3, 1, 4), (2, 2, 2)]:
        B = gen_band(g, "mixed", n, m1, m2, want_nonsingular=False)
        cases.append(mk('rat', B, [("getall",), ("mulv", svec(g, 'rat', n)), ("det",), ("solve", svec(g, 'rat', n))], "wide-bands-tie-only", tie_only=True))
    # ---- structured families.  Quick: every triple up to n = 4 and a seeded rotation of the larger ones (every triple comes round with the
    # seed); thorough: every triple up to n = 6 and a sample of the larger ones
    g = rng.fork("special")
    small = triples(1, 4)
    TS = (triples(1, 6) + g.shuffle(triples(7, 10))[:30]) if thorough else (small + g.shuffle(triples(5, 10))[:14])
    # (h) structured matrices x structured vectors / right-hand sides, exact tier
    for (n, m1, m2) in TS:
        for shp in (SHAPES if thorough and n <= 4 else g.shuffle(SHAPES)[:2]):
            B = special_band(g, shp, n, m1, m2, 'rat')
            cases.append(mk('rat', B, special_lin(g, 'rat', B, thorough and n <= 4), "rat-special-" + shp))
    # (i) the same over f64 (with -0.0) and Complex<f64> (axes, unit modulus, purely imaginary pivots candidates, equal moduli)
    for (n, m1, m2) in TS:
        for elt in ('f64', 'cplx'):
            for shp in (SHAPES if thorough and n <= 3 else g.shuffle(SHAPES)[:(2 if elt == 'cplx' else 1)]):
                B = special_band(g, shp, n, m1, m2, elt, pads=(PAD_WILD if g.chance(1, 5) else PAD_F64))
                cases.append(mk(elt, B, special_lin(g, elt, B, False), "%s-special-%s" % (elt, shp)))
    # (j) floats at extreme power-of-two scales (in-band entries * 2^+-(100..800) for f64, 2^+-(100..200) for Complex -- the modulus of a
    # Complex squares its parts --; the right-hand side moves with the matrix): products and solutions stay inside the binary64 range;
    # conditioning and the backward-error bound are scale invariant
    for kk, (n, m1, m2) in enumerate(g.shuffle(TS)):
        for elt in ('f64', 'cplx'):
            if elt == 'cplx' and not thorough and kk >= 20: continue
            # most cases need a row exchange at once (zero diagonal over a non-zero sub-diagonal) and sit in the last quarter of the range
            pat = "zero-diag" if (g.chance(3, 4) and m1 >= 1 and m2 >= 1) else g.choice(["neg-diag", "tiny-sub", "mixed", "all-neg"])
            B0 = gen_band(g, pat, n, m1, m2, 'f64')
            if pat == "tiny-sub":          # 1e-20 sub-diagonals are for the unscaled families; here 2^-10
                B0 = gen_band(g, pat, n, m1, m2, 'rat'); B0 = (n, m1, m2, [float(x) if isinstance(x, Fraction) and abs(x) < 70 else g.choice(PAD_F64) for x in B0[3]])
            B = to_elt(g, B0, elt)
            top = 800 if elt == 'f64' else 200
            e = (g.range(100, top) if g.chance(1, 4) else g.range(top - top // 4, top)) * g.choice([1, -1])
            B = scale_band(B, elt, 2.0 ** e)
            ev, eb = g.range(-60, 60), e + g.range(-60, 60)          # the right-hand side moves with the matrix: solutions of order 2^+-60
            ops = [("mulv", [x * 2.0 ** ev for x in svec(g, elt, n)])]
            if cond_inf(dense_of(B, zero_of(elt))) <= COND_LIMIT:
                ops += [("solve", [x * 2.0 ** eb for x in svec(g, elt, n)]), ("solve", [x * 2.0 ** eb for x in special_vec(g, elt, n, g.below(6))])]
            cases.append(mk(elt, B, ops, "%s-scaled-extreme" % elt))
    # (k) operators with special scalars (0, -0.0, 1, -1, 2, 1/2; complex axes and unit modulus), both operands the same object
    for (n, m1, m2) in (TS if thorough else g.shuffle(TS)[:24]):
        elt = g.choice(['rat', 'rat', 'f64', 'cplx'])
        B = to_elt(g, gen_band(g, "mixed", n, m1, m2, 'rat' if elt == 'rat' else 'f64', want_nonsingular=False), elt)
        ops = [("add_self",), ("sub_self",)]
        for s_ in g.shuffle(SPECIAL[elt])[:4]:
            ops.append(("scale", s_))
            if s_ != 0: ops.append(("div", s_))
        for s_ in g.shuffle(SPECIAL[elt])[:5]:
            m = g.choice(["mul_assign_s", "add_assign_s", "sub_assign_s", "div_assign_s"])
            if m == "div_assign_s" and s_ == 0: m = "mul_assign_s"
            ops += [(m, s_), ("dump",)]
        ops += [("mulv", special_vec(g, elt, n, g.below(6))), ("getall",)] + ([("det",)] if elt == 'rat' else [])
        cases.append(mk(elt, B, ops, "special-scalars-" + elt))
    # (l) histories: every ordered pair of mutating operations; every view before, between (state) and after
    g = rng.fork("pairs")
    pairs = [(a, b) for a in MUTS for b in MUTS]
    for k, (ma, mb) in enumerate(g.shuffle(pairs) if thorough else g.shuffle(pairs)[:len(pairs) // 3]):
        elt = ['rat', 'rat', 'f64', 'rat', 'cplx', 'rat'][k % 6]
        n = g.range(1, 4); m1 = g.below(n); m2 = g.below(n)
        B = to_elt(g, gen_band(g, g.choice(PATTERNS[:6]), n, m1, m2, 'rat' if elt == 'rat' else 'f64'), elt)
        lin = lambda nn: ([("det",), ("solve", svec(g, elt, nn))] if elt == 'rat' else []) + [("mulv", svec(g, elt, nn))]
        ops = lin(n)
        o, dims = gen_mut(g, elt, (n, m1, m2), ma); ops += [o, ("dump",)]
        o, dims = gen_mut(g, elt, dims, mb); ops += [o, ("dump",), ("getall",), ("size",)] + lin(dims[0]) + [("neg",)]
        cases.append(mk(elt, B, ops, "op-pairs-" + elt, nontrivial=True))
    # the model side is evaluated in consecutive shards: interleave the families so that the shards cost about the same
    return rng.fork("order").shuffle(cases)

# ------------------------------------------------------------------ corpus / replay
def _scalar_from_json(elt, x):
    if elt == 'rat': return Fraction(x)
    if elt == 'f64': return float(x)
    if isinstance(x, (list, tuple)): return complex(float(x[0]), float(x[1]))
    if isinstance(x, str): return complex(x)
    return complex(x)

def _band_from_json(elt, b):
    return (b[0], b[1], b[2], [_scalar_from_json(elt, x) for x in b[3]])

def case_from_json(j):
    elt = j["elt"]; m = j["meta"]
    B = _band_from_json(elt, m["B"])
    ops = []
    for o in m["ops"]:
        out = [o[0]]
        for k, a in zip(BOPS[o[0]][1], o[1:]):
            if k == 's': out.append(_scalar_from_json(elt, a))
            elif k == 'v': out.append([_scalar_from_json(elt, x) for x in a])
            elif k == 'b': out.append(_band_from_json(elt, a))
            else: out.append(a)
        ops.append(tuple(out))
    return mk(elt, B, ops, "corpus", nontrivial=True, tie_only=bool(m.get("tie_only")))

STATS = {}

def oracle(case, items):
    m = case.meta
    if m.get("tie_only"):
        return None
    return walk(case.elt, m["B"], m["ops"], items, STATS)

def extra_coverage():
    d = {"det-float": 0, DET_UNJUDGED_RANGE: 0, DET_UNJUDGED_NONFINITE: 0}
    d.update(STATS)
    return {"oracle_judgements": d}
