# driver/mkmanifest.py -- regenerate /verif/MANIFEST.json from the table below.
import json, os, subprocess
VERIF = os.path.dirname(os.path.dirname(os.path.abspath(__file__)))

LEVEL_NOTE = ("Trusted: Coq 8.16.1 kernel and vm_compute (no native_compute, no extraction); the axioms printed by Print Assumptions "
              "(none for list/ring theorems; the four standard-library real-number/classical axioms for theorems over R); the hand-written "
              "Gallina model, tied to /repo's working tree on every run by differential execution (Rust executor vs vm_compute of the same "
              "Gallina functions) and, where a model_is_source theorem is pinned, by source translators whose output is proved equal to it; "
              "the translators (regular-expression / recursive-descent programs over a fixed Rust subset); the executor, its Rat type and the python driver. ")

import sys, importlib
sys.path.insert(0, os.path.dirname(os.path.abspath(__file__)))

def collect():
    """every driver/cNN.py that defines MANIFEST = dict(text=, note=, technique=, design=) is a claimed check"""
    out = {}
    for fn in sorted(os.listdir(os.path.dirname(os.path.abspath(__file__)))):
        if len(fn) == 6 and fn.startswith("c") and fn.endswith(".py") and fn[1:3].isdigit():
            mod = importlib.import_module(fn[:-3])
            if hasattr(mod, "MANIFEST"):
                out[mod.PID] = mod.MANIFEST
    return out

CHECKS = collect()

NOT_YET = {}

def main():
    props = [json.loads(l) for l in open(os.path.join(VERIF, "properties.jsonl"))]
    checks, na = [], []
    for p in props:
        pid = p["id"]
        if pid in CHECKS:
            c = dict(CHECKS[pid])
            try:
                props = open(os.path.join(VERIF, "coq", "Props", pid + ".v")).read()
            except OSError:
                props = ""
            import re as _re
            allthm = _re.findall(r"^Theorem\s+([A-Za-z0-9_']+)", props, _re.M)
            if allthm:
                c["text"] += " All %d theorems pinned in coq/Props/%s.v on this commit: %s." % (len(allthm), pid, ", ".join(allthm))
            mis = _re.findall(r"^Theorem\s+(model_is_source[A-Za-z0-9_]*)", props, _re.M)
            if mis and "model_is_source" not in c["text"]:
                c["text"] += (" Tie by proof: the functions of the anchored source files are REGENERATED from /repo/src on every run by a source "
                              "translator (driver/translate.py, driver/rust2coq.py -> coq/gen/*.v) and proved equal, for all arguments, to the hand-written "
                              "model the theorems are about (%s): a change of a loop bound, index, operator, guard or statement order in the source breaks "
                              "that proof obligation." % ", ".join(mis))
                c["technique"] += " + source-to-Gallina translation re-proved equal to the model on every run"
            checks.append({
                "property_id": pid,
                "quick_cmd": "./check %s --tier quick" % pid,
                "thorough_cmd": "./check %s --tier thorough" % pid,
                "evidence_file": "/verif/evidence/%s.json" % pid,
                "replay_cmd_template": "./check %s --replay {path}" % pid,
                "engine": "coq-proof+correspondence",
                "level_claimed": {"category": "proof", "text": c["text"], "design_ref": "DESIGN.md section " + c["design"]},
                "level_note": LEVEL_NOTE + c["note"],
                "technique": c["technique"],
            })
        else:
            na.append({"property_id": pid, "reason": NOT_YET.get(pid, "check not built yet in this snapshot (work in progress; see DESIGN.md section 7 for the plan)")})
    try:
        commits = subprocess.run("git -C /repo log --format=%h --grep='^hook:' ", shell=True, stdout=subprocess.PIPE, text=True).stdout.split()
    except Exception:
        commits = []
    man = {
        "version": 1,
        "setup_cmd": "./setup.sh",
        "hooks": {"guard": "cfg(ohsl_verif)", "enable": "RUSTFLAGS=\"--cfg ohsl_verif\" cargo build --offline  (set by driver/common.py for the executor build)",
                  "baseline_off_cmd": "cd /repo && cargo test --workspace --no-fail-fast --offline",
                  "source_commits": commits, "add_only": True},
        "engines": [{"name": "coq-proof+correspondence", "path": "/verif/coq, /verif/harness, /verif/driver",
                     "serves_properties": sorted(CHECKS.keys()),
                     "kind_free_text": "machine-checked proof in Coq 8.16 about an executable Gallina model; model tied to the code on every run by differential execution (Rust executor vs vm_compute) and by source translators that regenerate parts of the model from /repo/src with proofs that the hand-written model equals them; python oracle searches for failing inputs"}],
        "checks": checks,
        "not_applicable": na,
        "notes": "See DESIGN.md. KNOWN_FINDINGS.txt lists repaired (fixed:) and recorded (open:) defects.",
    }
    with open(os.path.join(VERIF, "MANIFEST.json"), "w") as f:
        json.dump(man, f, indent=1)
    print("MANIFEST.json: %d checks, %d not claimed" % (len(checks), len(na)))

if __name__ == "__main__":
    main()
