(*IMPORTS: Proofs.MatrixRefine Legacy.C03Refuted*)
(* ---------- histories: the flat model refines the list-of-rows specification (Proofs/MatrixRefine.v) ----------
   [smat] = list of rows + declared column count; [sstep] gives every editing operation by its textbook entry
   formula over rows and its documented range/shape condition; [absM] reads the rows out of the flat buffer.
   Covered operations: set_row set_col delete_row resize transpose_in_place swap_rows fill fill_diag fill_band
   fill_tridiag fill_row fill_col clear, += -= (matrix), *= += -= (scalar).  Not covered (and why): the raw
   (i,j) writes OSet/OSwapElem (unchecked addressing, outside the claim) and /= scalar (its own theorem). *)
Theorem step_refines : forall (A : Arith) (m : matrix A) (o : @eop A), wf m -> eop_wf o ->
  match mstep m (to_mop o), sstep (absM m) o with
  | Ok (m', _), Ok X' => wf m' /\ absM m' = X'
  | Panic k, Panic k' => k = k'
  | _, _ => False
  end.
Proof. exact (@MatrixRefine.step_refines). Qed.
Check step_refines : forall (A : Arith) (m : matrix A) (o : @eop A), wf m -> eop_wf o ->
  match mstep m (to_mop o), sstep (absM m) o with
  | Ok (m', _), Ok X' => wf m' /\ absM m' = X'
  | Panic k, Panic k' => k = k'
  | _, _ => False
  end.
Print Assumptions step_refines.

(* history semantics of the correspondence check: a panicking operation leaves the matrix as it was *)
Theorem run_refines : forall (A : Arith) (ops : list (@eop A)) (m : matrix A),
  wf m -> Forall eop_wf ops ->
  wf (mrun_state m (map to_mop ops)) /\ absM (mrun_state m (map to_mop ops)) = srun (absM m) ops.
Proof. exact (@run_refines_lemma). Qed.
Check run_refines : forall (A : Arith) (ops : list (@eop A)) (m : matrix A),
  wf m -> Forall eop_wf ops ->
  wf (mrun_state m (map to_mop ops)) /\ absM (mrun_state m (map to_mop ops)) = srun (absM m) ops.
Print Assumptions run_refines.

(* stop-at-first-panic semantics: Ok exactly when the specification is, same panic kind otherwise *)
Theorem run_refines_res : forall (A : Arith) (ops : list (@eop A)) (m : matrix A),
  wf m -> Forall eop_wf ops ->
  match mrun_res m ops, srun_res (absM m) ops with
  | Ok m', Ok X' => wf m' /\ absM m' = X'
  | Panic k, Panic k' => k = k'
  | _, _ => False
  end.
Proof. exact (@run_refines_res_lemma). Qed.
Check run_refines_res : forall (A : Arith) (ops : list (@eop A)) (m : matrix A),
  wf m -> Forall eop_wf ops ->
  match mrun_res m ops, srun_res (absM m) ops with
  | Ok m', Ok X' => wf m' /\ absM m' = X'
  | Panic k, Panic k' => k = k'
  | _, _ => False
  end.
Print Assumptions run_refines_res.

(* non-vacuity: a history on a 2x3 matrix that changes the shape twice, hits one guard (set_col 2 after the
   transpose made the matrix 3x2 -- column 2 no longer exists) and uses a matrix operand *)
Definition ex_hist : list (@eop AQ) :=
  [ESetCol (A:=AQ) 2 [q 7 1; q 8 1]; ETransposeInPlace; ESetCol (A:=AQ) 2 [q 1 1; q 1 1; q 1 1]; EDeleteRow 1;
   EAddAssign (mkM (A:=AQ) [q 1 2; q 1 3; q 1 4; q 1 5] 2 2); EResize 3 4; EFillBand (A:=AQ) (-1)%Z (q 5 1)].
Example run_refines_nonvacuous :
  wf (mkM (A:=AQ) [q 1 1; q 2 1; q 3 1; q 4 1; q 5 1; q 6 1] 2 3) /\ Forall eop_wf ex_hist /\
  srows (srun (absM (mkM (A:=AQ) [q 1 1; q 2 1; q 3 1; q 4 1; q 5 1; q 6 1] 2 3)) ex_hist) =
    [[q 3 2; q 13 3; q 0 1; q 0 1]; [q 5 1; q 41 5; q 0 1; q 0 1]; [q 0 1; q 5 1; q 0 1; q 0 1]].
Proof.
  split; [reflexivity|]. split.
  - repeat constructor.
  - vm_compute. reflexivity.
Qed.

(* ---------- the pre-repair variants are refuted (Legacy/C03Refuted.v) ---------- *)
Theorem mat_mul_legacy_refuted :
  exists a b : matrix AQ, wf a /\ wf b /\ cols a = rows b /\
    mat_mul_legacy a b = Panic Guard /\ is_ok (mat_mul a b) = true.
Proof. exact C03Refuted.mat_mul_legacy_refuted. Qed.
Check mat_mul_legacy_refuted :
  exists a b : matrix AQ, wf a /\ wf b /\ cols a = rows b /\
    mat_mul_legacy a b = Panic Guard /\ is_ok (mat_mul a b) = true.
Print Assumptions mat_mul_legacy_refuted.

Theorem set_col_legacy_writes_neighbour :
  exists (m : matrix AQ) (v : list AQ), wf m /\ rows m = 4 /\ cols m = 2 /\ length v = rows m /\
    set_col_legacy m 2 v = Panic Index /\
    set_col m 2 v = Panic Guard /\
    exists m1, for_ 0 1 (fun i s => let* x := rd v i in mset s i 2 x) m = Ok m1 /\
               Qc_eqb (entry m1 1 0) (nth 0 v zero) = true /\ Qc_eqb (entry m1 1 0) (entry m 1 0) = false.
Proof. exact C03Refuted.set_col_legacy_writes_neighbour. Qed.
Check set_col_legacy_writes_neighbour :
  exists (m : matrix AQ) (v : list AQ), wf m /\ rows m = 4 /\ cols m = 2 /\ length v = rows m /\
    set_col_legacy m 2 v = Panic Index /\
    set_col m 2 v = Panic Guard /\
    exists m1, for_ 0 1 (fun i s => let* x := rd v i in mset s i 2 x) m = Ok m1 /\
               Qc_eqb (entry m1 1 0) (nth 0 v zero) = true /\ Qc_eqb (entry m1 1 0) (entry m 1 0) = false.
Print Assumptions set_col_legacy_writes_neighbour.
