(*IMPORTS: Model.MatNorms Proofs.MatrixExt Proofs.MatrixRefine Proofs.MatrixRefineRead Proofs.MatNorms Proofs.MatNormsR Legacy.C03Refuted*)
(* ---------- histories: the flat model refines the list-of-rows specification (Proofs/MatrixRefine.v) ----------
   [smat] = list of rows + declared column count; [sstep] gives every editing operation by its textbook entry
   formula over rows and its documented range/shape condition; [absM] reads the rows out of the flat buffer.
   Covered operations: set_row set_col delete_row resize transpose_in_place swap_rows fill fill_diag fill_band
   fill_tridiag fill_row fill_col clear, += -= (matrix), *= += -= (scalar).  Not covered (and why): the raw
   (i,j) writes OSet/OSwapElem (unchecked addressing, outside the claim) and /= scalar (its own theorem). *)
Theorem step_refines : forall (A : Arith) (m : matrix A) (o : @eop A), wf m -> eop_wf o ->
  match mstep m (to_mop o), sstep (absM m) o with
  | Ok (m', _), Ok X' => wf m' /\ absM m' = X'
  | Panic k, Panic k' => k = k'
  | _, _ => False
  end.
Proof. exact (@MatrixRefine.step_refines). Qed.
Check step_refines : forall (A : Arith) (m : matrix A) (o : @eop A), wf m -> eop_wf o ->
  match mstep m (to_mop o), sstep (absM m) o with
  | Ok (m', _), Ok X' => wf m' /\ absM m' = X'
  | Panic k, Panic k' => k = k'
  | _, _ => False
  end.
Print Assumptions step_refines.
Example step_refines_nonvacuous :   (* a success and a refusal: set_col 2 exists on the 2x3 matrix, set_col 3 does not *)
  wf (mkM (A:=AQ) [q 1 1; q 2 1; q 3 1; q 4 1; q 5 1; q 6 1] 2 3) /\ eop_wf (ESetCol (A:=AQ) 2 [q 7 1; q 8 1]) /\
  is_ok (sstep (absM (mkM (A:=AQ) [q 1 1; q 2 1; q 3 1; q 4 1; q 5 1; q 6 1] 2 3)) (ESetCol (A:=AQ) 2 [q 7 1; q 8 1])) = true /\
  is_ok (sstep (absM (mkM (A:=AQ) [q 1 1; q 2 1; q 3 1; q 4 1; q 5 1; q 6 1] 2 3)) (ESetCol (A:=AQ) 3 [q 7 1; q 8 1])) = false.
Proof. repeat split; vm_compute; reflexivity. Qed.

(* history semantics of the correspondence check: a panicking operation leaves the matrix as it was *)
Theorem run_refines : forall (A : Arith) (ops : list (@eop A)) (m : matrix A),
  wf m -> Forall eop_wf ops ->
  wf (mrun_state m (map to_mop ops)) /\ absM (mrun_state m (map to_mop ops)) = srun (absM m) ops.
Proof. exact (@run_refines_lemma). Qed.
Check run_refines : forall (A : Arith) (ops : list (@eop A)) (m : matrix A),
  wf m -> Forall eop_wf ops ->
  wf (mrun_state m (map to_mop ops)) /\ absM (mrun_state m (map to_mop ops)) = srun (absM m) ops.
Print Assumptions run_refines.

(* stop-at-first-panic semantics: Ok exactly when the specification is, same panic kind otherwise *)
Theorem run_refines_res : forall (A : Arith) (ops : list (@eop A)) (m : matrix A),
  wf m -> Forall eop_wf ops ->
  match mrun_res m ops, srun_res (absM m) ops with
  | Ok m', Ok X' => wf m' /\ absM m' = X'
  | Panic k, Panic k' => k = k'
  | _, _ => False
  end.
Proof. exact (@run_refines_res_lemma). Qed.
Check run_refines_res : forall (A : Arith) (ops : list (@eop A)) (m : matrix A),
  wf m -> Forall eop_wf ops ->
  match mrun_res m ops, srun_res (absM m) ops with
  | Ok m', Ok X' => wf m' /\ absM m' = X'
  | Panic k, Panic k' => k = k'
  | _, _ => False
  end.
Print Assumptions run_refines_res.

(* non-vacuity: a history on a 2x3 matrix that changes the shape twice, hits one guard (set_col 2 after the
   transpose made the matrix 3x2 -- column 2 no longer exists) and uses a matrix operand *)
Definition ex_hist : list (@eop AQ) :=
  [ESetCol (A:=AQ) 2 [q 7 1; q 8 1]; ETransposeInPlace; ESetCol (A:=AQ) 2 [q 1 1; q 1 1; q 1 1]; EDeleteRow 1;
   EAddAssign (mkM (A:=AQ) [q 1 2; q 1 3; q 1 4; q 1 5] 2 2); EResize 3 4; EFillBand (A:=AQ) (-1)%Z (q 5 1)].
Example run_refines_nonvacuous :
  wf (mkM (A:=AQ) [q 1 1; q 2 1; q 3 1; q 4 1; q 5 1; q 6 1] 2 3) /\ Forall eop_wf ex_hist /\
  srows (srun (absM (mkM (A:=AQ) [q 1 1; q 2 1; q 3 1; q 4 1; q 5 1; q 6 1] 2 3)) ex_hist) =
    [[q 3 2; q 13 3; q 0 1; q 0 1]; [q 5 1; q 41 5; q 0 1; q 0 1]; [q 0 1; q 5 1; q 0 1; q 0 1]].
Proof.
  split; [reflexivity|]. split.
  - repeat constructor.
  - vm_compute. reflexivity.
Qed.

(* the value-returning operations against the same specification: same value (rows / tables by their textbook
   formulas), matrix unchanged, same panic *)
Theorem read_refines : forall (A : Arith) (m : matrix A) (o : @rop A), wf m -> rop_wf o ->
  match mstep m (rop_mop o), sread (absM m) o with
  | Ok (m', v), Ok w => m' = m /\ abs_val v = w
  | Panic k, Panic k' => k = k'
  | _, _ => False
  end.
Proof. exact (@MatrixRefineRead.read_refines). Qed.
Check read_refines : forall (A : Arith) (m : matrix A) (o : @rop A), wf m -> rop_wf o ->
  match mstep m (rop_mop o), sread (absM m) o with
  | Ok (m', v), Ok w => m' = m /\ abs_val v = w
  | Panic k, Panic k' => k = k'
  | _, _ => False
  end.
Print Assumptions read_refines.
Example read_refines_nonvacuous :
  wf (mkM (A:=AQ) [q 1 1; q 2 1; q 3 1; q 4 1; q 5 1; q 6 1] 2 3) /\ rop_wf (RMul (mkM (A:=AQ) (repeat (q 1 2) 15) 3 5)) /\
  is_ok (sread (absM (mkM (A:=AQ) [q 1 1; q 2 1; q 3 1; q 4 1; q 5 1; q 6 1] 2 3)) (RMul (mkM (A:=AQ) (repeat (q 1 2) 15) 3 5))) = true.
Proof. repeat split; vm_compute; reflexivity. Qed.

(* every finite history interleaving the 18 editing and the 12 reading operations (a panicking operation is
   skipped): final states correspond and the observed values / panics are the same list on both sides *)
Theorem hist_refines : forall (A : Arith) (ops : list (@hop A)) (m : matrix A), wf m -> Forall hop_wf ops ->
  wf (fst (mhist m ops)) /\
  absM (fst (mhist m ops)) = fst (shist (absM m) ops) /\
  snd (mhist m ops) = snd (shist (absM m) ops).
Proof. exact (@hist_refines_lemma). Qed.
Check hist_refines : forall (A : Arith) (ops : list (@hop A)) (m : matrix A), wf m -> Forall hop_wf ops ->
  wf (fst (mhist m ops)) /\
  absM (fst (mhist m ops)) = fst (shist (absM m) ops) /\
  snd (mhist m ops) = snd (shist (absM m) ops).
Print Assumptions hist_refines.
Example hist_refines_nonvacuous :
  wf (mkM (A:=AQ) [q 1 1; q 2 1; q 3 1; q 4 1; q 5 1; q 6 1] 2 3) /\
  Forall hop_wf [inr (RMul (mkM (A:=AQ) (repeat (q 1 2) 15) 3 5)); inl (ETransposeInPlace (A:=AQ)); inr (RGetCol (A:=AQ) 1); inr (RGetCol (A:=AQ) 2)].
Proof. split; [reflexivity|]. repeat constructor. Qed.

(* ---------- consequences: a well-formed matrix is its shape and entries (so the derived PartialEq on the raw
   buffers is equality of shape and entries); transposing twice is the identity on every shape; M * I = M ---------- *)
Theorem matrix_ext : forall (A : Arith) (a b : matrix A), wf a -> wf b -> rows a = rows b -> cols a = cols b ->
  (forall i j, i < rows a -> j < cols a -> entry a i j = entry b i j) -> a = b.
Proof. exact (@wf_ext). Qed.
Check matrix_ext : forall (A : Arith) (a b : matrix A), wf a -> wf b -> rows a = rows b -> cols a = cols b ->
  (forall i j, i < rows a -> j < cols a -> entry a i j = entry b i j) -> a = b.
Print Assumptions matrix_ext.
Example matrix_ext_nonvacuous :   (* two well-formed matrices of the same shape *)
  wf (mkM (A:=AQ) [q 1 1; q 2 1; q 3 1; q 4 1; q 5 1; q 6 1] 3 2) /\ wf (mkM (A:=AQ) (repeat (q 1 2) 6) 3 2).
Proof. split; reflexivity. Qed.

Theorem transpose_involutive : forall (A : Arith) (m : matrix A), wf m ->
  exists t, transpose_in_place m = Ok t /\ transpose_in_place t = Ok m.
Proof. exact (@MatrixExt.transpose_involutive). Qed.
Check transpose_involutive : forall (A : Arith) (m : matrix A), wf m ->
  exists t, transpose_in_place m = Ok t /\ transpose_in_place t = Ok m.
Print Assumptions transpose_involutive.
Example transpose_involutive_nonvacuous :
  wf (mkM (A:=AQ) [q 1 1; q 2 1; q 3 1; q 4 1; q 5 1; q 6 1] 2 3) /\ wf (mkM (A:=AQ) [q 1 1; q 2 1; q 3 1; q 4 1] 2 2).
Proof. split; reflexivity. Qed.

Theorem mat_mul_eye_r : forall (A : Arith), RingLaws A -> forall m : matrix A, wf m ->
  exists e, eye (cols m) = Ok e /\ mat_mul m e = Ok m.
Proof. exact (@MatrixExt.mat_mul_eye_r). Qed.
Check mat_mul_eye_r : forall (A : Arith), RingLaws A -> forall m : matrix A, wf m ->
  exists e, eye (cols m) = Ok e /\ mat_mul m e = Ok m.
Print Assumptions mat_mul_eye_r.
Example mat_mul_eye_r_nonvacuous : RingLaws AQ /\ wf (mkM (A:=AQ) [q 1 1; q 2 1; q 3 1; q 4 1; q 5 1; q 6 1] 2 3).
Proof. split; [|reflexivity]. constructor. exact (F_R AQ_field). Qed.

(* algebra over a commutative ring, through the code's own products / sums / transposes, for every conformable shape *)
Theorem mat_mul_assoc : forall (A : Arith), RingLaws A -> forall a b c : matrix A,
  wf a -> wf b -> wf c -> cols a = rows b -> cols b = rows c ->
  exists ab bc p, mat_mul a b = Ok ab /\ mat_mul b c = Ok bc /\ mat_mul ab c = Ok p /\ mat_mul a bc = Ok p.
Proof. exact (@MatrixExt.mat_mul_assoc). Qed.
Check mat_mul_assoc : forall (A : Arith), RingLaws A -> forall a b c : matrix A,
  wf a -> wf b -> wf c -> cols a = rows b -> cols b = rows c ->
  exists ab bc p, mat_mul a b = Ok ab /\ mat_mul b c = Ok bc /\ mat_mul ab c = Ok p /\ mat_mul a bc = Ok p.
Print Assumptions mat_mul_assoc.

Theorem mat_mul_transpose : forall (A : Arith), RingLaws A -> forall a b : matrix A,
  wf a -> wf b -> cols a = rows b ->
  exists p ta tb tp, mat_mul a b = Ok p /\ transpose a = Ok ta /\ transpose b = Ok tb /\
                     transpose p = Ok tp /\ mat_mul tb ta = Ok tp.
Proof. exact (@MatrixExt.mat_mul_transpose). Qed.
Check mat_mul_transpose : forall (A : Arith), RingLaws A -> forall a b : matrix A,
  wf a -> wf b -> cols a = rows b ->
  exists p ta tb tp, mat_mul a b = Ok p /\ transpose a = Ok ta /\ transpose b = Ok tb /\
                     transpose p = Ok tp /\ mat_mul tb ta = Ok tp.
Print Assumptions mat_mul_transpose.

Theorem mat_mul_add_distr_l : forall (A : Arith), RingLaws A -> forall a b c : matrix A,
  wf a -> wf b -> wf c -> cols a = rows b -> rows b = rows c -> cols b = cols c ->
  exists s ab ac p, madd b c = Ok s /\ mat_mul a b = Ok ab /\ mat_mul a c = Ok ac /\
                    mat_mul a s = Ok p /\ madd ab ac = Ok p.
Proof. exact (@MatrixExt.mat_mul_add_distr_l). Qed.
Check mat_mul_add_distr_l : forall (A : Arith), RingLaws A -> forall a b c : matrix A,
  wf a -> wf b -> wf c -> cols a = rows b -> rows b = rows c -> cols b = cols c ->
  exists s ab ac p, madd b c = Ok s /\ mat_mul a b = Ok ab /\ mat_mul a c = Ok ac /\
                    mat_mul a s = Ok p /\ madd ab ac = Ok p.
Print Assumptions mat_mul_add_distr_l.
Example mat_mul_transpose_distr_nonvacuous :
  RingLaws AQ /\ wf (mkM (A:=AQ) (repeat (q 1 2) 6) 2 3) /\ wf (mkM (A:=AQ) (repeat (q 2 3) 15) 3 5) /\
  wf (mkM (A:=AQ) (repeat (q (-1) 4) 15) 3 5).
Proof. split; [constructor; exact (F_R AQ_field)|]. repeat split. Qed.
Example mat_mul_assoc_nonvacuous :
  RingLaws AQ /\ wf (mkM (A:=AQ) (repeat (q 1 2) 6) 2 3) /\ wf (mkM (A:=AQ) (repeat (q 2 3) 15) 3 5) /\
  wf (mkM (A:=AQ) (repeat (q 3 1) 5) 5 1).
Proof. split; [constructor; exact (F_R AQ_field)|]. repeat split. Qed.

(* ---------- norms (functions.rs) = their textbook definitions ----------
   over any arithmetic whose comparison satisfies the two order laws [OrdLaws] (irreflexive; a < b and c <= a
   give c <= b): "N bounds every member and is 0 or a member" = N is the maximum of 0 and the family.
   [colsum m j] = Sum_i |a_ij|, [rowsum m i] = Sum_j |a_ij| (the code's own left folds).  norm_p: the two libm
   calls are parameters; the sum runs over the buffer in row-major order. *)
Theorem norms_spec : forall (S : SArith), OrdLaws (SA S) -> forall m : matrix (SA S), wf m ->
  (exists R, mnorm_1 m = Ok R /\ (forall j, j < cols m -> ltb R (colsum m j) = false) /\
             (R = zero \/ exists j, j < cols m /\ R = colsum m j)) /\
  (exists R, mnorm_inf m = Ok R /\ (forall i, i < rows m -> ltb R (rowsum m i) = false) /\
             (R = zero \/ exists i, i < rows m /\ R = rowsum m i)) /\
  (exists R, mnorm_max m = Ok R /\
             (forall i j, i < rows m -> j < cols m -> ltb R (abs (entry m i j)) = false) /\
             (R = zero \/ exists i j, i < rows m /\ j < cols m /\ R = abs (entry m i j))) /\
  (forall pw root : SA S -> SA S,
     mnorm_p pw root m = Ok (root (sum_n (length (buf m)) (fun k => pw (abs (nth k (buf m) zero)))))) /\
  mnorm_frob m =
    Ok (sqrt (sum_n (length (buf m)) (fun k => mul (abs (nth k (buf m) zero)) (abs (nth k (buf m) zero))))).
Proof. exact (@norms_spec_lemma). Qed.
Check norms_spec : forall (S : SArith), OrdLaws (SA S) -> forall m : matrix (SA S), wf m ->
  (exists R, mnorm_1 m = Ok R /\ (forall j, j < cols m -> ltb R (colsum m j) = false) /\
             (R = zero \/ exists j, j < cols m /\ R = colsum m j)) /\
  (exists R, mnorm_inf m = Ok R /\ (forall i, i < rows m -> ltb R (rowsum m i) = false) /\
             (R = zero \/ exists i, i < rows m /\ R = rowsum m i)) /\
  (exists R, mnorm_max m = Ok R /\
             (forall i j, i < rows m -> j < cols m -> ltb R (abs (entry m i j)) = false) /\
             (R = zero \/ exists i j, i < rows m /\ j < cols m /\ R = abs (entry m i j))) /\
  (forall pw root : SA S -> SA S,
     mnorm_p pw root m = Ok (root (sum_n (length (buf m)) (fun k => pw (abs (nth k (buf m) zero)))))) /\
  mnorm_frob m =
    Ok (sqrt (sum_n (length (buf m)) (fun k => mul (abs (nth k (buf m) zero)) (abs (nth k (buf m) zero))))).
Print Assumptions norms_spec.
Example norms_spec_nonvacuous :
  OrdLaws (SA SAR) /\ wf (mkM (A:=AR) [1%R; (-2)%R; 3%R; 4%R; 0%R; (-5)%R] 2 3).
Proof. split; [exact AR_OrdLaws|reflexivity]. Qed.

(* ---------- the pre-repair variants are refuted (Legacy/C03Refuted.v) ---------- *)
Theorem mat_mul_legacy_refuted :
  exists a b : matrix AQ, wf a /\ wf b /\ cols a = rows b /\
    mat_mul_legacy a b = Panic Guard /\ is_ok (mat_mul a b) = true.
Proof. exact C03Refuted.mat_mul_legacy_refuted. Qed.
Check mat_mul_legacy_refuted :
  exists a b : matrix AQ, wf a /\ wf b /\ cols a = rows b /\
    mat_mul_legacy a b = Panic Guard /\ is_ok (mat_mul a b) = true.
Print Assumptions mat_mul_legacy_refuted.

Theorem set_col_legacy_writes_neighbour :
  exists (m : matrix AQ) (v : list AQ), wf m /\ rows m = 4 /\ cols m = 2 /\ length v = rows m /\
    set_col_legacy m 2 v = Panic Index /\
    set_col m 2 v = Panic Guard /\
    exists m1, for_ 0 1 (fun i s => let* x := rd v i in mset s i 2 x) m = Ok m1 /\
               Qc_eqb (entry m1 1 0) (nth 0 v zero) = true /\ Qc_eqb (entry m1 1 0) (entry m 1 0) = false.
Proof. exact C03Refuted.set_col_legacy_writes_neighbour. Qed.
Check set_col_legacy_writes_neighbour :
  exists (m : matrix AQ) (v : list AQ), wf m /\ rows m = 4 /\ cols m = 2 /\ length v = rows m /\
    set_col_legacy m 2 v = Panic Index /\
    set_col m 2 v = Panic Guard /\
    exists m1, for_ 0 1 (fun i s => let* x := rd v i in mset s i 2 x) m = Ok m1 /\
               Qc_eqb (entry m1 1 0) (nth 0 v zero) = true /\ Qc_eqb (entry m1 1 0) (entry m 1 0) = false.
Print Assumptions set_col_legacy_writes_neighbour.

(* (kept last: its Print Assumptions block lists axioms, and the driver reads the block up to the next one) *)
(* over the real numbers (the instance [AR]/[SAR] of Proofs/MatNormsR.v: Rabs, sqrt, Rpower, decidable order) *)
Theorem norms_real : forall m : matrix AR, wf m ->
  (exists N, mnorm_1 (S:=SAR) m = Ok N /\
             (forall j, j < cols m -> (colsum (SS:=SAR) m j <= N)%R) /\
             (N = 0%R \/ exists j, j < cols m /\ N = colsum (SS:=SAR) m j)) /\
  (exists N, mnorm_inf (S:=SAR) m = Ok N /\
             (forall i, i < rows m -> (rowsum (SS:=SAR) m i <= N)%R) /\
             (N = 0%R \/ exists i, i < rows m /\ N = rowsum (SS:=SAR) m i)) /\
  (exists N, mnorm_max (S:=SAR) m = Ok N /\
             (forall i j, i < rows m -> j < cols m -> (Rabs (entry m i j) <= N)%R) /\
             (N = 0%R \/ exists i j, i < rows m /\ j < cols m /\ N = Rabs (entry m i j))) /\
  (forall p : R, mnorm_p (S:=SAR) (fun x => Rpower x p) (fun s => Rpower s (1 / p)) m =
     Ok (Rpower (sum_n (A:=AR) (length (buf m)) (fun k => Rpower (Rabs (nth k (buf m) 0%R)) p)) (1 / p))) /\
  mnorm_frob (S:=SAR) m =
    Ok (R_sqrt.sqrt (sum_n (A:=AR) (length (buf m)) (fun k => (nth k (buf m) 0 * nth k (buf m) 0)%R))).
Proof. exact norms_real_lemma. Qed.
Check norms_real : forall m : matrix AR, wf m ->
  (exists N, mnorm_1 (S:=SAR) m = Ok N /\
             (forall j, j < cols m -> (colsum (SS:=SAR) m j <= N)%R) /\
             (N = 0%R \/ exists j, j < cols m /\ N = colsum (SS:=SAR) m j)) /\
  (exists N, mnorm_inf (S:=SAR) m = Ok N /\
             (forall i, i < rows m -> (rowsum (SS:=SAR) m i <= N)%R) /\
             (N = 0%R \/ exists i, i < rows m /\ N = rowsum (SS:=SAR) m i)) /\
  (exists N, mnorm_max (S:=SAR) m = Ok N /\
             (forall i j, i < rows m -> j < cols m -> (Rabs (entry m i j) <= N)%R) /\
             (N = 0%R \/ exists i j, i < rows m /\ j < cols m /\ N = Rabs (entry m i j))) /\
  (forall p : R, mnorm_p (S:=SAR) (fun x => Rpower x p) (fun s => Rpower s (1 / p)) m =
     Ok (Rpower (sum_n (A:=AR) (length (buf m)) (fun k => Rpower (Rabs (nth k (buf m) 0%R)) p)) (1 / p))) /\
  mnorm_frob (S:=SAR) m =
    Ok (R_sqrt.sqrt (sum_n (A:=AR) (length (buf m)) (fun k => (nth k (buf m) 0 * nth k (buf m) 0)%R))).
Print Assumptions norms_real.
