# C17 -- Newton iteration: success means a root; bounded work; failure reported with the last
# iterate; configuration untouched (repeated calls identical).
import math
from fractions import Fraction
from common import *
from engine import Case
import fnlib as F
from newtonlib import *

PID = "C17"
IMPORTS = "From OV Require Import Base.FnAst Model.Vector Model.Matrix Model.Newton Model.NewtonRun."
MODEL_VO = ["Model/NewtonRun.vo"]
EXHAUSTIVE = False
RULE = ("newton.scalar / newton.sys / newton.sysjac cases, f64 and Complex<f64>: (a) families with analytically known roots -- affine, "
        "quadratics and cubics with separated real roots, x^2-c, 1/x-c, complex polynomials with separated roots, affine and "
        "diagonally dominant polynomial systems of dimension 1..6 (off-diagonal coefficients scaled by 1/(n-1), so dominance holds for every n; finite-difference and supplied Jacobian) -- guesses across the "
        "basin, tol 1e-12..1e-4, delta 1e-8 / 1e-6 / 2^-k, iteration limits 0..50, defaults of Newton::new; (b) root-free, "
        "singular-derivative and non-square functions for the termination half; (c) search-only (no model term) builtin exp/trig "
        "equations and non-differentiable functions (|x|, sqrt|x|, cbrt, step, kinked systems). User functions are ASTs shared with "
        "the Gallina model. (d) special structure (specB): systems whose Jacobian has an exact sparsity pattern (diagonal = decoupled, "
        "lower / upper triangular, tridiagonal, full) with the equations reordered by a permutation (row exchange in the first pass, exact "
        "zeros on the diagonal), guesses exactly at the root or with some components exactly at the root, complex systems with purely real "
        "data; scalar problems on exactly representable data (slopes +-1, +-2, +-1/2, roots 0 / +-1, guesses 0 / at the root / at distance "
        "tol), complex problems living on one axis (roots +-i sqrt k approached along the imaginary axis, real problems posed in Complex, "
        "coefficients +-1 / +-i); (e) setter histories (kinds newton.hscalar / hsys / hsysjac): tolerance / delta / iterations / guess in "
        "every one of the 24 orders, overridden earlier settings, fields never set, solves in between -- judged against the effective "
        "configuration. Compared with the float model: parameters() before/after, Ok/Err, value, number of closure calls, the call "
        "points pass by pass, result and count of a second call. distinct = distinct executor line; non-trivial = at least one pass ran")
TRUSTED = ["Coq 8.16.1 kernel + vm_compute (primitive floats)", "Rust executor /verif/harness (k_newton.rs, fnast.rs)",
           "python driver (generators, AST printers fnlib.py, independent Newton-step oracle, mpmath root refinement, comparators)",
           "hand-written Gallina model coq/Model/Newton.v on coq/Model/{Matrix,Solve,Vector,Complex}.v, tied to src/newton.rs by differential execution"]
ASSUMPTIONS = ["Rust semantics of closures/Vec/usize as modelled; user closures are pure functions of their argument",
               "newton_sys(jac)_affine_partial take the soundness of solve_basic (C01 solve_basic_sound) as an explicit premise; the later newton_sys_affine (pinned) proves the same for affine systems of any dimension over any field WITHOUT that premise",
               "solve takes &self and Newton has no interior mutability (checked at run time: parameters() and a second call)",
               "convergence over R is proved for affine functions and systems, x^2-c, C^1 scalar functions with Lipschitz derivative inside their basin (newton_basin_ok), convex increasing functions (newton_monotone) and decoupled systems (see UNPROVED / note); coupled nonlinear systems of dimension > 1 and nonlinear complex functions are searched only"]
UNPROVED = ["round two (package newton2): convergence is now proved over R for general differentiable scalar f with 0 < m <= |f'| <= Mb and Lipschitz f' (newton_ok_near_root_general, newton_basin_ok), for convex increasing f (newton_monotone), x^2-c from every x0 > 0, affine systems of any dimension over any field without premise (newton_sys_affine), decoupled nonlinear systems of any dimension (both Jacobian variants). NOT proved: coupled nonlinear systems of dimension > 1, nonlinear complex functions (search only)",
            "floating-point rounding inside one Newton step: the float instance of the model is compared bit for bit with the implementation (tie)",
            "configuration untouched / repeated calls identical are run-time observations (a pure function satisfies them by construction)"]

MANIFEST = dict(
    text=("Theorems for ANY user function (a Section variable without hypotheses) and any arithmetic about the Gallina model of the six "
          "Newton solve methods: at most max_iter passes, closure calls bounded by 3*max_iter (scalar), (n+2)*max_iter (finite-difference "
          "systems), max_iter+max_iter (supplied Jacobian), Err carries the max_iter-th iterate and the stopping test failed at every pass, "
          "Ok means the test held at the pass that produced the value, max_iter = 0 gives Err guess, the result depends on (tol, delta, "
          "max_iter, guess) and on the function only through its values at the call points (all six methods); over R: affine functions with "
          "nonzero slope converge to the exact root and Ok on x^2-c is within tol of sqrt c; over any field, relative to the soundness of "
          "the step solver (C01's theorem, an explicit premise): both system solvers return an exact root of Mx + c after at most two "
          "passes (_partial). The float instance of the same definitions is run against "
          "the implementation (Ok/Err, value, call counts, call points, second call; bit-compared) on shared-AST functions, f64 and "
          "Complex; an independent oracle (known roots, stopping-test replay, last-iterate recomputation, call bounds, parameters "
          "before/after, every recorded iterate of a known-root family is the Newton update of its predecessor, a point reported as a "
          "root is finite, Err / Ok never carries a non-finite value when the last iterate and its recomputed update are finite) searches for a failing input, including root-free and non-differentiable functions, structured Jacobians "
          "(sparsity patterns, row-permuted dominant systems), axis-aligned complex problems and setter histories in every order."),
    note=("Convergence over R is proved for: affine scalar functions and affine systems (exact root in one pass, at Qc, R and C); x^2 - c (newton_sqrt, "
          "newton_sqrt_converges); every C^1 scalar function with a Lipschitz derivative inside its basin (newton_basin_no_panic / _contraction / _ok / _pass_count, "
          "newton_quadratic_step, newton_ok_near_root_general), convex monotone functions from any start above the root (newton_monotone*), the same for 1x1 systems "
          "(newton_sys1d_*) and for decoupled systems of any dimension with supplied or finite-difference Jacobian (newton_decoupled_*, newton_fd_decoupled_*). "
          "Convergence of genuinely coupled nonlinear systems and all float rounding are tied and searched, not proved."),
    technique="Coq proof over an abstract arithmetic (no laws needed for the termination half; R for convergence) + model/implementation differential execution",
    design="7 (C17)")

EPS = 2.0 ** -52

# ---------------------------------------------------------------- printers
def opt(x, pr):
    return "None" if x is None else "(Some %s)" % pr(x)

def tok_opt_f(x):
    return "-" if x is None else tok_scalar('f64', x)

def cfg_term(tol, delta, iters, guess_term):
    return "(cfg_f %s %s %s %s)" % (opt(tol, coq_float), opt(delta, coq_float), opt(iters, lambda n: "%d" % n), guess_term)

def hist_effective(guess0, ops):
    """the configuration a setter history leaves behind: the last setter of each field wins, None = default of Newton::new"""
    tol = delta = iters = None; guess = guess0
    for op, v in ops:
        if op == 't': tol = v
        elif op == 'd': delta = v
        elif op == 'i': iters = v
        elif op == 'g': guess = v
    return tol, delta, iters, guess

def hist_tok(ops, tokg):
    out = [str(len(ops))]
    for op, v in ops:
        out.append(op)
        out.append(tok_scalar('f64', v) if op in 'td' else (str(v) if op == 'i' else (tokg(v) if op == 'g' else '-')))
    return " ".join(out)

def mk_scalar(elt, tol, delta, iters, guess, fn, meta, family, builtin=None, hist=None):
    """fn: AST, or None with builtin = '@name:..' (search-only); hist = (guess0, ops): the object is built by Newton::new(guess0)
    and configured by the setter history `ops` (executor kind newton.hscalar); tol/delta/iters/guess are then the EFFECTIVE values"""
    ftok = builtin if builtin else F.tok(elt, fn)
    if hist:
        tol, delta, iters, guess = hist_effective(hist[0], hist[1])
        line = "newton.hscalar %s %s %s" % (tok_scalar(elt, hist[0]), hist_tok(hist[1], lambda v: tok_scalar(elt, v)), ftok)
    else:
        line = "newton.scalar %s %s %s %s %s" % (tok_opt_f(tol), tok_opt_f(delta), "-" if iters is None else str(iters), tok_scalar(elt, guess), ftok)
    term = None
    if not builtin:
        run = "run_scalar_f" if elt == 'f64' else "run_scalar_c"
        term = "%s %s %s" % (run, cfg_term(tol, delta, iters, coq_scalar(elt, guess)), F.coq_typed(elt, fn))
    meta = dict(meta)
    meta.update({"kind": "scalar", "tol": tol, "delta": delta, "iters": iters, "guess": guess, "fn": fn, "builtin": builtin, "hist": hist})
    return Case(elt, line, term, meta=meta, family=family, nontrivial=(iters is None or iters > 0), tol=1e-9)

def mk_sys(elt, tol, delta, iters, guess, fns, meta, family, jac=None, builtin=None, hist=None):
    """jac: None (finite differences) or (r, c, [entry ASTs row-major]); hist as in mk_scalar (kinds newton.hsys / newton.hsysjac)"""
    ftok = builtin if builtin else F.tok_fns(elt, fns)
    kind = "newton.sysjac" if jac else "newton.sys"
    if hist:
        tol, delta, iters, guess = hist_effective(hist[0], hist[1])
        line = "%s %s %s %s" % (kind.replace("newton.", "newton.h"), tok_vec(elt, hist[0]), hist_tok(hist[1], lambda v: tok_vec(elt, v)), ftok)
    else:
        line = "%s %s %s %s %s %s" % (kind, tok_opt_f(tol), tok_opt_f(delta), "-" if iters is None else str(iters), tok_vec(elt, guess), ftok)
    if jac:
        line += " %d %d %s" % (jac[0], jac[1], F.tok_fns(elt, jac[2]))
    term = None
    if not builtin:
        sfx = "f" if elt == 'f64' else "c"
        c = cfg_term(tol, delta, iters, coq_vec(elt, guess))
        if jac:
            term = "run_sysjac_%s %s %s %d %d %s" % (sfx, c, F.coq_fns(elt, fns), jac[0], jac[1], F.coq_fns(elt, jac[2]))
        else:
            term = "run_sys_%s %s %s" % (sfx, c, F.coq_fns(elt, fns))
    meta = dict(meta)
    meta.update({"kind": "sysjac" if jac else "sys", "tol": tol, "delta": delta, "iters": iters, "guess": guess, "fns": fns,
                 "jac": jac, "builtin": builtin, "hist": hist})
    return Case(elt, line, term, meta=meta, family=family, nontrivial=(iters is None or iters > 0), tol=1e-9)

# ---------------------------------------------------------------- builtins (mirror of harness/src/k_newton.rs)
def builtin1(tok):
    parts = tok[1:].split(':')
    name = parts[0]
    p = [bits_f64(int(t[1:], 16)) for t in parts[1:]]
    c = p[0] if p else 0.0
    def safe(f):
        def g(x):
            try: return f(x)
            except (OverflowError, ValueError): return float('nan')
        return g
    tab = {
        "cos": lambda x: math.cos(x) - x, "exp": lambda x: math.exp(x) - c, "sin": lambda x: math.sin(x) - c,
        "xexp": lambda x: x * math.exp(x) - c, "abs": lambda x: abs(x), "absm": lambda x: abs(x) - c,
        "sqrtabs": lambda x: math.sqrt(abs(x)), "cbrt": lambda x: math.copysign(abs(x) ** (1.0 / 3.0), x),
        "atan": lambda x: math.atan(x), "expp": lambda x: math.exp(x), "step": lambda x: -1.0 if x < 0.0 else 1.0,
    }
    return safe(tab[name])

def builtinv(tok):
    parts = tok[1:].split(':')
    name = parts[0]
    c = [bits_f64(int(t[1:], 16)) for t in parts[1:]]
    def f(x):
        n = len(x)
        try:
            if name == "dsin": return [4.0 * x[i] + math.sin(x[(i + 1) % n]) - c[i] for i in range(n)]
            if name == "dcos": return [3.0 * x[i] + 0.5 * math.cos(x[(i + 1) % n]) + 0.25 * math.exp(-x[i] * x[i]) - c[i] for i in range(n)]
            if name == "noroot": return [math.exp(t) + 1.0 for t in x]
            if name == "kink": return [abs(x[i]) + 0.25 * x[(i + 1) % n] - c[i] for i in range(n)]
        except (OverflowError, ValueError):
            return [float('nan')] * n
        raise ValueError(name)
    return f

def btok(name, params=()):
    return "@" + ":".join([name] + [tok_scalar('f64', p) for p in params])

# ---------------------------------------------------------------- parameter menus
def pick_tol(rng):
    k = rng.below(10)
    if k == 0: return None                                   # default 1e-8
    return [1e-12, 1e-11, 1e-10, 1e-9, 1e-8, 1e-7, 1e-6, 1e-5, 1e-4][rng.below(9)]

def pick_delta(rng):
    k = rng.below(8)
    if k < 3: return None                                    # default 1e-8
    return [1e-8, 1e-7, 1e-6, 2.0 ** -20, 2.0 ** -24, 2.0 ** -26][rng.below(6)]

def pick_iters(rng, need):
    """mostly enough iterations, sometimes too few, sometimes the default, sometimes 0"""
    k = rng.below(12)
    if k == 0: return None                                   # default 20
    if k == 1: return 0
    if k == 2: return rng.range(1, 3)
    return rng.range(need, 50) if rng.chance(1, 3) else rng.range(need, need + 8)

def eff(meta):
    """effective configuration (defaults of Newton::new are 1e-8, 1e-8, 20)"""
    return (1e-8 if meta["tol"] is None else meta["tol"], 1e-8 if meta["delta"] is None else meta["delta"],
            20 if meta["iters"] is None else meta["iters"])

def cval(rng, lo, hi):
    return complex(lo + (hi - lo) * rng.unit(), lo + (hi - lo) * rng.unit())

# ---------------------------------------------------------------- generators
def gen_scalar_f64(rng, N):
    cases = []
    L = lambda x: F.lit('f64', x)
    x = F.V(0)
    for t in range(N):
        fam = ["affine", "quad-near", "quad-outside", "cubic", "sqrt", "recip", "xm1overx"][t % 7]
        tol, delta = pick_tol(rng), pick_delta(rng)
        if fam == "affine":
            a = (1 if rng.chance(1, 2) else -1) * (0.25 + 4 * rng.unit()); b = 8 * rng.unit() - 4
            fn = F.add(F.mul(L(a), x), L(b))
            roots = [float(-Fraction(b) / Fraction(a))]
            guess = 20 * rng.unit() - 10
            need, ok = 3, True
        elif fam in ("quad-near", "quad-outside"):
            r1 = 6 * rng.unit() - 3; sep = 0.5 + 3 * rng.unit(); r2 = r1 + sep
            if rng.chance(1, 2):
                fn = F.mul(F.sub(x, L(r1)), F.sub(x, L(r2)))
                roots = [r1, r2]
            else:
                c0 = float(Fraction(r1) * Fraction(r2)); c1 = float(-(Fraction(r1) + Fraction(r2)))
                fn = F.horner('f64', [c0, c1, 1.0])
                roots = None   # refined below
            if fam == "quad-near":
                r = r1 if rng.chance(1, 2) else r2
                guess = r + (2 * rng.unit() - 1) * sep / 4
                need = 9
            else:
                guess = (r2 + 5 * rng.unit() + 0.01) if rng.chance(1, 2) else (r1 - 5 * rng.unit() - 0.01)
                need = 14
            ok = True
        elif fam == "cubic":
            r1 = 4 * rng.unit() - 3; s1 = 0.6 + 1.5 * rng.unit(); s2 = 0.6 + 1.5 * rng.unit()
            rs = [r1, r1 + s1, r1 + s1 + s2]
            fn = F.mul(F.mul(F.sub(x, L(rs[0])), F.sub(x, L(rs[1]))), F.sub(x, L(rs[2])))
            roots = rs
            k = rng.below(3)
            sep = min(s1, s2)
            guess = rs[k] + (2 * rng.unit() - 1) * sep / 5
            need, ok = 10, True
        elif fam == "sqrt":
            c = 0.25 + 15.75 * rng.unit()
            fn = F.sub(F.mul(x, x), L(c))
            roots = [math.sqrt(c), -math.sqrt(c)]
            guess = 0.1 + 9.9 * rng.unit()
            if rng.chance(1, 4): guess = -guess
            need, ok = 16, True
        elif fam == "recip":
            c = 0.25 + 4 * rng.unit()
            fn = F.sub(F.div(L(1.0), x), L(c))
            roots = [float(1 / Fraction(c))]
            guess = (0.5 + rng.unit()) / c
            need, ok = 12, True
        else:   # x - c/x : roots +-sqrt c
            c = 0.5 + 8 * rng.unit()
            fn = F.sub(x, F.div(L(c), x))
            roots = [math.sqrt(c), -math.sqrt(c)]
            s = 1 if rng.chance(1, 2) else -1
            guess = s * math.sqrt(c) * (0.8 + 0.4 * rng.unit())
            need, ok = 10, True
        iters = pick_iters(rng, need)
        cases.append(mk_scalar('f64', tol, delta, iters, guess, fn, {"roots": roots, "expect_ok": ok, "need": need}, "scalar-f64-" + fam))
    return cases

def gen_scalar_cplx(rng, N):
    cases = []
    L = lambda z: F.lit('cplx', z)
    x = F.V(0)
    for t in range(N):
        fam = ["affine", "z2-c", "z2+1", "z3-1", "quad"][t % 5]
        tol, delta = pick_tol(rng), pick_delta(rng)
        if fam == "affine":
            a = cval(rng, -3, 3)
            if abs(a) < 0.3: a += 1
            b = cval(rng, -4, 4)
            fn = F.add(F.mul(L(a), x), L(b))
            roots = [-b / a]; guess = cval(rng, -6, 6); need = 3
        elif fam == "z2-c":
            c = cval(rng, -4, 4)
            if abs(c) < 0.3: c += 1
            fn = F.sub(F.mul(x, x), L(c))
            import cmath
            r = cmath.sqrt(c); roots = [r, -r]
            guess = r * (1 + 0.3 * cval(rng, -1, 1)); need = 9
        elif fam == "z2+1":
            fn = F.add(F.mul(x, x), L(1.0))
            roots = [1j, -1j]
            s = 1 if rng.chance(1, 2) else -1
            guess = s * 1j + 0.4 * cval(rng, -1, 1); need = 9
        elif fam == "z3-1":
            fn = F.sub(F.mul(x, F.mul(x, x)), L(1.0))
            import cmath
            roots = [cmath.exp(2j * math.pi * k / 3) for k in range(3)]
            guess = roots[rng.below(3)] + 0.25 * cval(rng, -1, 1); need = 9
        else:
            r1 = cval(rng, -3, 3); d = cval(rng, -2, 2)
            if abs(d) < 0.6: d += 1.2
            r2 = r1 + d
            fn = F.mul(F.sub(x, L(r1)), F.sub(x, L(r2)))
            roots = [r1, r2]
            guess = (r1 if rng.chance(1, 2) else r2) + abs(d) / 4 * cval(rng, -0.7, 0.7); need = 10
        iters = pick_iters(rng, need)
        cases.append(mk_scalar('cplx', tol, delta, iters, guess, fn, {"roots": roots, "expect_ok": True, "need": need}, "scalar-cplx-" + fam))
    return cases

def gen_scalar_termination(rng, N):
    """root-free / singular-derivative / real-axis-trapped functions: only the termination half applies"""
    cases = []
    x = F.V(0)
    for t in range(N):
        fam = ["x2+c", "flat-start", "rational-noroot", "cplx-real-trap", "x2-at-0", "nan-step", "leaves-domain"][t % 7]
        tol, delta = pick_tol(rng), pick_delta(rng)
        iters = [0, 1, 2, 3, 5, 8, 12, 20, None, 50][rng.below(10) if t % 7 else 9]
        if fam == "x2+c":
            fn = F.add(F.mul(x, x), F.lit('f64', 0.1 + 3 * rng.unit())); elt = 'f64'; guess = 8 * rng.unit() - 4
        elif fam == "flat-start":    # central difference is exactly 0 at the symmetric start: dx = f/0
            fn = F.add(F.mul(x, x), F.lit('f64', 1.0)); elt = 'f64'; guess = 0.0
        elif fam == "rational-noroot":
            fn = F.add(F.div(F.lit('f64', 1.0), F.add(F.mul(x, x), F.lit('f64', 1.0))), F.lit('f64', 0.5)); elt = 'f64'; guess = 6 * rng.unit() - 3
        elif fam == "cplx-real-trap":   # z^2 + 1 from a real guess never leaves the real axis
            fn = F.add(F.mul(x, x), F.lit('cplx', 1.0)); elt = 'cplx'; guess = complex(4 * rng.unit() - 2, 0.0)
        elif fam == "nan-step":        # 0/0 inside the function: every value is NaN, so is every step
            fn = F.add(F.div(F.sub(x, x), F.sub(x, x)), F.lit('f64', 1.0)); elt = 'f64'; guess = 4 * rng.unit() - 2
        elif fam == "leaves-domain":   # finite near the guess, NaN (inf - inf) once an iterate overflows: 1/(x*x) style poles
            c = 0.5 + rng.unit()
            fn = F.add(F.div(F.lit('f64', 1.0), F.mul(x, x)), F.lit('f64', c)); elt = 'f64'; guess = (1e-3 + rng.unit()) * (1 if t % 2 else -1)
        else:                          # double root: linear convergence, derivative -> 0
            fn = F.mul(x, x); elt = 'f64'; guess = rng.unit() * (1 if t % 4 else 0)
        cases.append(mk_scalar(elt, tol, delta, iters, guess, fn, {"roots": None, "expect_ok": False}, "scalar-termination-" + fam))
    return cases

def gen_scalar_builtin(rng, N):
    cases = []
    for t in range(N):
        fam = ["cos", "exp", "sin", "xexp", "abs", "absm", "sqrtabs", "cbrt", "atan", "expp", "step"][t % 11]
        tol, delta = pick_tol(rng), pick_delta(rng)
        roots, ok, need, params = None, False, 12, ()
        if fam == "cos":
            roots = [0.7390851332151607]; guess = 0.739 + (rng.unit() - 0.5); ok = True
        elif fam == "exp":
            c = 0.2 + 5 * rng.unit(); params = (c,); roots = [math.log(c)]; guess = math.log(c) + (rng.unit() - 0.5); ok = True
        elif fam == "sin":
            c = 1.6 * rng.unit() - 0.8; params = (c,); roots = [math.asin(c)]; guess = math.asin(c) + 0.4 * (rng.unit() - 0.5); ok = True
        elif fam == "xexp":
            import mpmath
            c = 0.2 + 5 * rng.unit(); params = (c,); w = float(mpmath.lambertw(c)); roots = [w]; guess = w + 0.5 * (rng.unit() - 0.5); ok = True
        elif fam == "abs":
            roots = [0.0]; guess = 4 * rng.unit() - 2
        elif fam == "absm":
            c = 0.5 + 2 * rng.unit(); params = (c,); roots = [c, -c]; guess = 6 * rng.unit() - 3
        else:
            guess = 6 * rng.unit() - 3
        iters = pick_iters(rng, need) if ok else [0, 1, 2, 5, 12, 20, None, 50][rng.below(8)]
        cases.append(mk_scalar('f64', tol, delta, iters, guess, None, {"roots": roots, "expect_ok": ok, "need": need},
                               "scalar-builtin-" + fam, builtin=btok(fam, params)))
    return cases

def dd_system(rng, elt, n, kind):
    """a diagonally dominant system with a root planted near r; returns (fns, r, jac entries)"""
    val = (lambda lo, hi: cval(rng, lo, hi)) if elt == 'cplx' else (lambda lo, hi: lo + (hi - lo) * rng.unit())
    L = lambda z: F.lit(elt, z)
    r = [val(-1.5, 1.5) for _ in range(n)]
    fns = []
    for i in range(n):
        d = 3.0 + 2 * rng.unit()
        if rng.chance(1, 2) or kind == "uppertri": d = -d
        e = F.mul(L(d), F.V(i))
        for j in range(n):
            # "uppertri": equation i depends on x_j for j >= i only, with a NEGATIVE diagonal derivative: every Jacobian column holds,
            # from the diagonal down, a negative entry followed by exact zeros (the pivot search must keep the diagonal entry:
            # seeded mutation C17-7 compared against a signed running maximum and swapped a zero in)
            if kind == "uppertri" and j < i: continue
            if j != i and (kind in ("affine", "uppertri") or rng.chance(1, 2)):
                # scaled by 1/(n-1): the linear off-diagonal row sum stays <= 0.4 for every n (with the quadratic coupling term
                # <= 1.08 this is below |d| - 3*0.1*1.8^2 >= 2.03: dominant over reals for every dimension 1..6)
                e = F.add(e, F.mul(L(val(-0.4, 0.4) * (1.0 / max(1, n - 1))), F.V(j)))
        if kind == "poly" and n >= 1:
            j = (i + 1) % n
            e = F.add(e, F.mul(L(val(-0.3, 0.3)), F.mul(F.V(j), F.V(j))))
            if rng.chance(1, 2):
                e = F.add(e, F.mul(L(val(-0.1, 0.1)), F.mul(F.V(i), F.mul(F.V(i), F.V(i)))))
        fns.append(e)
    # plant the root: subtract the value at r (rounded) -- the exact root is refined by the oracle
    vals = F.evv(fns, r)
    fns = [F.sub(e, L(v)) for e, v in zip(fns, vals)]
    jac = [diff(fns[i], j, elt) for i in range(n) for j in range(n)]
    return fns, r, jac

def gen_systems(rng, N):
    cases = []
    for t in range(N):
        elt = 'f64' if t % 3 != 2 else 'cplx'
        kind = "affine" if t % 4 == 0 else ("uppertri" if t % 7 == 3 else "poly")
        n = 1 + (t * 7 + t // 6) % 6
        if kind == "uppertri" and n < 2: n = 3
        if n >= 5 and t % 2: n -= 3
        fns, r, jac = dd_system(rng, elt, n, kind)
        tol, delta = pick_tol(rng), pick_delta(rng)
        pert = (lambda: 0.3 * cval(rng, -1, 1)) if elt == 'cplx' else (lambda: 0.3 * (2 * rng.unit() - 1))
        guess = [x + pert() for x in r]
        need = 4 if kind in ("affine", "uppertri") else 9
        iters = pick_iters(rng, need)
        if iters is not None and iters > 12 and n >= 4: iters = 12
        use_jac = (t % 5 in (1, 3))
        cases.append(mk_sys(elt, tol, delta, iters, guess, fns, {"root0": r, "expect_ok": True, "need": need},
                            "sys%s-%s-%s" % ("jac" if use_jac else "", elt, kind), jac=(n, n, jac) if use_jac else None))
    return cases

def gen_sys_termination(rng, N):
    cases = []
    L = lambda z: F.lit('f64', z)
    for t in range(N):
        fam = ["noroot", "nonsquare", "singular", "empty", "wrongjac", "nan-first"][t % 6]
        tol, delta = pick_tol(rng), pick_delta(rng)
        iters = [0, 1, 2, 3, 5, None][rng.below(6)]
        jac = None
        if fam == "noroot":
            n = rng.range(1, 3)
            fns = [F.add(F.add(F.mul(F.V(i), F.V(i)), F.mul(F.V((i + 1) % n), F.V((i + 1) % n))), L(1.0 + rng.unit())) for i in range(n)]
            guess = [4 * rng.unit() - 2 for _ in range(n)]
        elif fam == "nonsquare":       # m != n: solve_basic rejects the Jacobian
            n = rng.range(1, 3); m = n + (1 if rng.chance(1, 2) else -1)
            fns = [F.add(F.V(i % n), L(float(i))) for i in range(m)]
            guess = [rng.unit() for _ in range(n)]
        elif fam == "singular":        # rank-deficient Jacobian: division by a zero pivot (inf/NaN, no panic)
            n = 2
            fns = [F.add(F.V(0), F.V(1)), F.sub(F.add(F.V(0), F.V(1)), L(1.0))]
            guess = [rng.unit(), rng.unit()]
        elif fam == "nan-first":       # the first residual component is NaN everywhere: the test can never hold
            n = 2
            fns = [F.div(F.sub(F.V(0), F.V(0)), F.sub(F.V(1), F.V(1))), F.sub(F.V(1), L(1.0))]
            guess = [rng.unit(), 1.0 if rng.chance(1, 2) else rng.unit()]
        elif fam == "empty":           # no unknowns
            n = 0; fns = [] if rng.chance(1, 2) else [L(1.0)]; guess = []
        else:                          # supplied Jacobian of the wrong shape / a wrong (but regular) Jacobian
            n = 2
            fns = [F.sub(F.mul(L(2.0), F.V(0)), L(1.0)), F.sub(F.mul(L(4.0), F.V(1)), L(1.0))]
            guess = [rng.unit(), rng.unit()]
            if rng.chance(1, 2): jac = (2, 2, [L(1.0), L(0.0), L(0.0), L(1.0)])        # wrong slope: linear convergence
            else: jac = (2, 3, [L(1.0)] * 6)                                              # wrong shape: rejected
        # only a shape the step solver rejects may panic; the regular no-root / singular / NaN families must terminate
        may_panic = fam in ("nonsquare", "empty") or (jac is not None and (jac[0], jac[1]) != (n, n))
        cases.append(mk_sys('f64', tol, delta, iters, guess, fns, {"root0": None, "expect_ok": False, "may_panic": may_panic}, "sys-termination-" + fam, jac=jac))
    return cases

def gen_sys_builtin(rng, N):
    cases = []
    for t in range(N):
        fam = ["dsin", "dcos", "noroot", "kink"][t % 4]
        n = rng.range(1, 6)
        tol, delta = pick_tol(rng), pick_delta(rng)
        c = [4 * rng.unit() - 2 for _ in range(n)]
        guess = [rng.unit() - 0.5 + ci / 4 for ci in c]
        ok = fam in ("dsin", "dcos")
        iters = pick_iters(rng, 10) if ok else [0, 1, 3, 8, None][rng.below(5)]
        cases.append(mk_sys('f64', tol, delta, iters, guess, None, {"root0": None, "expect_ok": ok, "need": 10, "refine": ok},
                            "sys-builtin-" + fam, builtin=btok(fam, c if fam != "noroot" else ())))
    return cases

# ---------------------------------------------------------------- specB: structured families (special STRUCTURE, not special values only)
PERMS4 = [(a, b, c, d) for a in "tdig" for b in "tdig" for c in "tdig" for d in "tdig" if len({a, b, c, d}) == 4]

def struct_system(rng, elt, n, pattern, perm, axis=None, nonlin=True):
    """a diagonally dominant system whose Jacobian has EXACTLY the sparsity `pattern` ('diag' = decoupled, 'lower', 'upper',
    'tridiag', 'full'), the equations then reordered by `perm` (equation i of the result is equation perm[i] of the dominant
    system: the Jacobian is a row permutation of a dominant matrix, so the step solver must exchange rows in the FIRST pass and
    meets exact zeros on the diagonal).  axis = 'real' (elt cplx): every datum has imaginary part exactly 0.
    Returns (fns, r, jac entries); f(r) evaluates to exactly 0 in binary64 (root planted by subtracting the rounded value)."""
    if elt == 'cplx' and axis == 'real': val = lambda lo, hi: complex(lo + (hi - lo) * rng.unit(), 0.0)
    elif elt == 'cplx': val = lambda lo, hi: cval(rng, lo, hi)
    else: val = lambda lo, hi: lo + (hi - lo) * rng.unit()
    L = lambda z: F.lit(elt, z)
    allowed = {'diag': lambda i, j: False, 'lower': lambda i, j: j < i, 'upper': lambda i, j: j > i,
               'tridiag': lambda i, j: abs(i - j) == 1, 'full': lambda i, j: True}[pattern]
    r = [val(-1.5, 1.5) for _ in range(n)]
    fns = []
    # off-diagonal coefficients are scaled by 1/(n-1): a row has up to n-1 of them ('full', last row of 'lower', first of 'upper'),
    # so over reals the off-diagonal row sum of the Jacobian stays <= 0.4 + 0.72/(n-1) <= 1.12 < 1.92 <= |d| - 2*0.3*1.8 for every n
    sc = 1.0 / max(1, n - 1)
    for i in range(n):
        d = 3.0 + 2 * rng.unit()
        if rng.chance(1, 2): d = -d
        e = F.mul(L(d), F.V(i))
        for j in range(n):
            if j != i and allowed(i, j):
                e = F.add(e, F.mul(L(val(-0.4, 0.4) * sc), F.V(j)))
        if nonlin:
            e = F.add(e, F.mul(L(val(-0.3, 0.3)), F.mul(F.V(i), F.V(i))))
            js = [j for j in range(n) if j != i and allowed(i, j)]
            if js and rng.chance(1, 2):
                j = js[rng.below(len(js))]
                e = F.add(e, F.mul(L(val(-0.2, 0.2) * sc), F.mul(F.V(j), F.V(j))))
        fns.append(e)
    vals = F.evv(fns, r)
    fns = [F.sub(e, L(v)) for e, v in zip(fns, vals)]
    fns = [fns[perm[i]] for i in range(n)]
    jac = [diff(fns[i], j, elt) for i in range(n) for j in range(n)]
    return fns, r, jac

def pick_perm(rng, n, which):
    ident = list(range(n))
    if n < 2 or which == "id": return ident
    if which == "swap01": return [1, 0] + ident[2:]
    if which == "swaplast": return ident[:-2] + [n - 1, n - 2]
    if which == "reverse": return ident[::-1]
    if which == "cyclic": return ident[1:] + [0]
    return rng.shuffle(ident)

def gen_struct_systems(rng, N):
    """Jacobian sparsity patterns x row permutations x guess classes (near / exactly at the root / some components exactly at
    the root) x element kind (f64, cplx, cplx with purely real data) x Jacobian variant"""
    cases = []
    # the full cross product pattern x (identity | permuted) x (finite differences | supplied Jacobian) x element class is walked
    # in order (60 combinations: every one at least twice in a quick run); everything else is drawn
    combos = [(p, pc, uj, ea) for p in ["diag", "lower", "upper", "tridiag", "full"] for pc in ("id", "perm") for uj in (False, True)
              for ea in (('f64', None), ('cplx', None), ('cplx', 'real'))]
    off = rng.below(len(combos))
    for t in range(N):
        pattern, pc, use_jac, (elt, axis) = combos[(t + off) % len(combos)]
        which = "id" if pc == "id" else ["swap01", "reverse", "cyclic", "swaplast", "random"][rng.below(5)]
        n = rng.range(2, 5)
        if pattern in ("lower", "upper", "tridiag") and n < 3 and rng.chance(1, 2): n = 3
        nonlin = not rng.chance(1, 5)
        fns, r, jac = struct_system(rng, elt, n, pattern, pick_perm(rng, n, which), axis=axis, nonlin=nonlin)
        tol, delta = pick_tol(rng), pick_delta(rng)
        if axis == 'real': pert = lambda: complex(0.3 * (2 * rng.unit() - 1), 0.0)
        elif elt == 'cplx': pert = lambda: 0.3 * cval(rng, -1, 1)
        else: pert = lambda: 0.3 * (2 * rng.unit() - 1)
        gmode = ["near", "near", "near", "at-root", "partial"][rng.below(5)]
        if gmode == "partial" and pattern != "diag": gmode = "near"
        if gmode == "at-root": guess = list(r)
        elif gmode == "partial":
            # decoupled equations: the components listed in `keep` start exactly at their root (residual exactly 0 there); the
            # largest residual sits in the first / last / a middle component
            move = [rng.below(n)] if rng.chance(1, 2) else [0 if rng.chance(1, 2) else n - 1]
            guess = [r[k] + pert() if k in move else r[k] for k in range(n)]
        else: guess = [x + pert() for x in r]
        need = 9 if nonlin else 4
        iters = pick_iters(rng, need)
        if iters is not None and iters > 12 and n >= 4: iters = 12
        fam = "struct-sys%s-%s%s-%s-%s-%s" % ("jac" if use_jac else "", elt, "-real" if axis else "", pattern, "perm" if which != "id" else "id", gmode)
        cases.append(mk_sys(elt, tol, delta, iters, guess, fns, {"root0": r, "expect_ok": True, "need": need}, fam,
                            jac=(n, n, jac) if use_jac else None))
    return cases

def gen_special_scalar(rng, N):
    """exactly representable special data: slopes +-1, +-2, +-1/2, roots 0 / +-1, guesses 0 / +-1 / exactly at the root / at
    distance tol from it; complex problems that live on one axis (purely real data in Complex, roots +-i approached along the
    imaginary axis, axis-aligned coefficients +-1, +-i)"""
    cases = []
    x = F.V(0)
    for t in range(N):
        fam = ["f64-affine", "f64-sqrt", "f64-recip", "cplx-imag-axis", "cplx-real-axis", "cplx-axis-affine"][t % 6]
        tol, delta = pick_tol(rng), pick_delta(rng)
        tol_e = 1e-8 if tol is None else tol
        if fam == "f64-affine":
            elt = 'f64'; L = lambda v: F.lit('f64', v)
            a = [1.0, -1.0, 2.0, -2.0, 0.5, -0.5][rng.below(6)]
            r = [0.0, 1.0, -1.0, 2.0, 0.5, -3.0][rng.below(6)]
            form = rng.below(3)
            if form == 0 and abs(a) == 1.0: fn = F.sub(x, L(r)) if a > 0 else F.sub(L(r), x)
            elif form == 1: fn = F.mul(L(a), F.sub(x, L(r)))
            else: fn = F.add(F.mul(L(a), x), L(-a * r))
            guess = [0.0, r, 1.0, -1.0, r + 1.0, r - 1.0, r + tol_e, r - tol_e, r + 2 * tol_e][rng.below(9)]
            roots = [r]; need = 3
        elif fam == "f64-sqrt":
            elt = 'f64'; L = lambda v: F.lit('f64', v)
            c = [1.0, 4.0, 0.25, 9.0][rng.below(4)]
            fn = F.sub(F.mul(x, x), L(c))
            rt = math.sqrt(c)
            guess = [1.0, 2.0, 0.5, 3.0, -1.0, -2.0, rt, -rt, rt + tol_e][rng.below(9)]
            roots = [rt, -rt]; need = 16
        elif fam == "f64-recip":
            elt = 'f64'; L = lambda v: F.lit('f64', v)
            c = [1.0, 2.0, 0.5, 4.0][rng.below(4)]
            fn = F.sub(F.div(L(1.0), x), L(c))
            guess = [1.0 / c, 0.75 / c, 1.25 / c, 1.0 / c + tol_e][rng.below(4)]
            roots = [1.0 / c]; need = 12
        elif fam == "cplx-imag-axis":
            # roots +-i sqrt(k), guesses ON the imaginary axis: every iterate, derivative and step is purely imaginary
            elt = 'cplx'; L = lambda v: F.lit('cplx', v)
            k = [1.0, 1.0, 4.0, 0.25, 2.0][rng.below(5)]
            fn = F.add(F.mul(x, x), L(k))
            rt = math.sqrt(k)
            sgn = 1 if rng.chance(1, 2) else -1
            y = [rt, 1.25 * rt, 0.75 * rt, 1.5 * rt, rt * (0.7 + 0.8 * rng.unit()), rt * (0.7 + 0.8 * rng.unit())][rng.below(6)]
            guess = complex(0.0, sgn * y)
            roots = [complex(0, rt), complex(0, -rt)]; need = 10
        elif fam == "cplx-real-axis":
            # real problems posed in Complex: every imaginary part is exactly 0
            elt = 'cplx'; L = lambda v: F.lit('cplx', v)
            if rng.chance(1, 2):
                c = [4.0, 2.0, 0.25, 1.0][rng.below(4)]
                fn = F.sub(F.mul(x, x), L(c)); rt = math.sqrt(c)
                sgn = 1 if rng.chance(1, 2) else -1
                guess = complex(sgn * rt * [1.0, 1.25, 0.75, 0.7 + 0.8 * rng.unit()][rng.below(4)], 0.0)
                roots = [complex(rt, 0), complex(-rt, 0)]
            else:
                r1 = dy(rng, -3, 3, 4); r2 = r1 + dy(rng, 1, 3, 4)
                fn = F.mul(F.sub(x, L(r1)), F.sub(x, L(r2)))
                guess = complex((r1 if rng.chance(1, 2) else r2) + 0.2 * (2 * rng.unit() - 1), 0.0)
                roots = [complex(r1, 0), complex(r2, 0)]
            need = 10
        else:
            elt = 'cplx'; L = lambda v: F.lit('cplx', v)
            a = [1.0, -1.0, 1j, -1j, 2j, -0.5j, 2.0][rng.below(7)]
            r = [0.0, 1.0, 1j, -1j, -1.0, 2j][rng.below(6)]
            a = complex(a); r = complex(r)
            fn = F.mul(L(a), F.sub(x, L(r))) if rng.chance(1, 2) else F.add(F.mul(L(a), x), L(-a * r))
            guess = complex([0.0, r, 1.0, 1j, -1.0, -1j, r + 1, r + 1j, r + tol_e, r + 1j * tol_e][rng.below(10)])
            roots = [r]; need = 3
        iters = pick_iters(rng, need)
        cases.append(mk_scalar(elt, tol, delta, iters, guess, fn, {"roots": roots, "expect_ok": True, "need": need}, "special-" + fam))
    return cases

def gen_histories(rng, N):
    """setter histories: Newton::new(guess0) followed by tolerance / delta / iterations / guess in EVERY order (the 24 orders
    rotate with the case index), earlier `decoy` settings of the same field that a later setter overrides, fields never set
    (defaults), and solves in between.  The answer must be the one of a fresh object with the effective configuration."""
    cases = []
    x = F.V(0)
    for t in range(N):
        prob = t % 4
        order = PERMS4[(t // 4 + 7 * (t % 4)) % 24]
        tol = [1e-12, 1e-10, 1e-9, 1e-7, 1e-6, 1e-5, 1e-4][rng.below(7)]
        delta = [1e-7, 1e-6, 2.0 ** -20, 2.0 ** -24, 2.0 ** -26][rng.below(5)]
        if prob == 0:
            elt = 'f64'; L = lambda v: F.lit('f64', v)
            r1 = 6 * rng.unit() - 3; sep = 0.5 + 3 * rng.unit(); r2 = r1 + sep
            fn = F.mul(F.sub(x, L(r1)), F.sub(x, L(r2)))
            good = lambda: (r1 if rng.chance(1, 2) else r2) + (2 * rng.unit() - 1) * sep / 4
            far = lambda: r2 + 20 + 10 * rng.unit()
            extra = {"roots": [r1, r2], "expect_ok": True, "need": 9}; need = 9
        elif prob == 1:
            elt = 'cplx'; L = lambda v: F.lit('cplx', v)
            import cmath
            c = cval(rng, -4, 4)
            if abs(c) < 0.3: c += 1
            fn = F.sub(F.mul(x, x), L(c)); rt = cmath.sqrt(c)
            good = lambda: rt * (1 + 0.3 * cval(rng, -1, 1))
            far = lambda: rt * 30 + cval(rng, -1, 1)
            extra = {"roots": [rt, -rt], "expect_ok": True, "need": 9}; need = 9
        else:
            elt = 'f64' if t % 8 < 6 else 'cplx'
            n = rng.range(1, 3)
            fns, r, jac = struct_system(rng, elt, n, "full", list(range(n)))
            pert = (lambda: 0.3 * cval(rng, -1, 1)) if elt == 'cplx' else (lambda: 0.3 * (2 * rng.unit() - 1))
            good = lambda: [v + pert() for v in r]
            far = lambda: [v + 25 + pert() for v in r]
            extra = {"root0": r, "expect_ok": True, "need": 9}; need = 9
        iters = pick_iters(rng, need)
        if iters is None: iters = 20 + rng.range(1, 9)          # an explicit value different from the default
        final = {'t': tol, 'd': delta, 'i': iters, 'g': good()}
        ops = [(o, final[o]) for o in order]
        # a field never set keeps the default of Newton::new (guess: the constructor argument)
        dropped = None
        if rng.chance(1, 3):
            dropped = "tdig"[rng.below(4)]
            ops = [op for op in ops if op[0] != dropped]
        guess0 = final['g'] if dropped == 'g' else (far() if rng.chance(1, 2) else good())
        # decoys: an earlier setting of the same field, overridden later (or, for a dropped field, left in force)
        decoy = {'t': lambda: [1e-3, 1e-2, 1e-11][rng.below(3)], 'd': lambda: [2.0 ** -12, 1e-5, 2.0 ** -30][rng.below(3)],
                 'i': lambda: [0, 1, 40, 50][rng.below(4)], 'g': lambda: far() if rng.chance(1, 2) else good()}
        for o in "tdig":
            if o != dropped and rng.chance(1, 3):
                pos = [k for k, op in enumerate(ops) if op[0] == o][0]
                ops.insert(rng.below(pos + 1), (o, decoy[o]()))
        if rng.chance(1, 3):
            ops.insert(rng.below(len(ops) + 1), ('s', None))
        fam = "history-%s" % ["scalar-f64", "scalar-cplx", "sys", "sysjac"][prob]
        if prob <= 1:
            cases.append(mk_scalar(elt, None, None, None, None, fn, extra, fam, hist=(guess0, ops)))
        else:
            cases.append(mk_sys(elt, None, None, None, None, fns, extra, fam, jac=(n, n, jac) if prob == 3 else None, hist=(guess0, ops)))
    return cases

def generate(rng, tier):
    q = (tier == "quick")
    cases = []
    cases += gen_scalar_f64(rng.fork("sf"), 210 if q else 1470)
    cases += gen_scalar_cplx(rng.fork("sc"), 100 if q else 700)
    cases += gen_scalar_termination(rng.fork("st"), 84 if q else 420)
    cases += gen_systems(rng.fork("sys"), 120 if q else 720)
    cases += gen_sys_termination(rng.fork("syst"), 48 if q else 180)
    cases += gen_scalar_builtin(rng.fork("sb"), 220 if q else 2200)
    cases += gen_sys_builtin(rng.fork("sysb"), 80 if q else 800)
    # specB: special structure -- Jacobian sparsity patterns / row permutations / guesses at the root, exactly representable and
    # axis-aligned scalar problems, setter histories in every order
    cases += gen_struct_systems(rng.fork("struct"), 120 if q else 600)
    cases += gen_special_scalar(rng.fork("special"), 72 if q else 480)
    cases += gen_histories(rng.fork("hist"), 96 if q else 480)
    # spread heavy and light cases over the model shards
    withm = [c for c in cases if c.term is not None]
    without = [c for c in cases if c.term is None]
    return rng.fork("order").shuffle(withm) + without

# ---------------------------------------------------------------- corpus
def case_from_json(j):
    elt = j["elt"]; m = j["meta"]
    conv = (lambda v: complex(float.fromhex(v["re"]), float.fromhex(v["im"]))) if elt == 'cplx' else (lambda v: float.fromhex(v) if isinstance(v, str) else float(v))
    fl = lambda v: None if v is None else (float.fromhex(v) if isinstance(v, str) else float(v))
    extra = {"roots": [conv(r) for r in m["roots"]] if m.get("roots") else None, "expect_ok": bool(m.get("expect_ok")), "need": m.get("need", 20),
             "root0": [conv(r) for r in m["root0"]] if m.get("root0") else None}
    hist = None
    if m.get("hist"):
        # {"guess0": <value>, "ops": [["t", <hex float>], ["d", ..], ["i", <int>], ["g", <value>], ["s", null]]}
        gv = (lambda v: conv(v)) if m["kind"] == "scalar" else (lambda v: [conv(t) for t in v])
        hist = (gv(m["hist"]["guess0"]), [(o, fl(v) if o in "td" else (int(v) if o == "i" else (gv(v) if o == "g" else None))) for o, v in m["hist"]["ops"]])
    if m["kind"] == "scalar":
        fn = F.from_json(m["fn"]) if m.get("fn") else None
        return mk_scalar(elt, fl(m.get("tol")), fl(m.get("delta")), m.get("iters"), None if hist else conv(m["guess"]), fn, extra, "corpus", builtin=m.get("builtin"), hist=hist)
    fns = [F.from_json(e) for e in m["fns"]] if m.get("fns") else None
    jac = None
    if m.get("jac"):
        jac = (m["jac"][0], m["jac"][1], [F.from_json(e) for e in m["jac"][2]])
    return mk_sys(elt, fl(m.get("tol")), fl(m.get("delta")), m.get("iters"), None if hist else [conv(v) for v in m["guess"]], fns, extra, "corpus", jac=jac, builtin=m.get("builtin"), hist=hist)

# ---------------------------------------------------------------- oracle
def beq(a, b):
    """bitwise equality with one canonical NaN (scalars or lists)"""
    if isinstance(a, list): return len(a) == len(b) and all(beq(x, y) for x, y in zip(a, b))
    return same_bits(a, b)

def allfinite(v):
    if isinstance(v, list): return all(finite(x) for x in v)
    return finite(v)

def nrm(v):
    if isinstance(v, list): return max([abs(x) for x in v] + [0.0])
    return abs(v)

def vsub(a, b):
    if isinstance(a, list): return [x - y for x, y in zip(a, b)]
    return a - b

def centre3(tri):
    """of c+d, c-d, c (any order) the middle one"""
    best, bi = None, None
    for i in range(3):
        s = sum(abs(tri[i] - tri[k]) for k in range(3) if k != i)
        if best is None or s < best: best, bi = s, i
    return tri[bi]

def refine_root(fns, x0, elt):
    """high-precision Newton with the symbolic Jacobian, from the implementation's answer"""
    import mpmath
    mpmath.mp.dps = 40
    n = len(x0)
    conv = (lambda v: mpmath.mpc(v)) if elt == 'cplx' else (lambda v: mpmath.mpf(v))
    x = [conv(v) for v in x0]
    J = [[diff(fns[i], j, elt) for j in range(n)] for i in range(n)]
    for _ in range(8):
        fv = mpmath.matrix([F.ev(e, x, conv) for e in fns])
        Jm = mpmath.matrix([[F.ev(J[i][j], x, conv) for j in range(n)] for i in range(n)])
        dx = mpmath.lu_solve(Jm, fv)
        x = [x[i] - dx[i] for i in range(n)]
    return x

def oracle(case, items):
    meta, elt = case.meta, case.elt
    tol, delta, iters = eff(meta)
    kind = meta["kind"]
    pc = panic_of(items)
    if pc:
        if kind != "scalar" and meta.get("may_panic"):
            return None          # non-square / empty systems and Jacobians of the wrong shape are rejected by the step solver
        return "Newton %s panicked (%s) on a regular function" % (kind, pc)
    n = 1 if kind == "scalar" else len(meta["guess"])
    per = 3 if kind == "scalar" else (2 if kind == "sysjac" else n + 2)
    try:
        rd = Reader(items, elt)
        rdv = rd.scalar if kind == "scalar" else rd.vec
        if kind == "scalar":
            p1 = (rd.f64(), rd.f64(), rd.int(), rd.scalar())
        ok1 = rd.int(); x1 = rdv(); cnt1 = rd.int()
        pts = []
        for _ in range(cnt1):
            if kind == "sysjac":
                tag = rd.int(); pts.append((tag, rd.vec()))
            else:
                pts.append(rdv())
        if kind == "scalar":
            p2 = (rd.f64(), rd.f64(), rd.int(), rd.scalar())
        ok2 = rd.int(); x2 = rdv(); cnt2 = rd.int()
        if rd.more(): raise StreamError("trailing items")
    except StreamError as e:
        return "malformed newton answer: %s" % e
    # ---- configuration untouched, repeated calls identical
    if kind == "scalar":
        if not (beq(p1[0], p2[0]) and beq(p1[1], p2[1]) and p1[2] == p2[2] and beq(p1[3], p2[3])):
            return "parameters() changed across solve: before %r after %r" % (p1, p2)
        if not beq(p1[3], meta["guess"]) or p1[2] != iters or not beq(p1[0], tol) or not beq(p1[1], delta):
            return "parameters() = %r does not echo the configuration (tol %r, delta %r, max_iter %r, guess %r)" % (p1, tol, delta, iters, meta["guess"])
    if ok1 != ok2 or not beq(x1, x2) or cnt1 != cnt2:
        return "two successive calls differ: first (%s %r, %d calls), second (%s %r, %d calls)" % ("Ok" if ok1 else "Err", x1, cnt1, "Ok" if ok2 else "Err", x2, cnt2)
    # ---- bounded work
    if cnt1 > per * iters:
        return "%d closure calls with max_iter = %d: more than %d per pass" % (cnt1, iters, per)
    if cnt1 % per != 0:
        return "%d closure calls is not a whole number of passes of %d calls" % (cnt1, per)
    K = cnt1 // per
    if iters == 0:
        if ok1 or not beq(x1, meta["guess"]):
            return "max_iter = 0 must give Err(guess); got %s %r" % ("Ok" if ok1 else "Err", x1)
        return None
    if not ok1 and K != iters:
        return "Err after %d passes although max_iter = %d: failure reported before the iteration limit" % (K, iters)
    if ok1 and K == 0:
        return "Ok without a single pass"
    # ---- iterates: the centre of each pass
    cs = []
    for k in range(K):
        ch = pts[k * per:(k + 1) * per]
        if kind == "scalar":
            if not all(finite(v) for v in ch):
                # inf / NaN iterate: current, current + delta and current - delta coincide
                cs.append(ch[0] if (beq(ch[0], ch[1]) and beq(ch[1], ch[2])) else None); continue
            cs.append(centre3(ch))
        elif kind == "sysjac":
            tags = sorted(t for t, _ in ch)
            if tags != [0, 1]:
                return "pass %d: expected one call of func and one of jac, got tags %r" % (k, tags)
            if not beq(ch[0][1], ch[1][1]):
                return "pass %d: func and jac called at different points %r / %r" % (k, ch[0][1], ch[1][1])
            cs.append(ch[0][1])
        else:
            dup = None
            for a in range(len(ch)):
                for b in range(a + 1, len(ch)):
                    if beq(ch[a], ch[b]): dup = ch[a]
            if dup is None:
                return "pass %d: the current point is not evaluated twice (func(current) and the Jacobian's base point): %r" % (k, ch)
            cs.append(dup)
    if cs and cs[0] is not None and not beq(cs[0], meta["guess"]):
        return "the first pass is not centred at the guess: %r vs %r" % (cs[0], meta["guess"])
    # ---- user function in python
    if kind == "scalar":
        f1 = builtin1(meta["builtin"]) if meta.get("builtin") else (lambda t: F.ev(meta["fn"], [t]))
        def newton_step(c):
            d = complex(delta, 0.0) if elt == 'cplx' else delta
            fp, fm = f1(c + d), f1(c - d)
            deriv = (fp - fm) / (2.0 * delta)
            try: dx = f1(c) / deriv
            except ZeroDivisionError: return None, None, 1.0
            # cancellation in the difference quotient amplifies the (libm-level) rounding of f
            ampl = (abs(fp) + abs(fm)) / abs(fp - fm) if fp != fm else math.inf
            return c - dx, dx, ampl
        def stop_value(c, nxt):     # |dx| with dx = c - next
            return abs(c - nxt)
    else:
        fv = builtinv(meta["builtin"]) if meta.get("builtin") else (lambda t: F.evv(meta["fns"], t))
        def stop_value(c, nxt):     # ||f(c)||_inf as Vector::norm_inf computes it (first |.|, then strict < updates)
            v = fv(c)
            r = abs(v[0])
            for t in v[1:]:
                if r < abs(t): r = abs(t)
            return r
        def newton_step(c):
            import numpy as np
            dt = complex if elt == 'cplx' else float
            f0 = np.array(fv(c), dtype=dt)
            if len(f0) != n or n == 0: return None, None, 1.0
            if kind == "sysjac":
                J = np.array([[F.ev(meta["jac"][2][i * n + j], c) for j in range(n)] for i in range(n)], dtype=dt)
            else:
                J = np.zeros((n, n), dtype=dt)
                for j in range(n):
                    cj = list(c); cj[j] = cj[j] + delta
                    J[:, j] = (np.array(fv(cj), dtype=dt) - f0) / delta
            if not (np.all(np.isfinite(J)) and np.all(np.isfinite(f0))): return None, None, 1.0
            try:
                if np.linalg.cond(J) > 1e7: return None, None, 1.0
                dx = np.linalg.solve(J, f0)
            except Exception:
                return None, None, 1.0
            return [dt(a - b) for a, b in zip(c, dx)], [dt(v) for v in dx], 1.0
    # ---- stopping test replayed on the recorded iterates
    seq = cs + [x1]
    for k in range(K):
        c, nxt = seq[k], seq[k + 1]
        last = (k == K - 1)
        if c is None or nxt is None: continue
        try:
            sv = stop_value(c, nxt)
        except Exception:
            continue
        if sv != sv:
            # a NaN test value never satisfies `<= tol`: success cannot be reported at this pass
            if ok1 and last:
                return ("Ok(%r) at pass %d although the stopping test value there is NaN (iterate %r): a NaN step is not convergence"
                        % (x1, K, c))
            continue
        if not allfinite(c) or not allfinite(nxt):
            if ok1 and last and kind == "scalar":
                return "Ok(%r) at pass %d although the step from %r is not finite" % (x1, K, c)
            continue
        slack = 4 * (ulp(nrm(c)) + ulp(nrm(nxt))) if kind == "scalar" else 1e-12 * sv
        if not ok1 or not last:
            # the test must have failed here (otherwise the loop would have returned Ok at this pass)
            if sv + slack < tol * (1 - 1e-9):
                return ("%s although the stopping test held at pass %d of %d: test value %g <= tol %g (iterate %r)"
                        % ("Err" if not ok1 else "Ok only later", k + 1, K, sv, tol, c))
        else:
            if sv - slack > tol * (1 + 1e-9):
                return "Ok at pass %d although the stopping test fails there: test value %g > tol %g (iterate %r)" % (K, sv, tol, c)
    # ---- the returned value is the Newton update of the last centre ("Err carries the last iterate")
    c = cs[-1]
    if c is not None and allfinite(c):
        try:
            ref, dx, ampl = newton_step(c)
        except (OverflowError, ValueError, ZeroDivisionError):
            ref = None
        # a step through an almost-zero derivative amplifies rounding: only compare well-conditioned steps
        if ref is not None and allfinite(ref) and allfinite(dx) and nrm(dx) < 1e6 * (1 + nrm(c)):
            if not allfinite(x1):
                # the last centre and its recomputed update are finite (families whose step is legitimately NaN / infinite
                # have a non-finite reference and are not judged here)
                return ("%s(%r) is not finite although the last iterate %r and its Newton update %r are: the value returned is "
                        "not the last iterate" % ("Ok" if ok1 else "Err", x1, c, ref))
            scale = nrm(c) + nrm(dx)
            rel = (1e-9 + 1e-14 * ampl) if kind == "scalar" else 1e-6
            if not (nrm(vsub(x1, ref)) <= rel * scale + 1e-300):
                return ("%s(%r) is not the Newton update %r of the last iterate %r: the value returned is not the last iterate"
                        % ("Ok" if ok1 else "Err", x1, ref, c))
    # ---- specB: in the known-root families EVERY recorded iterate is the Newton update of its predecessor (the clause above looks at
    # the last pass only, where the step is tiny and a wrong step solver hides inside the tolerance)
    if meta.get("expect_ok") and (meta.get("roots") or meta.get("root0") is not None):
        for k in range(K - 1):
            c, nxt = seq[k], seq[k + 1]
            if c is None or nxt is None or not allfinite(c): continue
            try:
                ref, dx, ampl = newton_step(c)
            except (OverflowError, ValueError, ZeroDivisionError):
                continue
            if ref is None or not allfinite(ref) or not allfinite(dx) or not (nrm(dx) < 1e6 * (1 + nrm(c))): continue
            if not allfinite(nxt):
                return ("pass %d of %d: the iterate %r is not finite although its predecessor %r and the Newton update %r of it are"
                        % (k + 1, K, nxt, c, ref))
            scale = nrm(c) + nrm(dx)
            rel = (1e-9 + 1e-14 * ampl) if kind == "scalar" else 1e-6
            if not (nrm(vsub(nxt, ref)) <= rel * scale + 1e-300):
                return ("pass %d of %d: the iterate %r is not the Newton update %r of its predecessor %r"
                        % (k + 1, K, nxt, ref, c))
    # ---- success means a root
    if ok1:
        roots = meta.get("roots")
        if roots is None and kind == "scalar" and meta.get("expect_ok") and not meta.get("builtin"):
            roots = [r[0] for r in [refine_root([meta["fn"]], [x1], elt)]]
            roots = [complex(roots[0]) if elt == 'cplx' else float(roots[0])]
        # specB: a point that is not finite is not a root (NaN compares false with every bound below; the refinement cannot start there)
        if (roots or meta.get("root0") is not None) and not allfinite(x1):
            return "Ok(%r): the point reported as a root of a function with known simple roots is not finite" % (x1,)
        if kind == "scalar" and roots:
            d = min(abs(x1 - r) for r in roots)
            bound = 100 * tol + 16 * ulp(abs(x1))
            if d > bound:
                return "Ok(%r) but the nearest root of the function is at distance %g > 100*tol = %g" % (x1, d, 100 * tol)
        if kind != "scalar" and (meta.get("root0") is not None):
            rr = refine_root(meta["fns"], x1, elt)
            d = max(abs(complex(a) - complex(b)) for a, b in zip(x1, rr)) if n else 0.0
            if d > 100 * tol + 16 * ulp(nrm(x1)):
                return "Ok(%r) but the root of the system (refined in 40 digits: %r) is at distance %g > 100*tol = %g" % (x1, [complex(v) for v in rr], d, 100 * tol)
        if kind != "scalar" and meta.get("refine"):
            r = nrm(fv(x1))
            if not (r <= 100 * tol * 8 + 1e-12):
                return "Ok(%r) but the residual there is %g" % (x1, r)
    # ---- inside the basin, with enough iterations, success must be reported
    if meta.get("expect_ok") and not ok1 and iters >= meta.get("need", 20):
        return ("Err(%r) after %d passes from a guess inside the basin of a simple root (tol %g, delta %g): success must be reported"
                % (x1, K, tol, delta))
    return None
