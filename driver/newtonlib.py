# driver/newtonlib.py -- shared by c17.py / c18.py: reading the executor's decoded answer stream,
# AST helpers (symbolic derivative, magnitude bound) and float utilities.
import math
from fractions import Fraction
from common import *
import fnlib as F

class StreamError(Exception):
    pass

class Reader:
    """sequential reader over the decoded items [('i', n) | ('f', bits) | ('P', cls) ...]"""
    def __init__(self, items, elt):
        self.items, self.pos, self.elt = items, 0, elt
    def more(self):
        return self.pos < len(self.items)
    def _next(self, kind):
        if self.pos >= len(self.items):
            raise StreamError("answer ends early (wanted %s at item %d)" % (kind, self.pos))
        it = self.items[self.pos]
        if it[0] != kind:
            raise StreamError("item %d is %r, wanted %s" % (self.pos, it, kind))
        self.pos += 1
        return it
    def int(self):
        return self._next('i')[1]
    def f64(self):
        return bits_f64(self._next('f')[1])
    def scalar(self):
        if self.elt == 'cplx':
            a = self.f64(); b = self.f64()
            return complex(a, b)
        return self.f64()
    def vec(self):
        n = self.int()
        return [self.scalar() for _ in range(n)]
    def mat(self):
        r = self.int(); c = self.int()
        return r, c, [self.scalar() for _ in range(r * c)]

def panic_of(items):
    for it in items:
        if it[0] == 'P':
            return it[1]
    return None

def ulp(x):
    x = abs(x)
    if x != x or x == math.inf: return math.inf
    return math.ulp(x)

def same_bits(a, b):
    if isinstance(a, complex) or isinstance(b, complex):
        a = complex(a); b = complex(b)
        return f64_bits(a.real) == f64_bits(b.real) and f64_bits(a.imag) == f64_bits(b.imag)
    return f64_bits(a) == f64_bits(b)

def finite(x):
    if isinstance(x, complex):
        return math.isfinite(x.real) and math.isfinite(x.imag)
    return math.isfinite(x)

# ---------------------------------------------------------------- AST calculus (for the oracles)
def is_zero(e):
    return e[0] == 'c' and e[1] == 0

def diff(e, j, elt):
    """symbolic partial derivative d e / d x_j as an AST (no simplification beyond zeros)"""
    k = e[0]
    zero = F.lit(elt, 0.0); one = F.lit(elt, 1.0)
    if k == 'v': return one if e[1] == j else zero
    if k == 'c': return zero
    if k == 'neg':
        d = diff(e[1], j, elt)
        return zero if is_zero(d) else F.neg(d)
    a, b = e[1], e[2]
    da, db = diff(a, j, elt), diff(b, j, elt)
    if k in '+-':
        if is_zero(db): return da
        if is_zero(da): return db if k == '+' else F.neg(db)
        return (k, da, db)
    if k == '*':
        t1 = None if is_zero(da) else F.mul(da, b)
        t2 = None if is_zero(db) else F.mul(a, db)
        if t1 is None and t2 is None: return zero
        if t1 is None: return t2
        if t2 is None: return t1
        return F.add(t1, t2)
    if k == '/':
        # (a/b)' = a'/b - a b'/b^2
        t1 = None if is_zero(da) else F.div(da, b)
        t2 = None if is_zero(db) else F.div(F.mul(a, db), F.mul(b, b))
        if t1 is None and t2 is None: return zero
        if t1 is None: return F.neg(t2)
        if t2 is None: return t1
        return F.sub(t1, t2)
    raise ValueError(k)

def absval(e, xs):
    """sum of magnitudes met while evaluating e (bounds the rounding error of a float evaluation by
    about depth * eps * absval)"""
    k = e[0]
    if k == 'v': return abs(xs[e[1]])
    if k == 'c': return abs(e[1])
    if k == 'neg': return absval(e[1], xs)
    a = absval(e[1], xs); b = absval(e[2], xs)
    if k in '+-': return a + b
    if k == '*': return a * b
    if k == '/':
        d = abs(F.ev(e[2], xs))
        return a / d if d != 0 else math.inf
    raise ValueError(k)

def depth(e):
    if e[0] in 'vc': return 1
    if e[0] == 'neg': return depth(e[1])
    return 1 + max(depth(e[1]), depth(e[2]))

def dy(rng, lo, hi, den):
    """a dyadic value k/den in [lo, hi]"""
    return rng.range(int(lo * den), int(hi * den)) / float(den)

def affine_exprs(elt, M, c, m, n):
    """f_i = ((c_i + M_i0*x_0) + M_i1*x_1) + ...   (row-major M)"""
    es = []
    for i in range(m):
        e = F.lit(elt, c[i])
        for j in range(n):
            e = F.add(e, F.mul(F.lit(elt, M[i * n + j]), F.V(j)))
        es.append(e)
    return es
