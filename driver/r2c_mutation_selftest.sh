#!/bin/bash
# Mutation self-test of the source->Gallina tie (driver/rust2coq.py + Proofs/SrcEq*.v).
# usage: driver/r2c_mutation_selftest.sh   (uses the scratch worktree $R2C_SCRATCH, default /tmp/wt/r2c-repo; never touches /repo)
cd "$(dirname "$0")/.."
SCR=${R2C_SCRATCH:-/tmp/wt/r2c-repo}
export VERIF_REPO=$SCR
regen() { (cd driver && python3-vt -c "
import translate
ch, errors = translate.regenerate_all()
for k, v in sorted(errors.items()): print('TieBroken', k, ':', v)
" 2>&1 | grep -v conda | tail -3); }
# mutate <label> <file> <perl substitution> <module> <expect: FAIL:<lemma> | PASS>
mutate() {
  label=$1; file=$2; subst=$3; mod=$4; expect=$5
  git -C $SCR checkout -q -- .
  perl -0pi -e "$subst" $SCR/$file
  if git -C $SCR diff --quiet; then echo "[$label] MUTATION DID NOT APPLY"; return; fi
  out=$(regen)
  changed=$(cd coq && git status --porcelain gen/ | grep -c "gen/Src")
  res=$(cd coq && timeout 900 make Proofs/SrcEq$mod.vo 2>&1 | grep -v conda)
  if echo "$res" | grep -q "Error"; then
    line=$(echo "$res" | grep -o 'line [0-9]*' | head -1 | cut -d' ' -f2)
    lemma=$(head -n $line coq/Proofs/SrcEq$mod.v | grep -o 'Lemma [A-Za-z0-9_]*' | tail -1)
    verdict="FAIL:${lemma#Lemma }"
  else verdict="PASS"; fi
  # a fragment the translator refuses is not rewritten; the check run reports it for every property that depends on it
  if [ -n "$out" ] && echo "$out" | grep -q TieBroken; then verdict="TIEBROKEN [$(echo "$out" | tail -1)]"; fi
  ok="ok"; case "$verdict" in "$expect"*) ;; *) ok="UNEXPECTED (expected $expect)";; esac
  echo "[$label] regenerated files changed: $changed ; make Proofs/SrcEq$mod.vo -> $verdict  $ok"
  git -C $SCR checkout -q -- .
}
mutate "loop bound: gauss inner loop k+1.. -> k.."        src/matrix/solve.rs 's/for i in k\+1\.\.self\.rows \{/for i in k..self.rows {/' Solve FAIL:src_gauss_with_pivot
mutate "index expr: backsolve self[(k,j)] -> self[(j,k)]" src/matrix/solve.rs 's/x\[ k \] -= self\[\(k,j\)\] \* xj;/x[ k ] -= self[(j,k)] * xj;/' Solve FAIL:src_backsolve
mutate "statement order: lu swap after elimination test"  src/matrix/solve.rs 's/(\s*if imax != i \{.*?pivots \+= 1;\s*\}\s*)(if max_a == T::zero\(\) \{ continue; \}[^\n]*\n)/$2$1/s' Solve FAIL:src_lu_decomp_in_place
mutate "operator: inverse -= -> +="                       src/matrix/solve.rs 's/inv\[\(i,j\)\] -= lu\[\(i,k\)\] \* inv_kj;(\s*\}\s*\}\s*for i in \(0)/inv[(i,j)] += lu[(i,k)] * inv_kj;$1/s' Solve FAIL:src_inverse
mutate "loop bound: dot 0..size -> 1..size"               src/vector/functions.rs 's/(Vector sizes do not agree dot.*?for i in )0\.\./${1}1../s' Vector FAIL:src_dot
mutate "operator: vector sub_assign -= -> +="             src/vector/arithmetic.rs 's/self\.vec\[i\] -= rhs\.vec\[i\]\.clone\(\);/self.vec[i] += rhs.vec[i].clone();/' Vector FAIL:src_vsub_assign
mutate "guard: set_col cols<=col -> rows<=col"            src/matrix/operations.rs 's/if self\.cols <= col \{ panic!\( "Matrix range error in set_col"/if self.rows <= col { panic!( "Matrix range error in set_col"/' Matrix FAIL:src_set_col
mutate "index expr: transpose swap (j,i) -> (i,j)"        src/matrix/operations.rs 's/mem::swap\( &mut self\[\(j,i\)\], &mut temp \);/mem::swap( &mut self[(i,j)], &mut temp );/' Matrix FAIL:src_transpose_in_place
mutate "operator: matrix add + -> -"                      src/matrix/arithmetic.rs 's/result\[\(i,j\)\] = self\[\(i,j\)\] \+ plus\[\(i,j\)\];/result[(i,j)] = self[(i,j)] - plus[(i,j)];/' MatArith FAIL:src_madd
mutate "loop bound: poly add 0..=degree -> 0..degree"      src/polynomial/arithmetic.rs 's/(sum\.coeffs = vec!\[ T::zero\(\); degree \+ 1 \];\s*for i in 0\.\.)=degree/${1}degree/s' Poly FAIL:src_padd
mutate "operator: poly mul product += -> product -="      src/polynomial/arithmetic.rs 's/(product\.coeffs\[ i \+ j \] = product\.coeffs\[ i \+ j \]) \+ self/$1 - self/' Poly FAIL:src_pmul
mutate "while: polydiv count > MAX -> count >= MAX"       src/polynomial/arithmetic.rs 's/if count > MAX \{/if count >= MAX {/' Poly FAIL:src_polydiv
mutate "statement removed: polydiv leading-term repair"   src/polynomial/arithmetic.rs 's/r\.coeffs\[ lead \] = T::zero\(\);[^\n]*\n/\n/' Poly FAIL:src_polydiv
mutate "while condition: trim i > 0 -> i > 1"             src/polynomial/mod.rs 's/(== T::zero\(\) && i > )0/${1}1/' Poly FAIL:src_ptrim
mutate "early return: sparse get tests row only"          src/sparse.rs 's/if \( self\.row_index\[ k \] == row \) && \( col_index\[ k \] == col \) \{\s*return Some/if ( self.row_index[ k ] == row ) {\n                return Some/' Sparse FAIL:src_sp_get
mutate "index expr: sparse multiply col_start[j+1] -> [j]" src/sparse.rs 's/(let xj = x\[ j \];\s*for k in self\.col_start\[ j \]\.\.self\.col_start\[ j) \+ 1 \]/$1 ]/s' Sparse FAIL:src_sp_mul
mutate "index expr: thomas c_temp[j-1] -> c_temp[j]"      src/tridiagonal.rs 's/gamma\[j\] = c_temp\[j - 1\] \/ beta;/gamma[j] = c_temp[j] \/ beta;/' Tridiag FAIL:src_tsolve
mutate "pivot rule: banded abs() comparison -> signed"    src/banded.rs 's/if au\[\(j, 0\)\]\.abs\(\) > dum\.abs\(\) \{/if au[(j, 0)] > dum {/' Banded FAIL:src_decompose
mutate "statement order: banded swap before index store"  src/banded.rs 's/(index\[ k \] = i \+ 1;\s*)(.*?)(if i != k \{.*?\}\s*\}\s*)(for i in k \+ 1\.\.l)/$3$1$2$4/s' Banded FAIL:src_decompose
mutate "unsupported construct: iterator sum in norm_1"    src/vector/functions.rs 's/let mut result = T::zero\(\);\s*for i in 0\.\.self\.size\(\) \{\s*result \+= self\.vec\[i\]\.abs\(\);\s*\}\s*result/self.vec.iter().fold( T::zero(), |a, x| a + x.abs() )/' Vector TIEBROKEN
mutate "harmless: rename local xj -> xjj in backsolve"    src/matrix/solve.rs 's/let xj = x\[ j \];\s*x\[ k \] -= self\[\(k,j\)\] \* xj;/let xjj = x[ j ];\n                x[ k ] -= self[(k,j)] * xjj;/' Solve PASS
mutate "harmless: rename local result -> acc in dot"      src/vector/functions.rs 's/let mut result: T = T::zero\(\);\s*for i in 0\.\.self\.size\(\) \{\s*result \+= self\.vec\[i\] \* w\.vec\[i\];\s*\}\s*result/let mut acc: T = T::zero();\n        for i in 0..self.size() {\n            acc += self.vec[i] * w.vec[i];\n        }\n        acc/' Vector PASS
# restore the regenerated files from the unmodified scratch tree
regen; (cd coq && timeout 900 make -j4 Proofs/SrcEqVector.vo Proofs/SrcEqMatrix.vo Proofs/SrcEqMatArith.vo Proofs/SrcEqSolve.vo Proofs/SrcEqPoly.vo Proofs/SrcEqTridiag.vo Proofs/SrcEqBanded.vo Proofs/SrcEqSparse.vo 2>&1 | grep -E "Error" ); echo "restored: $(cd coq && git status --porcelain gen/ | wc -l) regenerated files differ from the committed ones"
