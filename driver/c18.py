# C18 -- the finite-difference Jacobian is m x n, its entries are the forward difference quotients,
# it is exact on affine maps, and each coordinate is restored before the next is perturbed.
import math
from fractions import Fraction
from common import *
from engine import Case
import fnlib as F
from newtonlib import *

PID = "C18"
IMPORTS = "From OV Require Import Base.FnAst Model.Vector Model.Matrix Model.Newton Model.NewtonRun."
MODEL_VO = ["Model/NewtonRun.vo"]
EXHAUSTIVE = False
RULE = ("newton.jac cases (Mat64::jacobian and Matrix::<Cmplx>::jacobian_cmplx): (a) affine maps x -> Mx + c for EVERY shape "
        "1 <= m, n <= 6 (m < n and m > n included) on dyadic data, points in [-4,4]^n, delta = 2^-k (k = 4..26, where every "
        "operation is exact) and delta = 1e-8; (b) smooth polynomial/rational maps with symbolically known derivatives; "
        "(c) degenerate shapes m = 0 / n = 0; f64 and Complex<f64>; user functions are ASTs shared with the Gallina model; "
        "(d) special structure (specB): complex points entirely on the real axis / entirely on the imaginary axis / every coordinate on an "
        "axis or one of 0, +-1, +-i, with general, purely real, purely imaginary and unit coefficients (function values purely real or purely "
        "imaginary); coordinates -delta, +delta, -2 delta, 0 (perturb and restore pass through exact zero), all coordinates equal, "
        "coordinates at the ends +-4; affine maps whose matrix is a (rectangular) identity, a permutation, all +-1 / +-i, has zero ROWS "
        "(constant components) or a single entry; "
        "compared: shape, entries, number and SEQUENCE of call points (a NaN / infinite entry or call point is a failure wherever the reference "
        "value is finite: every comparison has the form not (err <= tol)); distinct = distinct executor line; non-trivial = m, n >= 1")
TRUSTED = ["Coq 8.16.1 kernel + vm_compute (primitive floats)", "Rust executor /verif/harness (k_newton.rs, fnast.rs)",
           "python driver (generators, AST printers fnlib.py, symbolic-derivative oracle, comparators)",
           "hand-written Gallina model coq/Model/Newton.v (jacobian) on coq/Model/Matrix.v (set_col), tied to src/matrix/functions.rs by differential execution"]
ASSUMPTIONS = ["Rust semantics of Vec/usize/closures as modelled; the closure passed to jacobian is a pure function of its argument",
               "-0.0 is not restored by `state[j] += d; state[j] -= d` (it comes back as +0.0), so the exactness theorems exclude entries equal to -0.0; harmless unless the closure inspects the sign of zero"]
UNPROVED = ["proved: truncation (jacobian_truncation(_C)); exactness at binary64 on dyadic data with explicit bounds (jacobian_affine_exact_float, _cfirst_ for the generator's evaluation order, _C for Gaussian-dyadic data): the matrix is M bit for bit and every coordinate is restored; restoration drift (restore_drift(_float), jacobian_call_points_drift(_float)), the rounding floor (jacobian_rounding_floor, jacobian_entry_floor_float) and jacobian_total_error(_float) = truncation + floor + drift, with fd_optimal_step. NOT proved: a complex total-error statement (the pieces exist), and relative (rather than absolute) data errors in the complex floor"]

MANIFEST = dict(
    text=("Theorems for every m, n >= 0, every function and every arithmetic about the Gallina model of Mat64::jacobian / "
          "jacobian_cmplx (coq/Props/C18.v): jacobian_shape -- a total map with m components yields, without panic, a well-formed m x n "
          "matrix and n+1 calls (needs the repaired set_col; the legacy setter is refuted at a map R^3 -> R^1, Legacy/C18Refuted.v); "
          "jacobian_calls -- over a ring the closure is called exactly at x, x+d e_0, .., x+d e_{n-1}, every coordinate restored; "
          "jacobian_entry -- entry (i,j) is the forward quotient (f_i(x+d e_j) - f_i(x))/d; jacobian_affine -- over a field the "
          "Jacobian of x -> Mx + c is the record M itself (d <> 0). The float instance of the "
          "same definition is run against the implementation (shape, entries, call sequence; bit-compared) on affine maps of every "
          "shape 1..6 x 1..6 with dyadic data and on smooth maps, f64 and Complex, including axis-aligned complex points and coefficients, "
          "coordinates that perturb/restore drive through exact zero, equal coordinates and special matrices (identity, permutation, +-1, "
          "zero rows); an independent oracle (exactness on dyadic affine "
          "data, symbolic derivatives, restore discipline) searches for a failing input."),
    note="Truncation, rounding floor and restoration drift are theorems (standard rounding model and binary64 under finiteness / no-underflow hypotheses); exactness on dyadic data is a theorem with explicit bounds; the search checks the same on the implementation.",
    technique="Coq proof over an abstract ring/field + model/implementation differential execution (vm_compute on primitive floats vs Rust executor)",
    design="7 (C18)")

EPS = 2.0 ** -52

def dyval(rng, elt, lo, hi, den):
    if elt == 'cplx':
        return complex(dy(rng, lo, hi, den), dy(rng, lo, hi, den))
    return dy(rng, lo, hi, den)

def mk(elt, point, delta, es, meta, family, nontrivial=True):
    line = "newton.jac %s %s %s" % (tok_vec(elt, point), tok_scalar('f64', delta), F.tok_fns(elt, es))
    fn = "run_jac_f" if elt == 'f64' else "run_jac_c"
    term = "%s %s %s %s" % (fn, coq_vec(elt, point), coq_float(delta), F.coq_fns(elt, es))
    meta = dict(meta)
    meta.update({"point": point, "delta": delta, "fns": es, "m": len(es), "n": len(point)})
    return Case(elt, line, term, meta=meta, family=family, nontrivial=nontrivial, tol=1e-9)

def affine_case(rng, elt, m, n, delta, dyadic, family):
    M = [dyval(rng, elt, -4, 4, 8) for _ in range(m * n)]
    c = [dyval(rng, elt, -4, 4, 8) for _ in range(m)]
    x = [dyval(rng, elt, -4, 4, 16) for _ in range(n)]
    es = affine_exprs(elt, M, c, m, n)
    return mk(elt, x, delta, es, {"kind": "affine", "M": M, "c": c, "dyadic": dyadic}, family, nontrivial=(m >= 1 and n >= 1))

def smooth_exprs(rng, elt, m, n):
    """f_i = sum_j (a x_j + b x_j^2 [+ c x_j^3]) + d x_p x_q [+ e / (x_p*x_p + 3)]"""
    es = []
    for i in range(m):
        e = F.lit(elt, dyval(rng, elt, -2, 2, 4))
        for j in range(n):
            t = F.mul(F.lit(elt, dyval(rng, elt, -2, 2, 4)), F.V(j))
            if rng.chance(2, 3):
                t = F.add(t, F.mul(F.lit(elt, dyval(rng, elt, -1, 1, 4)), F.mul(F.V(j), F.V(j))))
            if rng.chance(1, 3):
                t = F.add(t, F.mul(F.lit(elt, dyval(rng, elt, -1, 1, 8)), F.mul(F.V(j), F.mul(F.V(j), F.V(j)))))
            e = F.add(e, t)
        if n >= 1 and rng.chance(2, 3):
            p, q = rng.below(n), rng.below(n)
            e = F.add(e, F.mul(F.lit(elt, dyval(rng, elt, -1, 1, 4)), F.mul(F.V(p), F.V(q))))
        if n >= 1 and elt == 'f64' and rng.chance(1, 3):
            p = rng.below(n)
            e = F.add(e, F.div(F.lit(elt, dy(rng, -2, 2, 4)), F.add(F.mul(F.V(p), F.V(p)), F.lit(elt, 3.0))))
        es.append(e)
    return es

def sparse_exprs(rng, elt, m, n):
    """structurally sparse maps: each component is a sum of 1..3 monomials of degree 1..3 in randomly chosen
    variables, so that some variables are absent from some or all components (zero entries / zero columns)"""
    es = []
    for i in range(m):
        e = None
        for _ in range(rng.range(1, 3)):
            t = F.lit(elt, dyval(rng, elt, -2, 2, 4))
            for _ in range(rng.range(1, 3)):
                t = F.mul(t, F.V(rng.below(n)))
            e = t if e is None else F.add(e, t)
        es.append(e)
    return es

def sparse_point(rng, elt, n):
    """dyadic coordinates, zero with probability 1/3 (a product x_p*x_q is then insensitive to x_p)"""
    zero = complex(0.0, 0.0) if elt == 'cplx' else 0.0
    return [zero if rng.chance(1, 3) else dyval(rng, elt, -4, 4, 16) for _ in range(n)]

def gen_delta(rng, which):
    if which == "dec": return 1e-8
    return 2.0 ** -rng.range(4, 26)

# ---------------------------------------------------------------- specB: special STRUCTURE of points, coefficients and maps
def affine_with(elt, M, c, x, delta, family, m, n):
    es = affine_exprs(elt, M, c, m, n)
    return mk(elt, x, delta, es, {"kind": "affine", "M": M, "c": c, "dyadic": True}, family, nontrivial=(m >= 1 and n >= 1))

def axis_value(rng, cls):
    """a Gaussian-dyadic complex number on an axis: 'real' (imaginary part exactly 0), 'imag' (real part exactly 0), 'unit'
    (one of 0, 1, -1, i, -i), 'mixed' (one of the three at random)"""
    if cls == 'mixed': cls = ['real', 'imag', 'unit'][rng.below(3)]
    if cls == 'unit': return [0j, 1 + 0j, -1 + 0j, 1j, -1j][rng.below(5)]
    v = dy(rng, -4, 4, 16)
    if v == 0: v = 0.5
    return complex(v, 0.0) if cls == 'real' else complex(0.0, v)

def zero_cross_coord(rng, elt, delta):
    """a coordinate that the perturb/restore pair drives THROUGH exact zero: x_j = -delta (perturbed value exactly 0), +delta,
    0, -2 delta; complex: the same in the real part with a zero or non-zero imaginary part"""
    re = [-delta, -delta, delta, 0.0, -2 * delta][rng.below(5)]
    if elt == 'f64': return re
    im = [0.0, 0.0, dy(rng, -4, 4, 16), dy(rng, -4, 4, 16)][rng.below(4)]
    return complex(re, im)

def special_matrix(rng, elt, m, n, which):
    """'eye' (rectangular identity), 'perm' (a permutation of the rectangular identity's columns), 'signs' (every entry +-1, for
    complex +-1 / +-i), 'zero-rows' (dyadic entries, some components constant: exact zero ROWS), 'single' (one non-zero entry)"""
    one = complex(1.0, 0.0) if elt == 'cplx' else 1.0
    zero = 0.0 * one
    M = [zero] * (m * n)
    if which in ('eye', 'perm'):
        cols = list(range(n)) if which == 'eye' else rng.shuffle(list(range(n)))
        for i in range(min(m, n)): M[i * n + cols[i]] = one
    elif which == 'signs':
        units = [one, -one] + ([1j * one, -1j * one] if elt == 'cplx' else [])
        M = [units[rng.below(len(units))] for _ in range(m * n)]
    elif which == 'zero-rows':
        M = [dyval(rng, elt, -4, 4, 8) for _ in range(m * n)]
        dead = [i for i in range(m) if rng.chance(1, 2)] or [rng.below(m)]
        for i in dead:
            for j in range(n): M[i * n + j] = zero
    else:
        M[rng.below(m) * n + rng.below(n)] = dyval(rng, elt, 1, 4, 8)
    return M

def gen_special(rng, tier):
    cases = []
    q = (tier == "quick")
    # (1) complex points on the axes x coefficient classes: purely real points with complex coefficients, purely imaginary points,
    # mixed axes / units; coefficients general or axis-aligned (function values then purely real / purely imaginary)
    g = rng.fork("axis")
    for t in range(48 if q else 240):
        m, n = g.range(1, 4), g.range(1, 4)
        pcls = ['real', 'imag', 'mixed', 'real'][t % 4]
        ccls = ['general', 'imag', 'real', 'mixed'][(t // 4) % 4]
        x = [axis_value(g, pcls) for _ in range(n)]
        delta = gen_delta(g, "dy") if t % 6 else 1e-8
        if t % 3 != 2:
            coef = (lambda: dyval(g, 'cplx', -4, 4, 8)) if ccls == 'general' else (lambda: axis_value(g, ccls))
            M = [coef() for _ in range(m * n)]; c = [coef() for _ in range(m)]
            es = affine_exprs('cplx', M, c, m, n)
            dyad = (math.frexp(delta)[0] == 0.5)
            cases.append(mk('cplx', x, delta, es, {"kind": "affine", "M": M, "c": c, "dyadic": dyad}, "axis-affine-%s-point-%s-coef" % (pcls, ccls)))
        else:
            es = smooth_exprs(g, 'cplx', m, n) if t % 2 else sparse_exprs(g, 'cplx', m, max(n, 2))
            if t % 2 == 0 and n < 2: x = x + [axis_value(g, pcls)]
            cases.append(mk('cplx', x, delta, es, {"kind": "smooth"}, "axis-smooth-%s-point" % pcls))
    # (2) coordinates driven through exact zero by perturb / restore; equal coordinates; coordinates at the ends +-4 and at +-1
    g = rng.fork("zero-cross")
    for t in range(36 if q else 180):
        elt = 'f64' if t % 3 != 2 else 'cplx'
        m, n = g.range(1, 4), g.range(1, 5)
        delta = gen_delta(g, "dy")
        cls = ["zero-cross", "zero-cross", "equal", "ends"][t % 4]
        if cls == "zero-cross":
            x = [zero_cross_coord(g, elt, delta) if (g.chance(1, 2) or j == t % n) else dyval(g, elt, -4, 4, 16) for j in range(n)]
        elif cls == "equal":
            v = dyval(g, elt, -4, 4, 16); x = [v] * n
        else:
            pool = [4.0, -4.0, 1.0, -1.0, 0.0]
            x = [(complex(pool[g.below(5)], pool[g.below(5)]) if elt == 'cplx' else pool[g.below(5)]) for _ in range(n)]
        if t % 5 != 4:
            M = [dyval(g, elt, -4, 4, 8) for _ in range(m * n)]; c = [dyval(g, elt, -4, 4, 8) for _ in range(m)]
            cases.append(affine_with(elt, M, c, x, delta, "point-%s-affine-%s" % (cls, elt), m, n))
        else:
            cases.append(mk(elt, x, delta, smooth_exprs(g, elt, m, n), {"kind": "smooth"}, "point-%s-smooth-%s" % (cls, elt)))
    # (3) special matrices: identity / permutation / +-1 (+-i) entries / constant components (zero rows) / a single entry
    g = rng.fork("special-M")
    kinds = ['eye', 'perm', 'signs', 'zero-rows', 'single']
    for t in range(30 if q else 120):
        elt = 'f64' if t % 2 == 0 else 'cplx'
        which = kinds[t % 5]
        m, n = g.range(1, 6), g.range(1, 6)
        M = special_matrix(g, elt, m, n, which)
        zero = complex(0.0, 0.0) if elt == 'cplx' else 0.0
        c = [zero if g.chance(1, 2) else dyval(g, elt, -4, 4, 8) for _ in range(m)]
        x = [dyval(g, elt, -4, 4, 16) for _ in range(n)]
        cases.append(affine_with(elt, M, c, x, gen_delta(g, "dy"), "matrix-%s-%s" % (which, elt), m, n))
    return cases

def generate(rng, tier):
    cases = []
    reps = 2 if tier == "quick" else 8
    g = rng.fork("affine")
    for elt in ('f64', 'cplx'):
        for m in range(1, 7):
            for n in range(1, 7):
                for r in range(reps if (tier != "quick" or m * n <= 12) else 1):
                    cases.append(affine_case(g, elt, m, n, gen_delta(g, "dy"), True, "affine-dyadic-" + elt))
                cases.append(affine_case(g, elt, m, n, 1e-8, False, "affine-1e-8-" + elt))
    # every dyadic step k = 4..26 at a few shapes
    for k in range(4, 27):
        m, n = g.range(1, 6), g.range(1, 6)
        cases.append(affine_case(g, 'f64' if k % 2 == 0 else 'cplx', m, n, 2.0 ** -k, True, "affine-all-steps"))
    g = rng.fork("smooth")
    ns = 60 if tier == "quick" else 500
    for t in range(ns):
        elt = 'f64' if t % 3 != 2 else 'cplx'
        m, n = g.range(1, 6), g.range(1, 6)
        es = smooth_exprs(g, elt, m, n)
        x = [dyval(g, elt, -4, 4, 16) if g.chance(1, 2) else (dyval(g, elt, -4, 4, 16) + (g.unit() - 0.5) * 0.1) for _ in range(n)]
        delta = gen_delta(g, "dec" if g.chance(1, 4) else "dy")
        cases.append(mk(elt, x, delta, es, {"kind": "smooth"}, "smooth-" + elt))
    # structurally sparse Jacobians: absent variables, zero columns, products at points with zero coordinates
    g = rng.fork("sparse")
    for t in range(80 if tier == "quick" else 600):
        elt = 'f64' if t % 3 != 2 else 'cplx'
        m, n = g.range(1, 4), g.range(2, 6)
        if t % 4 == 0:      # affine with zeroed columns / entries
            c = affine_case(g, elt, m, n, gen_delta(g, "dy"), True, "affine-sparse-" + elt)
            M = list(c.meta["M"]); zero = 0.0 * M[0]
            for j in range(n):
                if g.chance(1, 3):
                    for i in range(m): M[i * n + j] = zero
            es = affine_exprs(elt, M, c.meta["c"], m, n)
            cases.append(mk(elt, c.meta["point"], c.meta["delta"], es, {"kind": "affine", "M": M, "c": c.meta["c"], "dyadic": True}, "affine-sparse-" + elt))
        else:
            es = sparse_exprs(g, elt, m, n)
            cases.append(mk(elt, sparse_point(g, elt, n), gen_delta(g, "dec" if g.chance(1, 5) else "dy"), es, {"kind": "smooth"}, "smooth-sparse-" + elt))
    # degenerate shapes: no unknowns / no components
    g = rng.fork("edge")
    for elt in ('f64', 'cplx'):
        for m in range(0, 4):
            cases.append(affine_case(g, elt, m, 0, 2.0 ** -8, True, "edge-n0"))
        for n in range(1, 4):
            cases.append(affine_case(g, elt, 0, n, 2.0 ** -8, True, "edge-m0"))
    # specB: axis-aligned complex data, coordinates driven through zero, special matrices
    cases += gen_special(rng.fork("specB"), tier)
    # spread heavy (6 x 6 complex) and light cases evenly over the model shards
    return rng.fork("order").shuffle(cases)

def case_from_json(j):
    elt = j["elt"]
    meta = j["meta"]
    conv = (lambda v: complex(float.fromhex(v["re"]), float.fromhex(v["im"]))) if elt == 'cplx' else (lambda v: float.fromhex(v) if isinstance(v, str) else float(v))
    point = [conv(v) for v in meta["point"]]
    delta = float.fromhex(meta["delta"]) if isinstance(meta["delta"], str) else float(meta["delta"])
    es = [F.from_json(e) for e in meta["fns"]]
    m2 = {"kind": meta.get("kind", "smooth")}
    if m2["kind"] == "affine":
        m2["M"] = [conv(v) for v in meta["M"]]; m2["c"] = [conv(v) for v in meta["c"]]; m2["dyadic"] = bool(meta.get("dyadic"))
    return mk(elt, point, delta, es, m2, "corpus")

def _abs(z):
    return abs(z)

def oracle(case, items):
    meta, elt = case.meta, case.elt
    m, n, x, delta, es = meta["m"], meta["n"], meta["point"], meta["delta"], meta["fns"]
    pc = panic_of(items)
    if pc:
        return "jacobian of a total map R^%d -> R^%d panicked (%s): the property demands an %dx%d matrix for every m, n" % (n, m, pc, m, n)
    try:
        rd = Reader(items, elt)
        r, c, J = rd.mat()
        cnt = rd.int()
        pts = [rd.vec() for _ in range(cnt)]
        if rd.more(): raise StreamError("trailing items")
    except StreamError as e:
        return "malformed jacobian answer: %s" % e
    if (r, c) != (m, n):
        return "Jacobian of a map R^%d -> R^%d has shape %dx%d, expected %dx%d" % (n, m, r, c, m, n)
    # ---- call sequence: x, x + delta e_0, ..., x + delta e_{n-1}; each coordinate restored
    if cnt != n + 1:
        return "closure called %d times, expected n + 1 = %d" % (cnt, n + 1)
    if len(pts[0]) != n or any(not same_bits(a, b) for a, b in zip(pts[0], x)):
        return "first call is not at the point x: %r vs %r" % (pts[0], x)
    dyadic = (math.frexp(delta)[0] == 0.5)
    dd = complex(delta, 0.0) if elt == 'cplx' else delta
    for j in range(n):
        p = pts[j + 1]
        if len(p) != n:
            return "call %d has %d coordinates, expected %d" % (j + 1, len(p), n)
        want = x[j] + dd
        if not same_bits(p[j], want) and not (_abs(p[j] - want) <= 2 * ulp(_abs(want))):     # NaN / inf call points are rejected
            return "call %d: coordinate %d is %r, expected x_j + delta = %r" % (j + 1, j, p[j], want)
        for i in range(n):
            if i == j: continue
            slack = 0.0 if i > j else 2 * ulp(_abs(x[i]) + delta)     # i < j: restored (x+d)-d may drift by an ulp
            if meta.get("kind") == "affine" and meta.get("dyadic") and dyadic: slack = 0.0
            if not (_abs(p[i] - x[i]) <= slack):
                return ("call %d (perturbing coordinate %d): coordinate %d is %r, expected %r -- a coordinate was not restored "
                        "before the next one was perturbed" % (j + 1, j, i, p[i], x[i]))
    # ---- entries are the forward quotients of the recorded calls
    f0 = F.evv(es, pts[0]) if n + 1 == cnt else None
    for j in range(n):
        fj = F.evv(es, pts[j + 1])
        for i in range(m):
            want = (fj[i] - f0[i]) / dd
            got = J[i * n + j]
            if not finite(want):
                continue                    # the quotient itself overflows / is undefined: nothing is stated
            if not finite(got):
                return "entry (%d,%d) = %r is not finite although the forward quotient (f_i(x + delta e_j) - f_i(x)) / delta = %r is" % (i, j, got, want)
            tol = 1e-11 * (_abs(fj[i]) + _abs(f0[i])) / delta + 1e-300
            if not (_abs(got - want) <= tol):
                return "entry (%d,%d) = %r is not the forward quotient (f_i(x + delta e_j) - f_i(x)) / delta = %r" % (i, j, got, want)
    # ---- exact on affine maps; O(delta) on smooth maps
    if meta.get("kind") == "affine":
        M = meta["M"]
        for i in range(m):
            for j in range(n):
                got, want = J[i * n + j], M[i * n + j]
                if meta.get("dyadic") and dyadic:
                    if not (finite(got) and got == want):
                        return "affine map on dyadic data, delta = 2^%d: entry (%d,%d) = %r, expected exactly %r" % (math.frexp(delta)[1] - 1, i, j, got, want)
                else:
                    av = absval(es[i], [abs(t) + delta for t in x])
                    if not finite(got) or not (_abs(got - want) <= 16 * depth(es[i]) * EPS * av / delta):
                        return "affine map: entry (%d,%d) = %r differs from %r by more than rounding" % (i, j, got, want)
    else:
        for i in range(m):
            for j in range(n):
                d1 = diff(es[i], j, elt); d2 = diff(d1, j, elt)
                want = F.ev(d1, x)
                xs2 = list(x); xs2[j] = x[j] + dd
                curv = max(_abs(F.ev(d2, x)), _abs(F.ev(d2, xs2)))
                av = absval(es[i], [abs(t) + delta for t in x])
                bound = delta * curv + 16 * depth(es[i]) * EPS * av / delta + 1e-300
                got = J[i * n + j]
                # a non-finite entry whose forward quotient is finite was reported above; a non-finite bound (pole of f'' in the
                # cell) states nothing
                if finite(want) and finite(got) and finite(bound) and not (_abs(got - want) <= bound):
                    return ("smooth map: entry (%d,%d) = %r is not within delta*max|f''| + rounding = %g of the analytic derivative %r"
                            % (i, j, got, bound, want))
    return None
