# driver/r2c_table.py -- the tables of the Rust -> Gallina translator (driver/rust2coq.py):
#   which Rust methods / paths / operators map to which functions of the hand-written models, and the list of
#   translated functions per module (source anchor, Gallina name, how the result tuple is assembled).
#
# METHODS[(receiver type, method, number of args)] = dict(g=<format: {0}=receiver, {1}..=args>, ret=<type>,
#     fallible=<the model function returns `res`>, out=[...] for mutating methods: what the model function returns
#     ('recv' = new value of the receiver, 'argN' = new value of the N-th argument (a `&mut` operand), 'ret' = the value),
#     args=[expected argument types] (None = any))

METHODS = {
    ("vec", "size", 0): dict(g="length {0}", ret="usize"),
    ("vec", "len", 0): dict(g="length {0}", ret="usize"),
    ("elem", "abs", 0): dict(g="abs {0}", ret="elem"),
    ("mat", "rows", 0): dict(g="rows {0}", ret="usize"),
    ("mat", "cols", 0): dict(g="cols {0}", ret="usize"),
    # model functions (Model/Vector.v)
    ("vec", "dot", 1): dict(g="dot {0} {1}", ret="elem", fallible=True, args=["vec"]),
    ("vec", "sum_slice", 2): dict(g="sum_slice {0} {1} {2}", ret="elem", fallible=True, args=["usize", "usize"]),
    ("vec", "product_slice", 2): dict(g="product_slice {0} {1} {2}", ret="elem", fallible=True, args=["usize", "usize"]),
    ("vec", "swap", 2): dict(g="vswap {0} {1} {2}", ret="unit", fallible=True, out=["recv"], args=["usize", "usize"]),
    ("vec", "push", 1): dict(g="{0} ++ [{1}]", ret="unit", out=["recv"], args=["elem"]),
    ("vec", "drain", 1): dict(g="drain {0} {1} {2}", ret="unit", fallible=True, out=["recv"], args=["range"]),
    # model functions (Model/Matrix.v)
    ("mat", "get_row", 1): dict(g="get_row {0} {1}", ret="vec", fallible=True, args=["usize"]),
    ("mat", "get_col", 1): dict(g="get_col {0} {1}", ret="vec", fallible=True, args=["usize"]),
    ("mat", "set_row", 2): dict(g="set_row {0} {1} {2}", ret="unit", fallible=True, out=["recv"], args=["usize", "vec"]),
    ("mat", "set_col", 2): dict(g="set_col {0} {1} {2}", ret="unit", fallible=True, out=["recv"], args=["usize", "vec"]),
    ("mat", "multiply", 1): dict(g="multiply {0} {1}", ret="vec", fallible=True, args=["vec"]),
    ("mat", "swap_rows", 2): dict(g="swap_rows {0} {1} {2}", ret="unit", fallible=True, out=["recv"], args=["usize", "usize"]),
    ("mat", "swap_elem", 4): dict(g="swap_elem {0} {1} {2} {3} {4}", ret="unit", fallible=True, out=["recv"], args=["usize"] * 4),
    ("mat", "transpose_in_place", 0): dict(g="transpose_in_place {0}", ret="unit", fallible=True, out=["recv"]),
    ("mat", "fill_band", 2): dict(g="fill_band {0} {1} {2}", ret="unit", fallible=True, out=["recv"], args=["isize", "elem"]),
    ("mat", "fill_diag", 1): dict(g="fill_diag {0} {1}", ret="unit", fallible=True, out=["recv"], args=["elem"]),
    # model functions (Model/Solve.v)
    ("mat", "max_abs_in_column", 2): dict(g="max_abs_in_column {0} {1} {2}", ret="usize", fallible=True, args=["usize", "usize"]),
    ("mat", "partial_pivot", 2): dict(g="partial_pivot {0} {1} {2}", ret="unit", fallible=True, out=["recv", "arg0"], args=["vec", "usize"]),
    ("mat", "gauss_with_pivot", 1): dict(g="gauss_with_pivot {0} {1}", ret="unit", fallible=True, out=["recv", "arg0"], args=["vec"]),
    ("mat", "backsolve", 1): dict(g="backsolve {0} {1}", ret="unit", fallible=True, out=["arg0"], args=["vec"]),
    ("mat", "lu_decomp_in_place", 0): dict(g="lu_decomp {0}", ret=("tuple", ["usize", "mat"]), fallible=True, out=["recv", "ret"]),
}

METHODS.update({
    # Model/Poly.v
    ("poly", "degree", 0): dict(g="pdegree {0}", ret=("opt", "usize")),
    ("poly", "size", 0): dict(g="length {0}", ret="usize"),
    ("poly", "eval", 1): dict(g="peval {0} {1}", ret="elem", fallible=True, args=["elem"]),
    ("poly", "derivative", 0): dict(g="pderiv {0}", ret="poly", fallible=True),
    ("poly", "derivative_n", 1): dict(g="pderiv_n {0} {1}", ret="poly", fallible=True, args=["usize"]),
    ("index", "poly"): dict(g="pindex {0} {1}", ret="elem", fallible=True),
    ("poly", "is_zero", 0): dict(g="is_zero {0}", ret="bool"),
    ("poly", "trim", 0): dict(g="ptrim {0}", ret="unit", fallible=True, out=["recv"]),
    ("vec", "pop", 0): dict(g="removelast {0}", ret="unit", out=["recv"]),
})

# PATHS[(path, number of args)]
PATHS = {
    ("T::zero", 0): dict(g="(@zero A)", ret="elem", atom=True),
    ("T::one", 0): dict(g="(@one A)", ret="elem", atom=True),
    ("Zero::zero", 0): dict(g="(@zero A)", ret="elem", atom=True),
    ("One::one", 0): dict(g="(@one A)", ret="elem", atom=True),
    ("Vector::new", 2): [dict(g="repeat {1} {0}", ret="vec", args=["usize", "elem"]),
                         dict(g="repeat {1} {0}", ret="vecn", args=["usize", "usize"])],
    ("std::cmp::min", 2): [dict(g="Z.min {0} {1}", ret="isize", args=["isize", "isize"]), dict(g="Nat.min {0} {1}", ret="usize", args=["usize", "usize"])],
    ("std::cmp::max", 2): [dict(g="Z.max {0} {1}", ret="isize", args=["isize", "isize"]), dict(g="Nat.max {0} {1}", ret="usize", args=["usize", "usize"])],
    ("Matrix::empty", 0): dict(g="(@mat_empty A)", ret="mat", atom=True),
    ("Vector::empty", 0): dict(g="(@nil (T A))", ret="vec", atom=True),
    ("Vec::new", 0): dict(g="(@nil (T A))", ret="vec", atom=True),
    ("Vec::with_capacity", 1): dict(g="(@nil (T A))", ret="vec", atom=True, args=["usize"]),
    ("Vector::create", 1): dict(g="{0}", ret="vec", atom=True, args=["vec"]),
    ("Self::Output::create", 1): dict(g="{0}", ret="vec", atom=True, args=["vec"]),
    ("Self::create", 1): dict(g="{0}", ret="vec", atom=True, args=["vec"]),
    ("Matrix::new", 3): dict(g="mat_new {0} {1} {2}", ret="mat", args=["usize", "usize", "elem"]),
    ("Matrix::eye", 1): dict(g="eye {0}", ret="mat", fallible=True, args=["usize"]),
    ("Polynomial::empty", 0): dict(g="(@nil (T A))", ret="poly", atom=True),
    ("Polynomial::new", 1): dict(g="{0}", ret="poly", atom=True, args=["vec"]),
    ("mem::swap", 2): dict(special="swap"),
    ("std::mem::swap", 2): dict(special="swap"),
}

# operators between non-scalar operands
BINOPS = {
    ("*", "mat", "vec"): dict(g="multiply {0} {1}", ret="vec", fallible=True),
    ("+", "poly", "poly"): dict(g="padd {0} {1}", ret="poly"),
    ("-", "poly", "poly"): dict(g="psub {0} {1}", ret="poly"),
    ("*", "poly", "poly"): dict(g="pmul {0} {1}", ret="poly"),
    ("*", "poly", "elem"): dict(g="pscale {0} {1}", ret="poly"),
}
BINOPS.update({
    ("+", "vec", "vec"): dict(g="vadd {0} {1}", ret="vec", fallible=True),
    ("-", "vec", "vec"): dict(g="vsub {0} {1}", ret="vec", fallible=True),
    ("*", "vec", "elem"): dict(g="vscale {0} {1}", ret="vec"),
    ("*", "elem", "vec"): dict(g="vscale_l {0} {1}", ret="vec"),
    ("/", "vec", "elem"): dict(g="vdiv {0} {1}", ret="vec", fallible=True),
})
UNOPS = {("-", "poly"): dict(g="pneg {0}", ret="poly"), ("-", "vec"): dict(g="vneg {0}", ret="vec")}
# overloaded compound assignments between non-scalar operands: (op, type of the place, type of the right operand)
ASSIGNOPS = {
    ("+=", "vec", "vec"): dict(g="vadd_assign {0} {1}", ret="vec", fallible=True),
    ("-=", "vec", "vec"): dict(g="vsub_assign {0} {1}", ret="vec", fallible=True),
    ("+=", "vec", "elem"): dict(g="vadd_scalar {0} {1}", ret="vec"),
    ("-=", "vec", "elem"): dict(g="vsub_scalar {0} {1}", ret="vec"),
    ("*=", "vec", "elem"): dict(g="vmul_scalar {0} {1}", ret="vec"),
    ("/=", "vec", "elem"): dict(g="vdiv_scalar {0} {1}", ret="vec", fallible=True),
}

# FIELDS[(type, field)] = (format of the read, type);  SETFIELDS[(type, field)] = format of the updated owner ({0}=owner, {1}=value)
FIELDS = {
    ("vec", "vec"): ("{0}", "vec"),
    ("mat", "mat"): ("(buf {0})", "vec"),
    ("mat", "rows"): ("(rows {0})", "usize"),
    ("mat", "cols"): ("(cols {0})", "usize"),
    ("poly", "coeffs"): ("{0}", "vec"),
}
SETFIELDS = {
    ("vec", "vec"): "{1}",
    ("mat", "mat"): "(mkM {1} (rows {0}) (cols {0}))",
    ("mat", "rows"): "(mkM (buf {0}) {1} (cols {0}))",
    ("mat", "cols"): "(mkM (buf {0}) (rows {0}) {1})",
    ("poly", "coeffs"): "{1}",
}
STRUCTS = {
    "Vector": (["vec"], "{0}", "vec"),
    "Matrix": (["mat", "rows", "cols"], "(mkM {0} {1} {2})", "mat"),
}
# `x.m()?` : the value that stands for the propagated Err (a Gallina term of the function's result type, or `Panic k` as a
# poison value where the error type of the callee has no counterpart in the model: the equality lemma then has to show
# that the case is unreachable)
TRY_ERR = {("poly", "degree"): "Panic Unwrap"}
CONSTS = {"None": ("None", ("opt", "any")), "true": ("true", "bool"), "false": ("false", "bool")}

# ---------------------------------------------------------------------------------------------------- translated functions
# name: Gallina name is s_<name>;  file/impl/fn: the source anchor (impl = regex over the whitespace-free impl header);
# result: how the value of s_<name> is assembled (default: the `&mut` operands in order, then the return value)
V_FUN, V_ARI = "src/vector/functions.rs", "src/vector/arithmetic.rs"
M_OPS, M_ARI, M_SOL = "src/matrix/operations.rs", "src/matrix/arithmetic.rs", "src/matrix/solve.rs"
MODULES = {
    "Vector": dict(
        imports="From OV Require Import Base.Panic Base.Arith Model.Vector gen.SrcPrelude.",
        funcs=[
            dict(name="dot", file=V_FUN, impl=r"^<T:Copy\+Number>Vector<T>$", fn="dot"),
            dict(name="sum", file=V_FUN, impl=r"^<T:Copy\+Number>Vector<T>$", fn="sum"),
            dict(name="sum_slice", file=V_FUN, impl=r"^<T:Copy\+Number>Vector<T>$", fn="sum_slice"),
            dict(name="product", file=V_FUN, impl=r"^<T:Copy\+Number>Vector<T>$", fn="product"),
            dict(name="product_slice", file=V_FUN, impl=r"^<T:Copy\+Number>Vector<T>$", fn="product_slice"),
            dict(name="vabs", file=V_FUN, impl=r"^<T:Clone\+Signed\+Number>Vector<T>$", fn="abs"),
            dict(name="norm_1", file=V_FUN, impl=r"^<T:Clone\+Signed\+Number>Vector<T>$", fn="norm_1"),
            dict(name="assign", file=V_FUN, impl=r"^<T:Copy>Vector<T>$", fn="assign"),
            dict(name="vneg", file=V_ARI, impl=r"Neg for Vector<T>$".replace(" ", ""), fn="neg"),
            dict(name="vadd", file=V_ARI, impl=r"Add<&Vector<T>>for&Vector<T>$", fn="add"),
            dict(name="vsub", file=V_ARI, impl=r"Sub<&Vector<T>>for&Vector<T>$", fn="sub"),
            dict(name="vscale", file=V_ARI, impl=r"Mul<T>forVector<T>$", fn="mul"),
            dict(name="vscale_l", file=V_ARI, impl=r"^Mul<Vector<f64>>forf64$", fn="mul"),
            dict(name="vdiv", file=V_ARI, impl=r"Div<T>forVector<T>$", fn="div"),
            dict(name="vadd_assign", file=V_ARI, impl=r"^<T:Clone\+Number>AddAssignforVector<T>$", fn="add_assign"),
            dict(name="vsub_assign", file=V_ARI, impl=r"^<T:Clone\+Number>SubAssignforVector<T>$", fn="sub_assign"),
            dict(name="vadd_scalar", file=V_ARI, impl=r"AddAssign<T>forVector<T>$", fn="add_assign"),
            dict(name="vsub_scalar", file=V_ARI, impl=r"SubAssign<T>forVector<T>$", fn="sub_assign"),
            dict(name="vmul_scalar", file=V_ARI, impl=r"MulAssign<T>forVector<T>$", fn="mul_assign"),
            dict(name="vdiv_scalar", file=V_ARI, impl=r"DivAssign<T>forVector<T>$", fn="div_assign"),
        ]),
}

MAT_IMPL = r"^<T:Clone\+Copy\+Number>Matrix<T>$"
SOL_IMPL = r"^<T:Clone\+Copy\+Number\+Signed\+std::cmp::PartialOrd>Matrix<T>$"
MODULES["Matrix"] = dict(
    imports="From OV Require Import Base.Panic Base.Arith Model.Vector Model.Matrix gen.SrcPrelude.",
    funcs=[dict(name=n, file=M_OPS, impl=MAT_IMPL, fn=n) for n in
           ["get_row", "get_col", "set_row", "set_col", "delete_row", "multiply", "eye", "resize", "transpose_in_place",
            "transpose", "swap_rows", "swap_elem", "fill", "fill_diag", "fill_band", "fill_tridiag", "fill_row", "fill_col"]])
MODULES["Matrix"]["funcs"] += [
    dict(name="mat_new", file="src/matrix/mod.rs", impl=r"^<T:Clone\+Number>Matrix<T>$", fn="new"),
    dict(name="numel", file="src/matrix/mod.rs", impl=r"^<T>Matrix<T>$", fn="numel"),
    dict(name="mindex", file=M_OPS, impl=r"Index<\(usize,usize\)>forMatrix<T>$", fn="index"),
    dict(name="mclear", file=M_OPS, impl=r"^<T>Matrix<T>$", fn="clear"),
]
METHODS[("vec", "clear", 0)] = dict(g="(@nil (T A))", ret="unit", out=["recv"], atom=True)
MODULES["Solve"] = dict(
    imports="From OV Require Import Base.Panic Base.Arith Model.Vector Model.Matrix Model.Solve gen.SrcPrelude.",
    funcs=[
        dict(name="max_abs_in_column", file=M_SOL, impl=SOL_IMPL, fn="max_abs_in_column"),
        dict(name="backsolve", file=M_SOL, impl=SOL_IMPL, fn="backsolve"),
        dict(name="partial_pivot", file=M_SOL, impl=SOL_IMPL, fn="partial_pivot"),
        dict(name="gauss_with_pivot", file=M_SOL, impl=SOL_IMPL, fn="gauss_with_pivot"),
        dict(name="solve_basic", file=M_SOL, impl=SOL_IMPL, fn="solve_basic", result=["ret"]),
        dict(name="lu_decomp_in_place", file=M_SOL, impl=SOL_IMPL, fn="lu_decomp_in_place", result=["self", "ret.0", "ret.1"]),
        dict(name="solve_lu", file=M_SOL, impl=SOL_IMPL, fn="solve_lu", result=["ret"]),
        dict(name="determinant", file=M_SOL, impl=SOL_IMPL, fn="determinant"),
        dict(name="inverse", file=M_SOL, impl=SOL_IMPL, fn="inverse"),
    ])

MODULES["MatArith"] = dict(
    imports="From OV Require Import Base.Panic Base.Arith Model.Vector Model.Matrix gen.SrcPrelude.",
    funcs=[
        dict(name="mneg", file=M_ARI, impl=r"Negfor&Matrix<T>$", fn="neg"),
        dict(name="madd", file=M_ARI, impl=r"Add<&Matrix<T>>for&Matrix<T>$", fn="add"),
        dict(name="msub", file=M_ARI, impl=r"Sub<&Matrix<T>>for&Matrix<T>$", fn="sub"),
        dict(name="mscale", file=M_ARI, impl=r"Mul<T>for&Matrix<T>$", fn="mul"),
        dict(name="mscale_l", file=M_ARI, impl=r"^Mul<Matrix<f64>>forf64$", fn="mul"),
        dict(name="mdiv", file=M_ARI, impl=r"Div<T>for&Matrix<T>$", fn="div"),
        dict(name="madd_assign", file=M_ARI, impl=r"AddAssign<&Matrix<T>>forMatrix<T>$", fn="add_assign"),
        dict(name="msub_assign", file=M_ARI, impl=r"SubAssign<&Matrix<T>>forMatrix<T>$", fn="sub_assign"),
        dict(name="mmul_assign_scalar", file=M_ARI, impl=r"MulAssign<T>forMatrix<T>$", fn="mul_assign"),
        dict(name="mdiv_assign_scalar", file=M_ARI, impl=r"DivAssign<T>forMatrix<T>$", fn="div_assign"),
        dict(name="madd_assign_scalar", file=M_ARI, impl=r"AddAssign<T>forMatrix<T>$", fn="add_assign"),
        dict(name="msub_assign_scalar", file=M_ARI, impl=r"SubAssign<T>forMatrix<T>$", fn="sub_assign"),
        dict(name="mat_mul", file=M_ARI, impl=r"Mul<&Matrix<T>>for&Matrix<T>$", fn="mul"),
        dict(name="mat_vec_mul", file=M_ARI, impl=r"Mul<&Vector<T>>for&Matrix<T>$", fn="mul"),
    ])

P_MOD, P_ARI = "src/polynomial/mod.rs", "src/polynomial/arithmetic.rs"
MODULES["Poly"] = dict(
    imports="From OV Require Import Base.Panic Base.Arith Model.Poly gen.SrcPrelude.",
    funcs=[
        dict(name="is_zero", file=P_MOD, impl=r"^<T>Polynomial<T>$", fn="is_zero"),
        dict(name="peval", file=P_MOD, impl=r"^<T>Polynomial<T>$", fn="eval"),
        dict(name="pderiv", file=P_MOD, impl=r"^<T:Clone\+Copy\+Zero\+Mul<Output=T>\+Add<Output=T>>Polynomial<T>$", fn="derivative"),
        dict(name="pderiv_n", file=P_MOD, impl=r"^<T:Clone\+Copy\+Zero\+Mul<Output=T>\+Add<Output=T>>Polynomial<T>$", fn="derivative_n"),
        dict(name="pderiv_at", file=P_MOD, impl=r"^<T:Clone\+Copy\+Zero\+Mul<Output=T>\+Add<Output=T>>Polynomial<T>$", fn="derivative_at"),
        dict(name="padd", file=P_ARI, impl=r"Add<&Polynomial<T>>for&Polynomial<T>$", fn="add"),
        dict(name="pneg", file=P_ARI, impl=r"Negfor&Polynomial<T>$", fn="neg"),
        dict(name="psub", file=P_ARI, impl=r"Sub<&Polynomial<T>>for&Polynomial<T>$", fn="sub"),
        dict(name="pmul", file=P_ARI, impl=r"Mul<&Polynomial<T>>for&Polynomial<T>$", fn="mul"),
        dict(name="pscale", file=P_ARI, impl=r"Mul<T>for&Polynomial<T>$", fn="mul"),
        dict(name="ptrim", file=P_MOD, impl=r"^<T>Polynomial<T>$", fn="trim",
             **{"while": {1: dict(fuel="(length {self})", on_exhaust="Panic Guard")}}),
        dict(name="polydiv", file=P_ARI, impl=r"^<T:Copy\+Clone\+Number\+Signed\+std::fmt::Debug>Polynomial<T>$", fn="polydiv",
             result_sum=dict(type="pderr", errors=[(r"divide by zero", "EZeroDiv"), (r"exceeded maximum iterations", "EMaxIter")]),
             **{"while": {1: dict(fuel="(S {MAX})", on_exhaust="(inr EMaxIter)")}}),
    ])

# ---------------------------------------------------------------------------------------------------- Tridiagonal (Model/Tridiag.v)
GTYPES = {"tri": "(tridiag A)"}
RUST_TYPES = [(r"^Tridiagonal<(T|f64)>$", "tri")]
FIELDS.update({("tri", "sub"): ("(tsub {0})", "vec"), ("tri", "main"): ("(tmain {0})", "vec"),
               ("tri", "sup"): ("(tsup {0})", "vec"), ("tri", "n"): ("(tn {0})", "usize")})
SETFIELDS.update({("tri", "sub"): "(mkT {1} (tmain {0}) (tsup {0}) (tn {0}))", ("tri", "main"): "(mkT (tsub {0}) {1} (tsup {0}) (tn {0}))",
                  ("tri", "sup"): "(mkT (tsub {0}) (tmain {0}) {1} (tn {0}))", ("tri", "n"): "(mkT (tsub {0}) (tmain {0}) (tsup {0}) {1})"})
STRUCTS["Tridiagonal"] = (["sub", "main", "sup", "n"], "(mkT {0} {1} {2} {3})", "tri")
METHODS.update({
    ("tri", "size", 0): dict(g="tsize {0}", ret="usize"),
    ("tri", "transpose_in_place", 0): dict(g="ttranspose_in_place {0}", ret="unit", out=["recv"]),
    ("vec", "push_front", 1): dict(g="vpush_front {0} {1}", ret="unit", out=["recv"], args=["elem"]),
})
TRI = "src/tridiagonal.rs"
TRI_T = r"^<T>Tridiagonal<T>$"
TRI_N = r"^<T:Clone\+Copy\+Zero\+Number>Tridiagonal<T>$"
MODULES["Tridiag"] = dict(
    imports="From OV Require Import Base.Panic Base.Arith Model.Vector Model.Matrix Model.Tridiag gen.SrcPrelude.",
    funcs=[
        dict(name="with_vectors", file=TRI, impl=TRI_T, fn="with_vectors"),
        dict(name="with_vecs", file=TRI, impl=TRI_T, fn="with_vecs"),
        dict(name="tnew", file=TRI, impl=TRI_N, fn="new"),
        dict(name="with_elements", file=TRI, impl=TRI_N, fn="with_elements"),
        dict(name="tresize", file=TRI, impl=TRI_N, fn="resize"),
        dict(name="ttranspose_in_place", file=TRI, impl=TRI_N, fn="transpose_in_place"),
        dict(name="ttranspose", file=TRI, impl=TRI_N, fn="transpose"),
        dict(name="tdet", file=TRI, impl=TRI_N, fn="det"),
        dict(name="tconvert", file=TRI, impl=TRI_N, fn="convert"),
        dict(name="tsolve", file=TRI, impl=TRI_N, fn="solve"),
        dict(name="tindex", file=TRI, impl=r"Index<\(usize,usize\)>forTridiagonal<T>$", fn="index"),
        dict(name="tneg", file=TRI, impl=r"NegforTridiagonal<T>$", fn="neg"),
        dict(name="tadd", file=TRI, impl=r"Add<Tridiagonal<T>>forTridiagonal<T>$", fn="add"),
        dict(name="tminus", file=TRI, impl=r"Sub<Tridiagonal<T>>forTridiagonal<T>$", fn="sub"),
        dict(name="tscale", file=TRI, impl=r"Mul<T>forTridiagonal<T>$", fn="mul"),
        dict(name="tscale_l", file=TRI, impl=r"^Mul<Tridiagonal<f64>>forf64$", fn="mul"),
        dict(name="tdiv", file=TRI, impl=r"Div<T>forTridiagonal<T>$", fn="div"),
        dict(name="tadd_assign_s", file=TRI, impl=r"AddAssign<T>forTridiagonal<T>$", fn="add_assign"),
        dict(name="tsub_assign_s", file=TRI, impl=r"SubAssign<T>forTridiagonal<T>$", fn="sub_assign"),
        dict(name="tmul_assign_s", file=TRI, impl=r"MulAssign<T>forTridiagonal<T>$", fn="mul_assign"),
        dict(name="tdiv_assign_s", file=TRI, impl=r"DivAssign<T>forTridiagonal<T>$", fn="div_assign"),
        dict(name="tmul", file=TRI, impl=r"Mul<&Vector<T>>for&Tridiagonal<T>$", fn="mul"),
    ])

# ---------------------------------------------------------------------------------------------------- Banded (Model/Banded.v)
GTYPES["band"] = "(banded A)"
RUST_TYPES.append((r"^Banded<(T|f64)>$", "band"))
FIELDS.update({("band", "n"): ("(bn {0})", "usize"), ("band", "m1"): ("(bm1 {0})", "usize"), ("band", "m2"): ("(bm2 {0})", "usize"),
               ("band", "compact"): ("(compact {0})", "mat")})
SETFIELDS.update({("band", "n"): "(mkB {1} (bm1 {0}) (bm2 {0}) (compact {0}))", ("band", "m1"): "(mkB (bn {0}) {1} (bm2 {0}) (compact {0}))",
                  ("band", "m2"): "(mkB (bn {0}) (bm1 {0}) {1} (compact {0}))", ("band", "compact"): "(mkB (bn {0}) (bm1 {0}) (bm2 {0}) {1})"})
STRUCTS["Banded"] = (["n", "m1", "m2", "compact"], "(mkB {0} {1} {2} {3})", "band")
METHODS.update({
    ("mat", "fill", 1): dict(g="fill {0} {1}", ret="unit", fallible=True, out=["recv"], args=["elem"]),
    ("mat", "resize", 2): dict(g="resize {0} {1} {2}", ret="unit", fallible=True, out=["recv"], args=["usize", "usize"]),
    ("mat", "fill_col", 2): dict(g="fill_col {0} {1} {2}", ret="unit", fallible=True, out=["recv"], args=["usize", "elem"]),
    ("band", "decompose", 4): dict(g="decompose_gen false {0} {1} {2} {3}", ret="unit", fallible=True, out=["arg0", "arg1", "arg2", "arg3"],
                                   args=["mat", "mat", "vecn", "elem"]),
})
BINOPS.update({
    ("+", "mat", "mat"): dict(g="madd {0} {1}", ret="mat", fallible=True),
    ("-", "mat", "mat"): dict(g="msub {0} {1}", ret="mat", fallible=True),
    ("*", "mat", "elem"): dict(g="mscale {0} {1}", ret="mat", fallible=True),
    ("/", "mat", "elem"): dict(g="mdiv {0} {1}", ret="mat", fallible=True),
})
UNOPS[("-", "mat")] = dict(g="mneg {0}", ret="mat", fallible=True)
ASSIGNOPS.update({
    ("+=", "mat", "mat"): dict(g="madd_assign {0} {1}", ret="mat", fallible=True),
    ("-=", "mat", "mat"): dict(g="msub_assign {0} {1}", ret="mat", fallible=True),
    ("*=", "mat", "elem"): dict(g="mmul_assign_scalar {0} {1}", ret="mat", fallible=True),
    ("/=", "mat", "elem"): dict(g="mdiv_assign_scalar {0} {1}", ret="mat", fallible=True),
    ("+=", "mat", "elem"): dict(g="madd_assign_scalar {0} {1}", ret="mat", fallible=True),
    ("-=", "mat", "elem"): dict(g="msub_assign_scalar {0} {1}", ret="mat", fallible=True),
})
BND = "src/banded.rs"
BND_N = r"^<T:Clone\+Copy\+Number\+PartialOrd\+Signed>Banded<T>$"
MODULES["Banded"] = dict(
    imports="From OV Require Import Base.Panic Base.Arith Model.Vector Model.Matrix Model.Banded gen.SrcPrelude.",
    funcs=[
        dict(name="band_new", file=BND, impl=BND_N, fn="new"),
        dict(name="band_fill", file=BND, impl=BND_N, fn="fill"),
        dict(name="band_resize", file=BND, impl=BND_N, fn="resize"),
        dict(name="band_fill_band", file=BND, impl=BND_N, fn="fill_band"),
        dict(name="decompose", file=BND, impl=BND_N, fn="decompose"),
        dict(name="band_det", file=BND, impl=BND_N, fn="det"),
        dict(name="band_solve", file=BND, impl=BND_N, fn="solve"),
        dict(name="band_get", file=BND, impl=r"Index<\(usize,usize\)>forBanded<T>$", fn="index"),
        dict(name="band_neg", file=BND, impl=r"Negfor&Banded<T>$", fn="neg"),
        dict(name="band_add", file=BND, impl=r"Add<&Banded<T>>for&Banded<T>$", fn="add"),
        dict(name="band_sub", file=BND, impl=r"Sub<&Banded<T>>for&Banded<T>$", fn="sub"),
        dict(name="band_scale", file=BND, impl=r"Mul<T>for&Banded<T>$", fn="mul"),
        dict(name="band_div", file=BND, impl=r"Div<T>for&Banded<T>$", fn="div"),
        dict(name="band_add_assign", file=BND, impl=r"AddAssign<&Banded<T>>forBanded<T>$", fn="add_assign"),
        dict(name="band_sub_assign", file=BND, impl=r"SubAssign<&Banded<T>>forBanded<T>$", fn="sub_assign"),
        dict(name="band_mul_assign_s", file=BND, impl=r"MulAssign<T>forBanded<T>$", fn="mul_assign"),
        dict(name="band_div_assign_s", file=BND, impl=r"DivAssign<T>forBanded<T>$", fn="div_assign"),
        dict(name="band_add_assign_s", file=BND, impl=r"AddAssign<T>forBanded<T>$", fn="add_assign"),
        dict(name="band_sub_assign_s", file=BND, impl=r"SubAssign<T>forBanded<T>$", fn="sub_assign"),
        dict(name="band_mul", file=BND, impl=r"Mul<&Vector<T>>for&Banded<T>$", fn="mul"),
    ])

# ---------------------------------------------------------------------------------------------------- Sparse (Model/Sparse.v)
import rust2coq as _r
_r.LISTS["vect"] = ("tuple", ["usize", "usize", "elem"])
GTYPES["sp"] = "(sparse A)"
GTYPES["vect"] = "(list (nat * nat * (T A)))"
RUST_TYPES.append((r"^Sparse<(T|f64)>$", "sp"))
RUST_TYPES.append((r"^Vec<\(usize,usize,T\)>$", "vect"))
_SPF = ["rows", "cols", "nonzero", "val", "row_index", "col_start"]
_SPG = {"rows": "sp_rows", "cols": "sp_cols", "nonzero": "sp_nonzero", "val": "sp_val", "row_index": "sp_row_index", "col_start": "sp_col_start"}
_SPT = {"rows": "usize", "cols": "usize", "nonzero": "usize", "val": "vec", "row_index": "vecn", "col_start": "vecn"}
for _f in _SPF:
    FIELDS[("sp", _f)] = ("(%s {0})" % _SPG[_f], _SPT[_f])
    SETFIELDS[("sp", _f)] = "(mkS " + " ".join("{1}" if g == _f else "(%s {0})" % _SPG[g] for g in _SPF) + ")"
STRUCTS["Sparse"] = (_SPF, "(mkS {0} {1} {2} {3} {4} {5})", "sp")
METHODS.update({
    ("vecn", "len", 0): dict(g="length {0}", ret="usize"),
    ("vecn", "size", 0): dict(g="length {0}", ret="usize"),
    ("vecn", "push", 1): dict(g="{0} ++ [{1}]", ret="unit", out=["recv"], args=["usize"]),
    ("vect", "push", 1): dict(g="{0} ++ [{1}]", ret="unit", out=["recv"], args=[("tuple", ["usize", "usize", "elem"])]),
    ("sp", "col_index", 0): dict(g="sp_col_index {0}", ret="vecn", fallible=True),
    ("sp", "col_start_from_index", 1): dict(g="sp_col_start_from_index {0} {1}", ret="vecn", fallible=True, args=["vecn"]),
    ("sp", "to_triplets", 0): dict(g="sp_to_triplets {0}", ret="vect", fallible=True),
    ("sp", "multiply", 1): dict(g="sp_mul {0} {1}", ret="vec", fallible=True, args=["vec"]),
    ("sp", "transpose_multiply", 1): dict(g="sp_tmul {0} {1}", ret="vec", fallible=True, args=["vec"]),
})
PATHS[("Vector::empty", 0)] = dict(g="(@nil (T A))", ret="vec", atom=True)
PATHS[("Self::from_triplets", 3)] = dict(g="sp_from_triplets {0} {1} {2}", ret="sp", fallible=True, args=["usize", "usize", "vect"])
PATHS[("Sparse::new_nonzero", 3)] = dict(g="mkS {0} {1} {2} (repeat (@zero A) {2}) (repeat 0 {2}) (repeat 0 ({1} + 1)%nat)", ret="sp", args=["usize"] * 3)
SPR = "src/sparse.rs"
SP_IMPL = r"^<T:Copy\+Number\+std::fmt::Debug>Sparse<T>$"
MODULES["Sparse"] = dict(
    imports="From OV Require Import Base.Panic Base.Arith Model.Vector Model.Matrix Model.Sparse gen.SrcPrelude.",
    funcs=[
        dict(name="sp_new_nonzero", file=SPR, impl=SP_IMPL, fn="new_nonzero"),
        dict(name="sp_from_vecs", file=SPR, impl=SP_IMPL, fn="from_vecs"),
        dict(name="sp_col_index", file=SPR, impl=SP_IMPL, fn="col_index", locals={"temp": "vecn"}),
        dict(name="sp_col_start_from_index", file=SPR, impl=SP_IMPL, fn="col_start_from_index"),
        dict(name="sp_get", file=SPR, impl=SP_IMPL, fn="get"),
        dict(name="sp_scale", file=SPR, impl=SP_IMPL, fn="scale"),
        dict(name="sp_mul", file=SPR, impl=SP_IMPL, fn="multiply"),
        dict(name="sp_tmul", file=SPR, impl=SP_IMPL, fn="transpose_multiply"),
        dict(name="sp_transpose", file=SPR, impl=SP_IMPL, fn="transpose"),
        dict(name="sp_ident_pre", file=SPR, impl=SP_IMPL, fn="identity_preconditioner"),
        dict(name="sp_to_triplets", file=SPR, impl=SP_IMPL, fn="to_triplets", locals={"triplets": "vect"}),
        dict(name="sp_to_dense", file=SPR, impl=SP_IMPL, fn="to_dense"),
        dict(name="sp_insert", file=SPR, impl=SP_IMPL, fn="insert"),
        # round two (package r2c2): sort_by_key(|t| t.1) = the stable insertion sort sort_by_col of Model/Sparse.v (std's
        # sort_by_key is stable, the result of a stable sort is unique); `for t in triplets.drain(..)` = for_in, then empty
        dict(name="sp_from_triplets", file=SPR, impl=SP_IMPL, fn="from_triplets", locals={"row_index": "vecn", "col_index": "vecn"}),
    ])
METHODS[("vect", "sort_by_key:proj1", 0)] = dict(g="sort_by_col {0}", ret="unit", out=["recv"])
PATHS[("Vector::create", 1)] = [dict(g="{0}", ret="vec", atom=True, args=["vec"]), dict(g="{0}", ret="vecn", atom=True, args=["vecn"])]

# ---------------------------------------------------------------------------------------------------- Vector<f64> only (vec_f64.rs)
# over an SArith F (sqrt, of_nat) with the two calls that are not IEEE primitives as Section variables, exactly as the
# hand-written model does (Model/Vector.v, Section Vec64): fabs = the inherent f64::abs, powf = libm pow
V_F64 = "src/vector/vec_f64.rs"
MODULES["Vec64"] = dict(
    imports="From OV Require Import Base.Panic Base.Arith Model.Vector gen.SrcPrelude.",
    context=["Context {F : SArith}.", "Variable fabs : F -> F.", "Variable powf : F -> F -> F.", "Local Notation A := (SA F)."],
    spec=dict(sarith=True,
              methods={("elem", "abs", 0): dict(g="fabs {0}", ret="elem")},
              paths={("f64::powf", 2): dict(g="powf {0} {1}", ret="elem", args=["elem", "elem"]),
                     ("f64::sqrt", 1): dict(g="sqrt {0}", ret="elem", args=["elem"])}),
    funcs=[dict(name=n, file=V_F64, impl=r"^Vector<f64>$", fn=n) for n in ["linspace", "powspace", "norm_2", "norm_p", "norm_inf"]])

# ---------------------------------------------------------------------------------------------------- Iter (Model/Iter.v): round two
# the four Krylov solvers of `impl Sparse<f64>` over an SArith.  norm_2 is the model's norm2 (Iter.v; = Vec64.norm_2 with
# fabs := abs, the trusted reading powf(|x|, 2.0) = |x|*|x| of Model/Vector.v), identity_preconditioner the model's ident_pre
# (proved equal to its source in SrcEqSparse.src_sp_ident_pre).  Result<usize, f64> is the model's iresult (IOk / IErr).
# `while iter < max_iter { iter += 1; .. }` of solve_bicg: at most max_iter passes, so the fuel S max_iter is never exhausted
# (the poison value Panic Guard is shown unreachable by the equality lemma).
GTYPES["iresult"] = "(iresult F)"
RUST_TYPES.append((r"^Result<usize,f64>$", "iresult"))
IT_IMPL = r"^Sparse<f64>$"
MODULES["Iter"] = dict(
    imports="From OV Require Import Base.Panic Base.Arith Model.Vector Model.Matrix Model.Sparse Model.Iter gen.SrcPrelude.",
    context=["Context {F : SArith}.", "Local Notation A := (SA F)."],
    spec=dict(sarith=True,
              result_enum=dict(ty="iresult", ok="IOk", err="IErr", ok_ty="usize", err_ty="elem"),
              methods={("vec", "norm_2", 0): dict(g="norm2 {0}", ret="elem"),
                       ("elem", "sqrt", 0): dict(g="sqrt {0}", ret="elem"),
                       ("sp", "identity_preconditioner", 2): dict(g="ident_pre (sp_rows {0}) {1} {2}", ret="unit", fallible=True,
                                                                  out=["arg1"], args=["vec", "vec"])}),
    funcs=[
        dict(name="solve_cg", file=SPR, impl=IT_IMPL, fn="solve_cg"),
        dict(name="solve_bicg", file=SPR, impl=IT_IMPL, fn="solve_bicg",
             **{"while": {1: dict(fuel="(S {max_iter})", on_exhaust="Panic Guard")}}),
        dict(name="solve_bicgstab", file=SPR, impl=IT_IMPL, fn="solve_bicgstab"),
        dict(name="solve_qmr", file=SPR, impl=IT_IMPL, fn="solve_qmr"),
    ])

# ---------------------------------------------------------------------------------------------------- Newton (Model/Newton.v): round two
# Newton<f64> / Newton<Vec64> and Mat64::jacobian over any Arith (the model's NOps at NReal A: emb = id, mag = abs, divr = div).
# `&dyn Fn(X) -> Y` parameters are function arguments X -> res Y (a closure may panic).  The model is instrumented (it also
# returns the points at which the closures were called): the equality lemmas are erasure lemmas.
# Callees: Vec64::norm_inf is the model's Newton.norm_inf (index panic on the empty vector, then the running maximum);
# Mat64::jacobian is the model's jacobian with the call points dropped; Matrix::solve_basic(&mut self, b) is Model/Solve.v's
# solve_basic, which returns the solution only -- the receiver is `killed` (any later read of it is refused).
GTYPES.update({"ncfg_s": "(ncfg (T A) (T A))", "ncfg_v": "(ncfg (T A) (list (T A)))", "nres_s": "(nres (T A))", "nres_v": "(nres (list (T A)))"})
RUST_TYPES += [(r"^Newton<f64>$", "ncfg_s"), (r"^Newton<Vec64>$", "ncfg_v"), (r"^Result<f64,f64>$", "nres_s"), (r"^Result<Vec64,Vec64>$", "nres_v")]
for _c, _g in (("ncfg_s", "elem"), ("ncfg_v", "vec")):
    FIELDS.update({(_c, "tol"): ("(tol {0})", "elem"), (_c, "delta"): ("(delta {0})", "elem"),
                   (_c, "max_iter"): ("(max_iter {0})", "usize"), (_c, "guess"): ("(guess {0})", _g)})
NWT, M_FUN = "src/newton.rs", "src/matrix/functions.rs"
_NW_METHODS = {("vec", "norm_inf", 0): dict(g="Newton.norm_inf (NReal A) {0}", ret="elem", fallible=True),
               ("mat", "solve_basic", 1): dict(g="solve_basic {0} {1}", ret="vec", fallible=True, args=["vec"], kills=["recv"])}
_NW_PATHS = {("Mat64::jacobian", 3): dict(g="(let* jr := jacobian (NReal A) {1} {0} {2} in Ok (fst jr))", ret="mat", fallible=True, args=["vec", None, "elem"]),
             ("Mat64::new", 3): dict(g="mat_new {0} {1} {2}", ret="mat", args=["usize", "usize", "elem"])}
MODULES["Newton"] = dict(
    imports="From OV Require Import Base.Panic Base.Arith Model.Vector Model.Matrix Model.Solve Model.Newton gen.SrcPrelude.",
    spec=dict(lit2=True, methods=_NW_METHODS, paths=_NW_PATHS),
    funcs=[
        dict(name="newton_solve_f64", file=NWT, impl=r"^Newton<f64>$", fn="solve",
             result_enum=dict(ty="nres_s", ok="NOk", err="NErr", ok_ty="elem", err_ty="elem")),
        dict(name="newton_solve_vec64", file=NWT, impl=r"^Newton<Vec64>$", fn="solve",
             result_enum=dict(ty="nres_v", ok="NOk", err="NErr", ok_ty="vec", err_ty="vec")),
        dict(name="newton_solve_jacobian_vec64", file=NWT, impl=r"^Newton<Vec64>$", fn="solve_jacobian",
             result_enum=dict(ty="nres_v", ok="NOk", err="NErr", ok_ty="vec", err_ty="vec")),
        dict(name="jacobian_f64", file=M_FUN, impl=r"^Matrix<f64>$", fn="jacobian"),
    ])

# ---------------------------------------------------------------------------------------------------- Newton over Cmplx: round two
# Newton<Cmplx> / Newton<Vector<Cmplx>> / Matrix::<Cmplx>::jacobian_cmplx: two scalar sorts, f64 = T (SA S) ("elem") and
# Cmplx = Complex<f64> = T (CArith S) ("celem": the complex operators of Model/Complex.v through the Arith CArith S);
# the model's NOps at NCplx S: emb d = Cmplx::new(d, 0.0) = mkC d zero, mag z = z.abs() = sqrt (abs_sqr z),
# divr = Complex / f64 = cdiv_r.
_r.SCALARS.add("celem")
_r.LISTS["cvec"] = "celem"
GTYPES.update({"celem": "(T CA)", "cvec": "(list (T CA))", "cmat": "(matrix CA)",
               "ncfg_c": "(ncfg (T A) (T CA))", "ncfg_cv": "(ncfg (T A) (list (T CA)))", "nres_c": "(nres (T CA))", "nres_cv": "(nres (list (T CA)))"})
RUST_TYPES += [(r"^Cmplx$", "celem"), (r"^Vector<Cmplx>$", "cvec"), (r"^Matrix<Cmplx>$", "cmat"),
               (r"^Newton<Cmplx>$", "ncfg_c"), (r"^Newton<Vector<Cmplx>>$", "ncfg_cv"),
               (r"^Result<Cmplx,Cmplx>$", "nres_c"), (r"^Result<Vector<Cmplx>,Vector<Cmplx>>$", "nres_cv")]
for _c, _g in (("ncfg_c", "celem"), ("ncfg_cv", "cvec")):
    FIELDS.update({(_c, "tol"): ("(tol {0})", "elem"), (_c, "delta"): ("(delta {0})", "elem"),
                   (_c, "max_iter"): ("(max_iter {0})", "usize"), (_c, "guess"): ("(guess {0})", _g)})
METHODS.update({("cvec", "size", 0): dict(g="length {0}", ret="usize"),
                ("cmat", "set_col", 2): dict(g="set_col {0} {1} {2}", ret="unit", fallible=True, out=["recv"], args=["usize", "cvec"])})
BINOPS.update({("-", "cvec", "cvec"): dict(g="vsub {0} {1}", ret="cvec", fallible=True),
               ("/", "cvec", "celem"): dict(g="vdiv {0} {1}", ret="cvec", fallible=True),
               ("/", "celem", "elem"): dict(g="cdiv_r {0} {1}", ret="celem", fallible=True)})
ASSIGNOPS[("-=", "cvec", "cvec")] = dict(g="vsub_assign {0} {1}", ret="cvec", fallible=True)
_NC_METHODS = {("cvec", "norm_inf", 0): dict(g="Newton.norm_inf (NCplx S) {0}", ret="elem", fallible=True),
               ("celem", "abs", 0): dict(g="sqrt (abs_sqr {0})", ret="elem"),
               ("cmat", "solve_basic", 1): dict(g="solve_basic {0} {1}", ret="cvec", fallible=True, args=["cvec"], kills=["recv"])}
_NC_PATHS = {("Cmplx::new", 2): dict(g="(mkC {0} {1} : T CA)", ret="celem", atom=True, args=["elem", "elem"]),
             ("Matrix::jacobian_cmplx", 3): dict(g="(let* jr := jacobian (NCplx S) {1} {0} (mkC {2} (@zero A)) in Ok (fst jr))", ret="cmat", fallible=True,
                                                 args=["cvec", None, "elem"]),
             ("Matrix::new", 3): dict(g="mat_new {0} {1} {2}", ret="cmat", args=["usize", "usize", "celem"])}
MODULES["NewtonC"] = dict(
    imports="From OV Require Import Base.Panic Base.Arith Model.Complex Model.Vector Model.Matrix Model.Solve Model.Newton gen.SrcPrelude.",
    context=["Context {S : SArith}.", "Local Notation A := (SA S).", "Local Notation CA := (CArith S)."],
    spec=dict(lit2=True, methods=_NC_METHODS, paths=_NC_PATHS),
    funcs=[
        dict(name="newton_solve_cmplx", file=NWT, impl=r"^Newton<Cmplx>$", fn="solve",
             result_enum=dict(ty="nres_c", ok="NOk", err="NErr", ok_ty="celem", err_ty="celem")),
        dict(name="newton_solve_vcmplx", file=NWT, impl=r"^Newton<Vector<Cmplx>>$", fn="solve",
             result_enum=dict(ty="nres_cv", ok="NOk", err="NErr", ok_ty="cvec", err_ty="cvec")),
        dict(name="newton_solve_jacobian_vcmplx", file=NWT, impl=r"^Newton<Vector<Cmplx>>$", fn="solve_jacobian",
             result_enum=dict(ty="nres_cv", ok="NOk", err="NErr", ok_ty="cvec", err_ty="cvec")),
        dict(name="jacobian_cmplx", file=M_FUN, impl=r"^Matrix<Cmplx>$", fn="jacobian_cmplx"),
    ])

# ---------------------------------------------------------------------------------------------------- Mesh (Model/Mesh.v): round two
# src/mesh1d.rs, src/mesh2d.rs: storage paths, interpolation loop, trapezium rules (file I/O -- read/output/output_var -- and
# the place-returning index_mut are not translated).  Sorts: "xelem" = the coordinate type X of Mesh1D<T, X> (only stored and
# copied), "xvec" = Vector<X>, "vv" = Vec<Vector<T>>; "m1" = Mesh1D<T, X>, "m1f" = Mesh1D<T, f64> / Mesh1D<f64, f64>,
# "m2" = Mesh2D<T> / Mesh2D<f64> (nodes are Vector<f64>: the model's X := T A).
# The literals 0.5, 0.25, 1.0e-7 are the model's parameters half, quarter, snap: a regenerated function that uses any of them
# takes all three, in this order (their values are tied by gen/Params.v and by the instances the checks run); f64::powf(v, 2.0) is read as v * v (Model/Mesh.v).
_r.LISTS["xvec"] = "xelem"; _r.LISTS["vv"] = "vec"
GTYPES.update({"xelem": "X", "xvec": "(list X)", "vv": "(list (list (T A)))", "m1": "(mesh1 A X)", "m1f": "(mesh1 A (T A))", "m2": "(mesh2 A (T A))"})
RUST_TYPES += [(r"^X$", "xelem"), (r"^Vector<X>$", "xvec"), (r"^Vec<Vector<(T|f64)>>$", "vv"), (r"^Mesh1D<T,X>$", "m1"),
               (r"^Mesh1D<(T|f64),f64>$", "m1f"), (r"^Mesh2D<(T|f64)>$", "m2")]
for _m, _nt in (("m1", "xvec"), ("m1f", "vec")):
    FIELDS.update({(_m, "nvars"): ("(m1_nvars {0})", "usize"), (_m, "nodes"): ("(m1_nodes {0})", _nt), (_m, "vars"): ("(m1_vars {0})", "vv")})
    SETFIELDS.update({(_m, "vars"): "(mkM1 (m1_nvars {0}) (m1_nodes {0}) {1})"})
    METHODS.update({(_m, "get_nodes_vars", 1): dict(g="get_nodes_vars1 {0} {1}", ret="vec", fallible=True, args=["usize"]),
                    (_m, "set_nodes_vars", 2): dict(g="set_nodes_vars1 {0} {1} {2}", ret="unit", fallible=True, out=["recv"], args=["usize", "vec"])})
_M2F = ["nvars", "nx", "ny", "x_nodes", "y_nodes", "vars"]
_M2G = {"nvars": "m2_nvars", "nx": "m2_nx", "ny": "m2_ny", "x_nodes": "m2_x", "y_nodes": "m2_y", "vars": "m2_vars"}
_M2T = {"nvars": "usize", "nx": "usize", "ny": "usize", "x_nodes": "vec", "y_nodes": "vec", "vars": "vv"}
for _f in _M2F:
    FIELDS[("m2", _f)] = ("(%s {0})" % _M2G[_f], _M2T[_f])
SETFIELDS[("m2", "vars")] = "(with_vars2 {0} {1})"
STRUCTS["Mesh1D"] = (["nvars", "nodes", "vars"], "(mkM1 {0} {1} {2})", "m1")
STRUCTS["Mesh2D"] = (_M2F, "(mkM2 {0} {1} {2} {3} {4} {5})", "m2")
METHODS.update({
    ("xvec", "size", 0): dict(g="length {0}", ret="usize"),
    ("vv", "push", 1): dict(g="{0} ++ [{1}]", ret="unit", out=["recv"], args=["vec"]),
    ("m2", "get_nodes_vars", 2): dict(g="get_nodes_vars2 {0} {1} {2}", ret="vec", fallible=True, args=["usize", "usize"]),
})
MS1, MS2 = "src/mesh1d.rs", "src/mesh2d.rs"
M1_GEN = r"^<T:Clone\+Number,X:Clone\+Number\+Copy>Mesh1D<T,X>$"
M2_GEN = r"^<T:Clone\+Number>Mesh2D<T>$"
MODULES["Mesh"] = dict(
    imports="From OV Require Import Base.Panic Base.Arith Model.Vector Model.Matrix Model.Mesh gen.SrcPrelude.",
    context=["Context {A : Arith} {X : Type}."],
    lit_params=[("half", "(T A)"), ("quarter", "(T A)"), ("snap", "(T A)")],
    spec=dict(lit2=True, literals={"0.5": "half", "0.25": "quarter", "1.0e-7": "snap"},
              paths={("Mesh1D::new", 2): dict(g="mesh1_new {0} {1}", ret="m1f", args=["vec", "usize"]),
                     ("f64::powf", 2): dict(g="mul {0} {0}", ret="elem", args=["elem", "elem"], require={1: "(add (@one A) (@one A))"})}),
    funcs=[
        dict(name="mesh1_new", file=MS1, impl=M1_GEN, fn="new", locals={"vars": "vv"}),
        dict(name="mesh1_nnodes", file=MS1, impl=M1_GEN, fn="nnodes"),
        dict(name="mesh1_nvars", file=MS1, impl=M1_GEN, fn="nvars"),
        dict(name="mesh1_coord", file=MS1, impl=M1_GEN, fn="coord"),
        dict(name="mesh1_set_nodes_vars", file=MS1, impl=M1_GEN, fn="set_nodes_vars"),
        dict(name="mesh1_get_nodes_vars", file=MS1, impl=M1_GEN, fn="get_nodes_vars"),
        dict(name="mesh1_nodes", file=MS1, impl=M1_GEN, fn="nodes"),
        dict(name="mesh1_index", file=MS1, impl=r"^<T,X>Index<usize>forMesh1D<T,X>$", fn="index"),
        dict(name="mesh1_interp", file=MS1, impl=r"^Mesh1D<f64,f64>$", fn="get_interpolated_vars"),
        dict(name="mesh1_trapezium", file=MS1, impl=r"^Mesh1D<f64,f64>$", fn="trapezium"),
        dict(name="mesh2_new", file=MS2, impl=M2_GEN, fn="new", locals={"vars": "vv"}),
        dict(name="mesh2_nvars", file=MS2, impl=M2_GEN, fn="nvars"),
        dict(name="mesh2_nnodes", file=MS2, impl=M2_GEN, fn="nnodes"),
        dict(name="mesh2_coord", file=MS2, impl=M2_GEN, fn="coord"),
        dict(name="mesh2_xnodes", file=MS2, impl=M2_GEN, fn="xnodes"),
        dict(name="mesh2_ynodes", file=MS2, impl=M2_GEN, fn="ynodes"),
        dict(name="mesh2_set_nodes_vars", file=MS2, impl=M2_GEN, fn="set_nodes_vars"),
        dict(name="mesh2_get_nodes_vars", file=MS2, impl=M2_GEN, fn="get_nodes_vars"),
        dict(name="mesh2_assign", file=MS2, impl=M2_GEN, fn="assign"),
        dict(name="mesh2_cross_section_xnode", file=MS2, impl=M2_GEN, fn="cross_section_xnode"),
        dict(name="mesh2_cross_section_ynode", file=MS2, impl=M2_GEN, fn="cross_section_ynode"),
        dict(name="mesh2_var_as_matrix", file=MS2, impl=M2_GEN, fn="var_as_matrix"),
        dict(name="mesh2_apply", file=MS2, impl=M2_GEN, fn="apply"),
        dict(name="mesh2_trapezium", file=MS2, impl=r"^Mesh2D<f64>$", fn="trapezium"),
        dict(name="mesh2_square_trapezium", file=MS2, impl=r"^Mesh2D<f64>$", fn="square_trapezium"),
        dict(name="mesh2_index", file=MS2, impl=r"^<T>Index<\(usize,usize\)>forMesh2D<T>$", fn="index"),
    ])

# ---------------------------------------------------------------------------------------------------- ParDot (Model/ParDot.v): round two
# Vector<f64>::dot_f64: the partition arithmetic (num_threads, chunk_size, start / end per worker, the checked slicing by the
# main thread), the workers as VALUES (scope.spawn(|| BLOCK) = the computation of BLOCK; "handle" = res T), and the sum in
# join (= spawn) order.  num_cpus::get() is the Section variable num_cpus_ (the model's parameter t).  Not modelled by a value
# translation: the scheduling -- Model/ParDot.v's run_sched / Proofs/ParDot.v show the result independent of it.
GTYPES.update({"handle": "(res (T A))", "handles": "(list (res (T A)))", "scope": "unit"})
_r.LISTS["handles"] = "handle"
METHODS[("handles", "push", 1)] = dict(g="{0} ++ [{1}]", ret="unit", out=["recv"], args=["handle"])
METHODS[("index_range", "vec")] = dict(g="subslice {0} {1} {2}", ret="vec", fallible=True)
MODULES["ParDot"] = dict(
    imports="From OV Require Import Base.Panic Base.Arith Model.Vector Model.ParDot gen.SrcPrelude.",
    context=["Context {A : Arith}.", "Variable num_cpus_ : nat."],
    spec=dict(paths={("num_cpus::get", 0): dict(g="num_cpus_", ret="usize", atom=True)}),
    funcs=[dict(name="dot_f64", file=V_F64, impl=r"^Vector<f64>$", fn="dot_f64", locals={"threads": "handles"})])

# ---------------------------------------------------------------------------------------------------- MatNorms (Model/MatNorms.v): round two
# the norms of `impl Matrix<f64>` (src/matrix/functions.rs) over an SArith.  f64::max(result, x) is the model's fmax (the
# reading documented in Model/MatNorms.v: the running maximum is never NaN); f64::powf is the Section variable powf (libm).
MODULES["MatNorms"] = dict(
    imports="From OV Require Import Base.Panic Base.Arith Model.Vector Model.Matrix Model.MatNorms gen.SrcPrelude.",
    context=["Context {F : SArith}.", "Variable powf : F -> F -> F.", "Local Notation A := (SA F)."],
    spec=dict(sarith=True,
              methods={("elem", "max", 1): dict(g="fmax {0} {1}", ret="elem", args=["elem"]),
                       ("mat", "norm_p", 1): dict(g="(let* s := mnorm_p_sum (fun x => powf x {1}) {0} in let* ip := div (@one A) {1} in Ok (powf s ip))",
                                                  ret="elem", fallible=True, args=["elem"])},
              paths={("f64::powf", 2): dict(g="powf {0} {1}", ret="elem", args=["elem", "elem"])}),
    funcs=[dict(name=n, file=M_FUN, impl=r"^Matrix<f64>$", fn=f) for n, f in
           [("mnorm_1", "norm_1"), ("mnorm_inf", "norm_inf"), ("mnorm_p", "norm_p"), ("mnorm_frob", "norm_frob"), ("mnorm_max", "norm_max")]])

# ---------------------------------------------------------------------------------------------------- VectorOps (Model/Vector.v): round two
# the editing operations / constructors / find / resize of src/vector/{mod,operations,functions}.rs that round one left out.
# Vec::insert(pos, x) is vinsert (Panic Index when pos > len), Vec::pop() the pair (removelast, last element as an Option),
# Vec::resize_with(n, Default::default) is vresize (Default::default() = zero for the element types in use),
# v.iter().position(|x| *x == value) is find_first v value 0.
CONSTS["Default::default"] = ("(@zero A)", "elem")
V_MOD, V_OPS = "src/vector/mod.rs", "src/vector/operations.rs"
MODULES["VectorOps"] = dict(
    imports="From OV Require Import Base.Panic Base.Arith Model.Vector gen.SrcPrelude.",
    spec=dict(methods={("vec", "insert", 2): dict(g="vinsert {0} {1} {2}", ret="unit", fallible=True, out=["recv"], args=["usize", "elem"]),
                       ("vec", "pop", 0): dict(g="(removelast {0}, last_opt {0})", ret=("opt", "elem"), out=["recv", "ret"]),
                       ("vec", "resize_with", 2): dict(g="vresize {0} {1}", ret="unit", out=["recv"], args=["usize", "elem"], require={1: "(@zero A)"})}),
    funcs=[
        dict(name="vfind", file=V_FUN, impl=r"^<T:std::cmp::PartialEq>Vector<T>$", fn="find"),
        dict(name="vresize", file=V_FUN, impl=r"^<T:std::default::Default>Vector<T>$", fn="resize"),
        dict(name="vindex", file=V_OPS, impl=r"^<T>Index<usize>forVector<T>$", fn="index"),
        dict(name="vclear", file=V_OPS, impl=r"^<T>Vector<T>$", fn="clear"),
        dict(name="vswap", file=V_OPS, impl=r"^<T>Vector<T>$", fn="swap"),
        dict(name="vpush", file=V_OPS, impl=r"^<T>Vector<T>$", fn="push"),
        dict(name="vpush_front", file=V_OPS, impl=r"^<T>Vector<T>$", fn="push_front"),
        dict(name="vinsert", file=V_OPS, impl=r"^<T>Vector<T>$", fn="insert"),
        dict(name="vpop", file=V_OPS, impl=r"^<T>Vector<T>$", fn="pop"),
        dict(name="vsize", file=V_MOD, impl=r"^<T>Vector<T>$", fn="size"),
        dict(name="vnew", file=V_MOD, impl=r"^<T:Clone>Vector<T>$", fn="new"),
        dict(name="vzeros", file=V_MOD, impl=r"^<T:Clone\+Number>Vector<T>$", fn="zeros"),
        dict(name="vones", file=V_MOD, impl=r"^<T:Clone\+Number>Vector<T>$", fn="ones"),
    ])

# ---------------------------------------------------------------------------------------------------- Roots (Model/Roots.v): round two
# `impl Polynomial<Cmplx>`: quadratic_solve, cubic_solve over the model's two-sorted RootArith RA (a Section variable):
# "elem" = f64 = T (SA (RR RA)), "celem" = Cmplx = T (KK RA).  Cmplx::new / .real / .imag / conj / abs, Complex * f64,
# f64 * Complex (which delegates to Complex * f64, complex/mod.rs:117-133), Complex / f64, f64::abs, f64::max are the
# operations of RA; the libm-backed Complex::sqrt / pow / polar are RA's oracle operations osqrt / opow / opolar (fallible);
# 0.5 is rhalf RA, f64::EPSILON reps RA, an integral literal n. / n.0 is `n as f64` (rlit RA n).
_RT_BIN = {("*", "elem", "celem"): dict(g="kmulr RA {1} {0}", ret="celem"),
           ("*", "celem", "elem"): dict(g="kmulr RA {0} {1}", ret="celem"),
           ("/", "celem", "elem"): dict(g="kdivr RA {0} {1}", ret="celem", fallible=True)}
_RT_METHODS = {("celem", "sqrt", 0): dict(g="osqrt RA {0}", ret="celem", fallible=True),
               ("celem", "pow", 1): dict(g="opow RA {0} {1}", ret="celem", fallible=True, args=["celem"]),
               ("celem", "conj", 0): dict(g="kconj RA {0}", ret="celem"),
               ("celem", "abs", 0): dict(g="kabs RA {0}", ret="elem"),
               ("elem", "abs", 0): dict(g="rfabs RA {0}", ret="elem"),
               ("elem", "sqrt", 0): dict(g="sqrt {0}", ret="elem"),
               ("cvec", "size", 0): dict(g="length {0}", ret="usize"), ("cvec", "len", 0): dict(g="length {0}", ret="usize")}
_RT_PATHS = {("Cmplx::new", 2): dict(g="(mkk RA {0} {1})", ret="celem", atom=True, args=["elem", "elem"]),
             ("Cmplx::zero", 0): dict(g="(@zero CA)", ret="celem", atom=True),
             ("Cmplx::polar", 2): dict(g="opolar RA {0} {1}", ret="celem", fallible=True, args=["elem", "elem"]),
             ("f64::max", 2): dict(g="rmax RA {0} {1}", ret="elem", args=["elem", "elem"]),
             ("Vector::zeros", 1): dict(g="repeat (@zero CA) {0}", ret="cvec", args=["usize"])}
RT_IMPL = r"^Polynomial<Cmplx>$"
RUST_TYPES.append((r"^Polynomial<Cmplx>$", "cvec"))
MODULES["Roots"] = dict(
    imports="From OV Require Import Base.Panic Base.Arith Model.Complex gen.Params Model.Roots gen.SrcPrelude.",
    context=["Variable RA : RootArith.", "Local Notation A := (SA (RR RA)).", "Local Notation CA := (KK RA)."],
    spec=dict(sarith=True, lit_nat="(rlit RA {0})", literals={"0.5": "(rhalf RA)"}, binops=_RT_BIN, methods=_RT_METHODS, paths=_RT_PATHS,
              fields={("celem", "real"): ("(kre RA {0})", "elem"), ("celem", "imag"): ("(kim RA {0})", "elem")},
              consts={"f64::EPSILON": ("(reps RA)", "elem")}),
    funcs=[
        dict(name="quadratic_solve", file=P_MOD, impl=RT_IMPL, fn="quadratic_solve"),
        dict(name="cubic_solve", file=P_MOD, impl=RT_IMPL, fn="cubic_solve"),
        # laguer: MR / MT / MAXIT are compile-time constants (substituted), EPS = f64::EPSILON = reps RA, the table frac[] is
        # the model's rfrac RA (its nine values are tied by gen/Params.v: LAGUER_FRAC)
        dict(name="laguer", file=P_MOD, impl=RT_IMPL, fn="laguer", arrays={"frac": ("(rfrac RA)", 9)}),
        # poly_solve: its callees are the model functions (each proved equal to its own source above); Self::laguer with its
        # three `&mut` operands is the model's laguer with the trace projected away
        dict(name="poly_solve", file=P_MOD, impl=RT_IMPL, fn="poly_solve"),
        # the two public entry points: Polynomial<f64>::roots (every coefficient converted with Cmplx::new(c, 0.0)) and
        # Polynomial<Cmplx>::roots (the coefficients copied)
        dict(name="roots_f64", file=P_MOD, impl=r"^Polynomial<f64>$", fn="roots"),
        dict(name="roots_cplx", file=P_MOD, impl=RT_IMPL, fn="roots"),
    ])
MODULES["Roots"]["spec"]["fields"][("cvec", "coeffs")] = ("{0}", "cvec")
_RT_PATHS.update({
    ("Polynomial::quadratic_solve", 3): dict(g="quadratic_solve RA {0} {1} {2}", ret="cvec", fallible=True, args=["celem"] * 3),
    ("Polynomial::cubic_solve", 4): dict(g="cubic_solve RA {0} {1} {2} {3}", ret="cvec", fallible=True, args=["celem"] * 4),
    ("Vector::new", 2): dict(g="repeat {1} {0}", ret="cvec", args=["usize", "celem"]),
    ("Polynomial::poly_solve", 2): dict(g="(let* r := poly_solve RA {0} {1} in Ok (fst r))", ret="cvec", fallible=True, args=["cvec", "bool"]),
    ("Self::laguer", 3): dict(g="(let* l := laguer RA {0} {1} in Ok ({0}, lx l, liters l))", ret="unit", fallible=True,
                              out=["arg0", "arg1", "arg2"], args=["cvec", "celem", "usize"]),
})

# ---------------------------------------------------------------------------------------------------- Wrappers: round two
# the consuming (by-value) operator forms, which delegate to the by-reference forms round one translated, the constructors /
# accessors / Clone impls that only move fields around, Polynomial's Index and degree.  `x.clone()` is the identity in the
# translation (trusted: Clone is deep); the Clone impls translated here are exactly that identity for the types of this crate.
BINOPS.update({
    ("+", "band", "band"): dict(g="band_add {0} {1}", ret="band", fallible=True),
    ("-", "band", "band"): dict(g="band_sub {0} {1}", ret="band", fallible=True),
    ("*", "band", "elem"): dict(g="band_scale {0} {1}", ret="band", fallible=True),
    ("/", "band", "elem"): dict(g="band_div {0} {1}", ret="band", fallible=True),
    ("*", "band", "vec"): dict(g="band_mul {0} {1}", ret="vec", fallible=True),
    ("*", "mat", "mat"): dict(g="mat_mul {0} {1}", ret="mat", fallible=True),
    ("*", "tri", "vec"): dict(g="tmul {0} {1}", ret="vec", fallible=True),
})
UNOPS[("-", "band")] = dict(g="band_neg {0}", ret="band", fallible=True)
ASSIGNOPS.update({("+=", "band", "band"): dict(g="band_add_assign {0} {1}", ret="band", fallible=True),
                  ("-=", "band", "band"): dict(g="band_sub_assign {0} {1}", ret="band", fallible=True)})
RUST_TYPES += [(r"^Result<usize,&'staticstr>$", ("opt", "usize")), (r"^Newton<T>$", "ncfg_s"), (r"^\(f64,f64,usize,T\)$", ("tuple", ["elem", "elem", "usize", "elem"]))]
for _f, _i in (("tol", 0), ("delta", 1), ("max_iter", 2), ("guess", 3)):
    SETFIELDS[("ncfg_s", _f)] = "(mkCfg " + " ".join("{1}" if k == _i else "(%s {0})" % n for k, n in enumerate(["tol", "delta", "max_iter", "guess"])) + ")"
STRUCTS["Polynomial"] = (["coeffs"], "{0}", "poly")
ARI_B = "src/banded.rs"
P_T = r"^<T>Polynomial<T>$"
MODULES["Wrappers"] = dict(
    imports="From OV Require Import Base.Panic Base.Arith Model.Vector Model.Matrix Model.Tridiag Model.Banded Model.Poly Model.Newton gen.SrcPrelude.",
    funcs=[
        # vector/arithmetic.rs
        dict(name="vadd_ref", file=V_ARI, impl=r"Add<&Vector<T>>forVector<T>$", fn="add"),
        dict(name="vadd_val", file=V_ARI, impl=r"Add<Vector<T>>forVector<T>$", fn="add"),
        dict(name="vsub_ref", file=V_ARI, impl=r"Sub<&Vector<T>>forVector<T>$", fn="sub"),
        dict(name="vsub_val", file=V_ARI, impl=r"Sub<Vector<T>>forVector<T>$", fn="sub"),
        # matrix/arithmetic.rs
        dict(name="mneg_val", file=M_ARI, impl=r"NegforMatrix<T>$", fn="neg"),
        dict(name="madd_val", file=M_ARI, impl=r"Add<Matrix<T>>forMatrix<T>$", fn="add"),
        dict(name="msub_val", file=M_ARI, impl=r"Sub<Matrix<T>>forMatrix<T>$", fn="sub"),
        dict(name="mscale_val", file=M_ARI, impl=r"Mul<T>forMatrix<T>$", fn="mul"),
        dict(name="mdiv_val", file=M_ARI, impl=r"Div<T>forMatrix<T>$", fn="div"),
        dict(name="madd_assign_val", file=M_ARI, impl=r"^<T:Copy\+Number>AddAssignforMatrix<T>$", fn="add_assign"),
        dict(name="msub_assign_val", file=M_ARI, impl=r"^<T:Copy\+Number>SubAssignforMatrix<T>$", fn="sub_assign"),
        dict(name="mat_mul_val", file=M_ARI, impl=r"Mul<Matrix<T>>forMatrix<T>$", fn="mul"),
        dict(name="mat_vec_mul_val", file=M_ARI, impl=r"Mul<Vector<T>>forMatrix<T>$", fn="mul"),
        # matrix/mod.rs
        dict(name="mat_empty", file="src/matrix/mod.rs", impl=r"^<T>Matrix<T>$", fn="empty"),
        dict(name="mrows", file="src/matrix/mod.rs", impl=r"^<T>Matrix<T>$", fn="rows"),
        dict(name="mcols", file="src/matrix/mod.rs", impl=r"^<T>Matrix<T>$", fn="cols"),
        dict(name="mclone", file="src/matrix/mod.rs", impl=r"CloneforMatrix<T>$", fn="clone"),
        # banded.rs
        dict(name="band_empty", file=ARI_B, impl=r"^<T>Banded<T>$", fn="empty"),
        dict(name="band_size", file=ARI_B, impl=r"^<T>Banded<T>$", fn="size"),
        dict(name="band_size_below", file=ARI_B, impl=r"^<T>Banded<T>$", fn="size_below"),
        dict(name="band_size_above", file=ARI_B, impl=r"^<T>Banded<T>$", fn="size_above"),
        dict(name="band_compact", file=ARI_B, impl=r"^<T>Banded<T>$", fn="compact"),
        dict(name="band_neg_val", file=ARI_B, impl=r"NegforBanded<T>$", fn="neg"),
        dict(name="band_add_val", file=ARI_B, impl=r"Add<Banded<T>>forBanded<T>$", fn="add"),
        dict(name="band_sub_val", file=ARI_B, impl=r"Sub<Banded<T>>forBanded<T>$", fn="sub"),
        dict(name="band_scale_val", file=ARI_B, impl=r"Mul<T>forBanded<T>$", fn="mul"),
        dict(name="band_div_val", file=ARI_B, impl=r"Div<T>forBanded<T>$", fn="div"),
        dict(name="band_add_assign_val", file=ARI_B, impl=r"AddAssign<Banded<T>>forBanded<T>$", fn="add_assign"),
        dict(name="band_sub_assign_val", file=ARI_B, impl=r"SubAssign<Banded<T>>forBanded<T>$", fn="sub_assign"),
        dict(name="band_mul_val", file=ARI_B, impl=r"Mul<Vector<T>>forBanded<T>$", fn="mul"),
        # tridiagonal.rs
        dict(name="tempty", file=TRI, impl=TRI_T, fn="empty"),
        dict(name="tsize", file=TRI, impl=TRI_T, fn="size"),
        dict(name="tsubdiagonal", file=TRI, impl=TRI_T, fn="subdiagonal"),
        dict(name="tmaindiagonal", file=TRI, impl=TRI_T, fn="maindiagonal"),
        dict(name="tsuperdiagonal", file=TRI, impl=TRI_T, fn="superdiagonal"),
        dict(name="tclone", file=TRI, impl=r"CloneforTridiagonal<T>$", fn="clone"),
        dict(name="tmul_val", file=TRI, impl=r"Mul<Vector<T>>forTridiagonal<T>$", fn="mul"),
        # polynomial
        dict(name="padd_val", file=P_ARI, impl=r"Add<Polynomial<T>>forPolynomial<T>$", fn="add"),
        dict(name="pneg_val", file=P_ARI, impl=r"NegforPolynomial<T>$", fn="neg"),
        dict(name="psub_val", file=P_ARI, impl=r"Sub<Polynomial<T>>forPolynomial<T>$", fn="sub"),
        dict(name="pmul_val", file=P_ARI, impl=r"Mul<Polynomial<T>>forPolynomial<T>$", fn="mul"),
        dict(name="pscale_val", file=P_ARI, impl=r"Mul<T>forPolynomial<T>$", fn="mul"),
        dict(name="pindex", file=P_ARI, impl=r"Index<usize>forPolynomial<T>$", fn="index"),
        dict(name="pempty", file=P_MOD, impl=P_T, fn="empty"),
        dict(name="pnew", file=P_MOD, impl=P_T, fn="new"),
        dict(name="pquadratic", file=P_MOD, impl=P_T, fn="quadratic"),
        dict(name="pcubic", file=P_MOD, impl=P_T, fn="cubic"),
        dict(name="psize", file=P_MOD, impl=P_T, fn="size"),
        dict(name="pdegree", file=P_MOD, impl=P_T, fn="degree",
             result_enum=dict(ty=("opt", "usize"), ok="Some", err_const="None", ok_ty="usize")),
        dict(name="pclone", file=P_MOD, impl=r"CloneforPolynomial<T>$", fn="clone"),
        # vector/mod.rs
        dict(name="vempty", file=V_MOD, impl=r"^<T>Vector<T>$", fn="empty"),
        dict(name="vcreate", file=V_MOD, impl=r"^<T>Vector<T>$", fn="create"),
        dict(name="vclone", file=V_MOD, impl=r"CloneforVector<T>$", fn="clone"),
        # newton.rs
        dict(name="newton_tolerance", file=NWT, impl=r"^<T>Newton<T>$", fn="tolerance"),
        dict(name="newton_delta", file=NWT, impl=r"^<T>Newton<T>$", fn="delta"),
        dict(name="newton_iterations", file=NWT, impl=r"^<T>Newton<T>$", fn="iterations"),
        dict(name="newton_guess", file=NWT, impl=r"^<T>Newton<T>$", fn="guess"),
        dict(name="newton_parameters", file=NWT, impl=r"^<T:Copy>Newton<T>$", fn="parameters"),
    ])
PATHS[("Self::new", 1)] = dict(g="{0}", ret="poly", atom=True, args=["vec"])
PATHS[("Vec::<T>::new", 0)] = dict(g="(@nil (T A))", ret="vec", atom=True)

# one generated file per family, so that a broken tie stays with the property that owns the family
def _split_wrappers():
    fam = {"v": "WrapVector", "m": "WrapMatrix", "band": "WrapBanded", "t": "WrapTridiag", "p": "WrapPoly", "newton": "WrapNewton"}
    ent = MODULES.pop("Wrappers")
    for f in ent["funcs"]:
        n = f["name"]
        key = "band" if n.startswith("band_") else "newton" if n.startswith("newton_") else "m" if n.startswith("m") else n[0]
        MODULES.setdefault(fam[key], dict(imports=ent["imports"], funcs=[]))["funcs"].append(f)
_split_wrappers()

# ---------------------------------------------------------------------------------------------------- VecCmplx (Model/Vector.v, Model/Newton.v): round two
# src/vector/vec_cmplx.rs: conj, real, norm_inf of Vector<Complex<T>> over CArith F
V_CPX = "src/vector/vec_cmplx.rs"
RUST_TYPES.append((r"^Vector<Complex<(T|f64)>>$", "cvec"))
MODULES["VecCmplx"] = dict(
    imports="From OV Require Import Base.Panic Base.Arith Model.Complex Model.Vector Model.Newton gen.SrcPrelude.",
    context=["Context {F : SArith}.", "Local Notation A := (SA F).", "Local Notation CA := (CArith F)."],
    spec=dict(methods={("celem", "conj", 0): dict(g="(conj {0} : T CA)", ret="celem", atom=True),
                       ("celem", "abs", 0): dict(g="sqrt (abs_sqr {0})", ret="elem")},
              paths={("Complex::zero", 0): dict(g="(@zero CA)", ret="celem", atom=True)},
              fields={("cvec", "vec"): ("{0}", "cvec"), ("celem", "real"): ("(re {0})", "elem")}),
    funcs=[
        dict(name="vconj", file=V_CPX, impl=r"^<T:Clone\+Signed>Vector<Complex::<T>>$", fn="conj"),
        dict(name="vreal", file=V_CPX, impl=r"^<T:Clone\+Number>Vector<Complex::<T>>$", fn="real"),
        dict(name="cnorm_inf", file=V_CPX, impl=r"^Vector<Complex::<f64>>$", fn="norm_inf"),
        # Tridiagonal::<Complex<T>>::conj (src/tridiagonal.rs): the three diagonals conjugated
        dict(name="tconj", file=TRI, impl=r"Tridiagonal::<Complex::<T>>$", fn="conj"),
    ])
GTYPES["ctri"] = "(tridiag CA)"
RUST_TYPES.append((r"^Tridiagonal<Complex<T>>$", "ctri"))
MODULES["VecCmplx"]["spec"]["fields"].update({("ctri", "sub"): ("(tsub {0})", "cvec"), ("ctri", "main"): ("(tmain {0})", "cvec"),
                                               ("ctri", "sup"): ("(tsup {0})", "cvec"), ("ctri", "n"): ("(tn {0})", "usize")})
MODULES["VecCmplx"]["spec"]["methods"][("cvec", "conj", 0)] = dict(g="(vconj {0} : list (T CA))", ret="cvec", atom=True)
MODULES["VecCmplx"]["spec"]["structs"] = {"Tridiagonal": (["sub", "main", "sup", "n"], "(@mkT CA {0} {1} {2} {3})", "ctri")}
MODULES["VecCmplx"]["imports"] = "From OV Require Import Base.Panic Base.Arith Model.Complex Model.Vector Model.Matrix Model.Tridiag Model.Newton gen.SrcPrelude."

# >>> STATE_ORDERS (generated: translate_src.py --pin-state-orders)
STATE_ORDERS = {
    'Banded': {
        'band_solve': {'loop0': [0, 1], 'loop2': [0, 1]},
        'decompose': {'if1': [0, 1], 'if3': [1, 0], 'loop0': [0, 1], 'loop3': [2, 4, 1, 3, 0], 'loop4': [0, 1], 'loop6': [2, 1, 0]},
    },
    'Iter': {
        'solve_bicg': {'if3': [0, 1], 'if7': [0, 1], 'loop0': [5, 6, 7, 9, 4, 1, 2, 3, 8, 0]},
        'solve_bicgstab': {'loop0': [5, 4, 0, 1, 6, 2, 9, 3, 7, 8]},
        'solve_cg': {'loop0': [2, 4, 1, 0, 5, 3]},
        'solve_qmr': {'if12': [0, 1], 'if8': [0, 1], 'loop0': [14, 16, 6, 8, 4, 10, 11, 9, 15, 0, 1, 5, 7, 2, 3, 12, 13]},
    },
    'Newton': {
        'jacobian_f64': {'loop0': [0, 1]},
    },
    'NewtonC': {
        'jacobian_cmplx': {'loop0': [0, 1]},
    },
    'Poly': {
        'polydiv': {'loop0': [0, 1, 2]},
        'ptrim': {'loop0': [0, 1]},
    },
    'Roots': {
        'laguer': {'loop0': [1, 0], 'loop1': [2, 3, 1, 0]},
        'poly_solve': {'if4': [1, 0], 'if6': [2, 1, 0], 'loop0': [1, 0, 2], 'loop2': [0, 1], 'loop3': [2, 1, 0]},
    },
    'Solve': {
        'gauss_with_pivot': {'loop0': [0, 1], 'loop1': [0, 1]},
        'lu_decomp_in_place': {'if1': [0, 1], 'if2': [1, 2, 0], 'loop0': [1, 2, 0], 'loop1': [0, 1]},
        'max_abs_in_column': {'if0': [1, 0], 'loop0': [1, 0]},
    },
    'Sparse': {
        'sp_col_index': {'loop0': [1, 0]},
        'sp_col_start_from_index': {'loop1': [0, 1]},
        'sp_from_triplets': {'loop0': [0, 1, 2, 3]},
        'sp_transpose': {'loop3': [0, 1], 'loop4': [0, 1]},
    },
    'Tridiag': {
        'tsolve': {'loop0': [2, 1, 0]},
    },
}
# <<< STATE_ORDERS
