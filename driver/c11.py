# C11 -- polynomial arithmetic, evaluation and differentiation obey the ring and calculus laws.
from fractions import Fraction
from common import *
from engine import Case
from polylib import *
import polylib

PID = "C11"
IMPORTS = polylib.IMPORTS
MODEL_VO = polylib.MODEL_VO
EXHAUSTIVE = False
RULE = ("poly.ring cases for every pair of lengths 0..9 (the empty polynomial and degrees 0..8, either operand longer) "
        "over Rat (small fractions), f64 and Complex<f64> (small integers: every intermediate exactly representable; in the quick tier each "
        "pair of non-empty lengths goes to one of the two float kinds, by parity of lp+lq; thorough: all pairs for all kinds, 4 value samples); "
        "poly.calc for every length of p with 5 (Rat) / 2 (float kinds) lengths of q (all pairs in the thorough tier), "
        "derivative orders 0..len+1 (= degree+2, one beyond the quantifier); poly.access for every length 0..5 x every index 0..len+1; "
        "poly.ctor; a family of general (inexact) f64/Complex operands for the bitwise tie (order of floating-point operations; oracle within 256*2^-53 of the running error bound of each compared value); values sampled (seeded), shapes exhaustive; distinct = distinct executor line; "
        "special STRUCTURE (driver/polylib.py: STRUCTS, RELATIONS, special_scalars): families related-* (q = p by value as a separate object, -p, c*p, x^k*p, p reversed, p', p with one "
        "coefficient changed), struct-* (one operand -- the longer one; thorough: also the shorter one and both -- all-zero of length >= 2, one-term c*x^k, two or more vanishing leading "
        "coefficients, zero interior, all ones, alternating signs, all equal, zeros of either sign (-0.0), every coefficient from the special menu 0 -0.0 1 -1 2 1/2 and for Complex "
        "+-i +-ki 1+-i), evaluation point and scalar factor from the same menu, access-special-* (the same classes, index first / last / one past the end), ctor-special-* (a vanishing "
        "leading argument included), hist-* (kind poly.hist, search-only: p[i]=x;trim -> p, degree, is_zero; trim;trim; trim;p[i]=x; coeffs().len()/push; coeffs()[i]=x; trim then + * - "
        "eval derivative; p[i]=x then eval derivative *); quick tier: two lengths per relation and one or two shapes per class, rotating with the seed; thorough: all lengths 1..9 / 20 shapes; "
        "non-trivial = both operands of degree >= 1 (ring/calc), non-empty polynomial (access)")
TRUSTED = ["Coq 8.16.1 kernel + vm_compute (primitive floats bit-exact)", "Rust executor /verif/harness (Rat = i128 rationals; k_poly.rs uses the public Polynomial API only)",
           "python driver: generators, textbook coefficient-list reference in Fraction / Gaussian rationals (driver/polylib.py), stream comparators",
           "hand-written Gallina model coq/Model/Poly.v tied to src/polynomial/{mod,arithmetic}.rs by differential execution (Rat vs Qc exact; f64/Complex vs primitive floats, bitwise)"]
ASSUMPTIONS = ["Rust semantics of Vec/usize as modelled (checked indexing, debug overflow checks)",
               "the sampled cases are where model and code were compared; the theorems are about the model",
               "eval / derivative / derivative_at of the EMPTY polynomial panic in code and model (unwrap of degree()); "
               "'the empty polynomial acts as zero' is read as a statement about sums and products (DESIGN 7, C11)"]
UNPROVED = ["the clause 'holds exactly for exactly-representable coefficients' is proved at binary64 (block polyexact of Props/C11.v) for integer-valued f64 and Gaussian-integer Complex<f64> coefficients with bounds in terms of the inputs (poly_ops_exact_float, peval_exact_float, the evaluation-homomorphism and derivative laws as equalities of floats): bit for bit for the additive laws, derivative linearity and the product rule; for negation, scaling and products under f64 == only (a zero can differ in sign: eval(-p) 1 = +0 but -(eval p 1) = -0 for p = 1 - x, pinned as a refuted witness); NOT proved: closed-form input bounds for pderiv_n and for the product / derivative laws (only the 'exact results fit below 2^53' form), dyadic non-integer coefficients; for inexact coefficients peval_backward_error / peval_forward_error (Horner, gamma_2d); the float tier is bit-compared with the primitive-float instance of the same Gallina functions",
            "operand non-mutation and owned = borrowed operator forms are run-time observations of the executor (a value model satisfies them vacuously)"]

MANIFEST = dict(
    text=("Theorems over any commutative ring (all lengths, all coefficient values) about the Gallina model of src/polynomial: coefficient "
          "formulae of + - neg scalar-multiple product (convolution sum) and derivative, result lengths, Horner evaluation = sum a_i x^i and "
          "is additive / multiplicative / commutes with negation and scaling, the commutative-ring laws of + and * coefficientwise (associativity "
          "of the convolution included), the empty polynomial is neutral for + - and absorbing for *, "
          "the derivative is linear and satisfies the product rule (as equalities of coefficient lists), derivative_n p (deg+1) is empty and higher "
          "orders panic; is_zero / trim / index specifications (where == decides equality); instantiated at Qc. The same Gallina "
          "functions are run against the implementation (Rat vs Qc exact on every pair of lengths 0..9; f64 and Complex<f64> bitwise -- in the quick tier every pair with an "
          "empty operand for both float kinds and every pair of non-empty lengths for ONE of the two float kinds, by the parity of the sum of the lengths; in the thorough "
          "tier every pair for every kind), "
          "plus general inexact floats (bitwise: pins the order of the floating-point operations), plus operands with special structure (equal / negated / scaled / shifted operands, "
          "all-zero, one-term, negative zeros, special values 0 1 -1 2 1/2 +-i as coefficients, evaluation points and scalar factors) and histories (index-assign, trim, coeffs() "
          "followed by the views and operators; search only), "
          "and an independent textbook coefficient-list model in exact arithmetic searches for a failing input."),
    note=("eval/derivative of the empty polynomial panic (code and model alike) and are outside the 'acts as zero' claim; "
          "operand non-mutation and owned=borrowed forms are observed at run time, not proved."),
    technique="Coq proof over an abstract commutative ring + model/implementation differential execution (vm_compute vs Rust executor) + exact reference search",
    design="7 (C11)")

def xval(rng, elt):
    """evaluation points: rationals for Rat; small integers for the float kinds (keeps Horner exact)"""
    if elt == 'rat':
        return Fraction(rng.range(-7, 7), rng.range(1, 4))
    if elt == 'f64':
        return float(rng.range(-3, 3))
    return complex(float(rng.range(-2, 2)), float(rng.range(-2, 2)))

def generate(rng, tier):
    cases = []
    reps = 4 if tier == "thorough" else 1
    L = 9
    for elt in ('rat', 'f64', 'cplx'):
        g = rng.fork("ring-" + elt)
        for lp in range(L + 1):
            for lq in range(L + 1):
                # quick tier: every pair over Rat; the float kinds share the pairs (f64: lp+lq even, Complex: odd;
                # both when an operand is empty) -- printing bit patterns dominates the model run
                if tier != "thorough" and elt != 'rat' and min(lp, lq) > 0 and (lp + lq) % 2 != (0 if elt == 'f64' else 1):
                    continue
                for _ in range(reps):
                    p, q = rpoly(g, elt, lp), rpoly(g, elt, lq)
                    x, s = xval(g, elt), sval(g, elt)
                    nt = lp >= 2 and lq >= 2
                    cases.append(mk_case(elt, "ring", [p, q, x, s], "ring-" + elt, nontrivial=nt))
        g = rng.fork("calc-" + elt)
        for lp in range(L + 1):
            # every length of p; q cycles through all lengths (all pairs in the thorough tier)
            if tier == "thorough": lqs = range(L + 1)
            elif elt == 'rat': lqs = [(lp * 3 + k * 4 + 1) % (L + 1) for k in range(3)] + [0, lp]
            else: lqs = [(lp * 3 + (1 if elt == 'f64' else 5)) % (L + 1), lp if lp % 2 == (0 if elt == 'f64' else 1) else 0]
            for lq in lqs:
                p, q = rpoly(g, elt, lp), rpoly(g, elt, lq)
                x, s = xval(g, elt), sval(g, elt)
                cases.append(mk_case(elt, "calc", [p, q, x, s, lp + 1], "calc-" + elt, nontrivial=(lp >= 2 and lq >= 2)))
        g = rng.fork("access-" + elt)
        for lp in range(6):
            for variant in range(3):
                p = rpoly(g, elt, lp)
                if variant == 1:        # trailing zeros (trim has work to do), including the all-zero polynomial
                    z = exact_zero(elt)
                    k = g.range(1, lp) if lp else 0
                    p = p[:lp - k] + [z] * k
                if variant == 2 and lp:
                    p = [exact_zero(elt)] * lp
                for i in range(lp + 2):
                    cases.append(mk_case(elt, "access", [p, i, sval(g, elt)], "access-" + elt, nontrivial=(lp > 0)))
        g = rng.fork("ctor-" + elt)
        for _ in range(3):
            cases.append(mk_case(elt, "ctor", [sval(g, elt) for _ in range(4)], "ctor-" + elt))
    # general floats (not exactly representable; rounding at every step): the bitwise tie then pins the ORDER of the
    # floating-point operations of eval / product / derivative; the oracle compares each value within 256*2^-53 x its running bound (class BV)
    for elt in ('f64', 'cplx'):
        g = rng.fork("general-" + elt)
        def gv():
            v = (g.unit() * 9.9 + 0.1) * (1 if g.chance(1, 2) else -1)
            return v if elt == 'f64' else complex(v, (g.unit() - 0.5) * 8)
        def gx():
            v = (g.unit() - 0.5) * 3
            return v if elt == 'f64' else complex(v, (g.unit() - 0.5) * 2)
        for k in range(36 if tier == "thorough" else 12):
            lp, lq = g.range(1, 6), g.range(1, 6)
            p, q = [gv() for _ in range(lp)], [gv() for _ in range(lq)]
            for kind, vals in (("ring", [p, q, gx(), gv()]), ("calc", [p, q, gx(), gv(), lp + 1])):
                c = mk_case(elt, kind, vals, "general-%s-%s" % (kind, elt), nontrivial=(lp >= 2 and lq >= 2))
                c.meta["approx"] = True
                cases.append(c)
    cases += special_structure_cases(rng, tier)
    # printing 64-bit patterns dominates the model run: mix the element kinds so that the coqc shards are balanced
    return rng.fork("order").shuffle(cases)

def spx(g, elt):
    """evaluation point / scalar factor from the special menu: 0, -0.0, 1, -1, 2, 1/2, for Complex also +-i, 1+-i, ..."""
    return g.choice(special_scalars(elt))

def special_structure_cases(rng, tier):
    """Operands with special STRUCTURE (the random menus above draw each coefficient independently, so operands that are
    related to one another, all-zero, one-term, ... occur rarely or never):
      related-<elt>     q stands in a relation to p: equal values (a separate object), -p, c*p, x^k*p, reversed, p', one
                        coefficient different -- fast paths keyed on `p == q` (squaring, p - p = 0, ...) and cancellation
      struct-<elt>      one operand (the LONGER one; in the thorough tier also the shorter one and both) from a structural
                        class: all-zero of length >= 2, monomial c*x^k, two or more vanishing leading coefficients, zero
                        interior, all ones, alternating signs, all equal, zeros of either sign (-0.0), every coefficient
                        from the special menu (Complex: on the axes, +-i, 1+-i)
      evaluation point and scalar factor from the special menu in all of them; the same classes for poly.access
      (indices first / last / one past the end), special arguments for poly.ctor, and histories (poly.hist)."""
    cases = []
    thorough = tier == "thorough"
    for elt in ('rat', 'f64', 'cplx'):
        g = rng.fork("related-" + elt)
        for k, rel in enumerate(RELATIONS):
            lens = range(1, 10) if thorough else [g.range(3, 5), g.range(6, 9)]
            for j, lp in enumerate(lens):
                p = rpoly(g, elt, lp) if g.chance(2, 3) else struct_poly(g, elt, lp, "axis")
                q = related_poly(g, elt, p, rel)
                if g.chance(1, 2) and rel not in ("equal", "negated"): p, q = q, p
                kinds = ("ring", "calc") if (thorough or rel == "equal") else (("ring",) if (j + k) % 2 == 0 else ("calc",))
                for kind in kinds:
                    vals = [p, q, spx(g, elt), spx(g, elt)] + ([len(p) + 1] if kind == "calc" else [])
                    cases.append(mk_case(elt, kind, vals, "related-%s-%s" % (rel, elt), nontrivial=(len(p) >= 2 and len(q) >= 2)))
        g = rng.fork("struct-" + elt)
        for k, cls in enumerate(STRUCTS):
            if elt == 'rat' and cls == "neg-zeros" and not thorough: continue
            # (length of the structured operand, length of the other one)
            shapes = [(a, b) for a in (1, 2, 3, 5, 8) for b in (1, 2, 4, 7)] if thorough else [(g.range(3, 7), g.range(1, 2)), (g.range(2, 4), g.range(4, 6))][:2 if k % 2 == 0 else 1]
            for j, (a, b) in enumerate(shapes):
                sp, other = struct_poly(g, elt, a, cls), rpoly(g, elt, b)
                # ring: the structured operand on the right (p+q, q+p, p-q, q-p, p*q, q*p all see it); calc: on the left (its derivatives)
                vals = [other, sp, spx(g, elt), spx(g, elt)]
                cases.append(mk_case(elt, "ring", vals, "struct-%s-%s" % (cls, elt), nontrivial=(a >= 2 and b >= 2)))
                if thorough or j == 0:
                    cases.append(mk_case(elt, "calc", [sp, other, spx(g, elt), spx(g, elt), a + 1], "struct-%s-%s" % (cls, elt), nontrivial=(a >= 2 and b >= 2)))
            # both operands structured (one rotating pair of classes per seed in the quick tier)
            others = STRUCTS if thorough else [STRUCTS[(k + g.range(1, len(STRUCTS) - 1)) % len(STRUCTS)]]
            for c2 in others:
                a, b = g.range(2, 5), g.range(2, 5)
                vals = [struct_poly(g, elt, a, cls), struct_poly(g, elt, b, c2), spx(g, elt), spx(g, elt)]
                cases.append(mk_case(elt, "ring", vals, "struct-pair-" + elt))
        g = rng.fork("access-special-" + elt)
        for cls in STRUCTS:
            if elt == 'rat' and cls == "neg-zeros": continue
            for lp in (range(1, 6) if thorough else [g.range(2, 5)]):
                p = struct_poly(g, elt, lp, cls)
                for i in ((0, lp - 1, lp) if thorough else (g.choice([0, lp - 1]), lp)):
                    cases.append(mk_case(elt, "access", [p, i, spx(g, elt)], "access-special-" + elt))
        g = rng.fork("hist-" + elt)
        classes = ("random",) + STRUCTS
        for k, cls in enumerate(classes):
            if elt == 'rat' and cls == "neg-zeros": continue
            if not thorough and (k + g.below(2)) % 2: continue            # half of the classes per seed
            for lp in (range(0, 6) if thorough else [g.range(1, 5)]):
                p = (rpoly(g, elt, lp) if cls == "random" else struct_poly(g, elt, lp, cls)) if lp else []
                q = rpoly(g, elt, g.range(0, 4))
                # index: first, last, one past the end; value: zero (the assignment creates a vanishing leading coefficient) or special
                for i in ((0, max(lp - 1, 0), lp) if thorough else (g.choice([0, max(lp - 1, 0)]), max(lp - 1, 0) if g.chance(2, 3) else lp)):
                    x = conv(elt, 0) if g.chance(1, 2) else spx(g, elt)
                    cases.append(mk_case(elt, "hist", [p, q, i, x], "hist-" + elt, nontrivial=(lp > 0)))
        g = rng.fork("ctor-special-" + elt)
        menu = special_scalars(elt)
        for k in range(len(menu) if thorough else 3):
            # each argument in turn from the special menu (a vanishing leading coefficient a = 0 included), the others random
            v = [sval(g, elt) for _ in range(4)]
            v[k % 4] = menu[(k + g.below(len(menu))) % len(menu)] if not thorough else menu[k]
            if k % 3 == 0: v[0] = conv(elt, 0)
            cases.append(mk_case(elt, "ctor", v, "ctor-special-" + elt))
    return cases

def exact_zero(elt):
    return {'rat': Fraction(0), 'f64': 0.0, 'cplx': complex(0.0, 0.0)}[elt]

def case_from_json(j):
    return case_from_json_common(j, ("ring", "calc", "access", "ctor", "hist"))

# ------------------------------------------------------------------ oracle
_APPROX = False      # False: exact comparison; True: general-float case, every expected value carries a running bound

class BV:
    """exact expected value + the value of the same expression on the absolute values of the operands (every '-'
    read as '+'): a floating-point evaluation of the expression with N operations differs from the exact value by at
    most gamma_N times that bound, whatever the order of the additions (Higham, Accuracy and Stability, 3.1/5.1)"""
    __slots__ = ("v", "b")
    def __init__(self, v, b): self.v, self.b = v, Fraction(b)
    @staticmethod
    def of(x):
        if isinstance(x, BV): return x
        if isinstance(x, CQ): return BV(x, abs(x.re) + abs(x.im))        # |zw|_1 <= |z|_1 |w|_1
        return BV(x, abs(x))
    def __add__(self, o): o = BV.of(o); return BV(self.v + o.v, self.b + o.b)
    __radd__ = __add__
    def __sub__(self, o): o = BV.of(o); return BV(self.v - o.v, self.b + o.b)
    def __rsub__(self, o): o = BV.of(o); return BV(o.v - self.v, self.b + o.b)
    def __mul__(self, o): o = BV.of(o); return BV(self.v * o.v, self.b * o.b)
    __rmul__ = __mul__
    def __neg__(self): return BV(-self.v, self.b)
    def __eq__(self, o): return self.v == BV.of(o).v
    def __ne__(self, o): return not self.__eq__(o)
    def __hash__(self): return hash(self.v)
    def __repr__(self): return repr(self.v)
    __str__ = __repr__

GAMMA = Fraction(256, 2 ** 53)       # >= gamma_N for the at most ~60 operations behind any compared value, complex products included

def _val(x): return x.v if isinstance(x, BV) else x

def _eq(a, b, slack=1):
    """a: the implementation's value; b: the expected value (a BV in a general-float case)"""
    if not isinstance(b, BV): return a == b
    return mag(a - b.v) <= slack * GAMMA * b.b

def _same_fn(p, q, bounds):
    """two answers of the implementation that the law equates; bounds: the expected coefficient list (BV) of either"""
    n = max(len(p), len(q))
    z = lambda l, i: (l[i] if i < len(l) else 0)
    if not _APPROX: return all(z(p, i) == z(q, i) for i in range(n))
    return all(mag(z(p, i) - z(q, i)) <= 2 * GAMMA * (bounds[i].b if i < len(bounds) else 0) for i in range(n))

def _show(p):
    return "[" + ", ".join(str(a) for a in p) + "]" if isinstance(p, list) else str(p)

def _exp_poly(name, got, exp):
    if got == 'P': return "%s panicked; the textbook result is %s" % (name, _show(exp))
    if not poly_finite(got): return "%s has a non-finite coefficient" % name
    if len(got) != len(exp):
        return "%s has %d coefficients, the textbook result has %d (%s vs %s)" % (name, len(got), len(exp), _show(got), _show(exp))
    for k, (a, b) in enumerate(zip(got, exp)):
        if not _eq(a, b): return "%s: coefficient %d is %s, the textbook formula gives %s" % (name, k, a, b)
    return None

def _exp_scalar(name, got, exp):
    if got == 'P': return "%s panicked; expected %s" % (name, exp)
    if is_nonfinite(got): return "%s is not finite; expected %s" % (name, exp)
    if not _eq(got, exp): return "%s = %s, expected %s" % (name, got, exp)
    return None

def _ex(elt, a):
    v = exact(elt, a)
    return BV.of(v) if _APPROX else v

def _z(elt):
    return BV.of(zero_of(elt)) if _APPROX else zero_of(elt)

def oracle_ring(elt, vals, st):
    p, q, x, s = vals
    P, Q = [_ex(elt, a) for a in p], [_ex(elt, a) for a in q]
    X, S = _ex(elt, x), _ex(elt, s)
    z = _z(elt)
    names = ["p+q", "p-q", "p*q", "-p", "p*s", "q+p", "q-p", "q*p"]
    exp = [ref_add(P, Q), ref_sub(P, Q), ref_mul(P, Q, z), ref_neg(P), ref_scale(P, S), ref_add(Q, P), ref_sub(Q, P), ref_mul(Q, P, z)]
    got = []
    for nm, e in zip(names, exp):
        r = st.poly(); d = st.int()
        got.append(r)
        m = _exp_poly(nm, r, e)
        if m: return m
        if d != len(e) - 1: return "degree() of %s is %d, expected %d" % (nm, d, len(e) - 1)
    ev = []
    for nm, e in zip(["p", "q"] + names, [P, Q] + exp):
        v = st.scalar_or_panic()
        ev.append(v)
        want = ref_eval(e, X, z)
        if want is None:
            # eval of the empty polynomial: a panic (as pinned) or the value zero are both compatible with the property
            if v != 'P' and not (v == _val(z)): return "eval of the empty polynomial %s returned %s" % (nm, v)
            continue
        m = _exp_scalar("eval(%s) at x=%s" % (nm, X), v, want)
        if m: return m
    # the laws on the implementation's own values (value of a result = same combination of the operands' values)
    if P and Q:
        vp, vq = ev[0], ev[1]
        wants = [ref_eval(e, X, z) for e in exp[:5]]
        laws = [("p+q", ev[2], vp + vq), ("p-q", ev[3], vp - vq), ("p*q", ev[4], vp * vq), ("-p", ev[5], -vp), ("p*s", ev[6], vp * _val(S))]
        for (nm, a, b), w in zip(laws, wants):
            # both sides are within GAMMA*bound of the exact value w (the product of two such values within 3x)
            ok = (a == b) if not _APPROX else mag(a - b) <= 4 * GAMMA * w.b
            if not ok: return "eval(%s)(x) = %s but the same combination of eval(p)(x)=%s, eval(q)(x)=%s gives %s" % (nm, a, vp, vq, b)
    return None

def oracle_calc(elt, vals, st):
    p, q, x, s, nmax = vals
    P, Q = [_ex(elt, a) for a in p], [_ex(elt, a) for a in q]
    X, S = _ex(elt, x), _ex(elt, s)
    z = _z(elt)
    for n in range(nmax + 1):
        d = st.poly_or_panic(); v = st.scalar_or_panic()
        want = ref_deriv_n(P, n)
        if want is None:
            continue                      # order beyond degree+1 (derivative of the empty polynomial): outside the quantifier
        m = _exp_poly("derivative_n(p, %d)" % n, d, want)
        if m: return m
        wv = ref_eval(want, X, z)
        if wv is None:
            if v != 'P' and not (v == _val(z)): return "derivative_at(p, x, %d) of order degree+1 returned %s (neither a panic nor zero)" % (n, v)
            continue
        m = _exp_scalar("derivative_at(p, %s, %d)" % (X, n), v, wv)
        if m: return m
    dP, dQ = ref_deriv(P), ref_deriv(Q)
    def opt(f, *a):
        return None if any(t is None for t in a) else f(*a)
    items = [("(p+q)'", ref_deriv(ref_add(P, Q))), ("p'+q'", opt(ref_add, dP, dQ)),
             ("(p*q)'", ref_deriv(ref_mul(P, Q, z))),
             ("p'*q+p*q'", opt(lambda a, b: ref_add(ref_mul(a, Q, z), ref_mul(P, b, z)), dP, dQ)),
             ("(p*s)'", ref_deriv(ref_scale(P, S))), ("p'*s", opt(ref_scale, dP, S))]
    got = {}
    wants = dict(items)
    for nm, want in items:
        r = st.poly_or_panic()
        got[nm] = r
        if want is None: continue          # an operand (or the result) is the empty polynomial: its derivative is outside the claim
        m = _exp_poly(nm, r, want)
        if m: return m
    for a, b, law in (("(p+q)'", "p'+q'", "linearity (sum)"), ("(p*q)'", "p'*q+p*q'", "product rule"), ("(p*s)'", "p'*s", "linearity (scalar)")):
        if P and Q and got[a] != 'P' and got[b] != 'P':
            if not _same_fn(got[a], got[b], wants[b] if wants[b] is not None else []):
                return "%s fails: %s = %s but %s = %s" % (law, a, _show(got[a]), b, _show(got[b]))
    return None

def oracle_access(elt, vals, st):
    p, i, x = vals
    P = [exact(elt, a) for a in p]; X = exact(elt, x)
    n = st.int(); d = st.int(); zf = st.int()
    if n != len(P): return "size() = %d for %d coefficients" % (n, len(P))
    if d != len(P) - 1: return "degree() = %d for %d coefficients" % (d, len(P))
    if zf != (1 if all(a == 0 for a in P) else 0): return "is_zero() = %d on %s" % (zf, _show(P))
    v = st.scalar_or_panic(); w = st.poly_or_panic(); t = st.poly_or_panic()
    if i < len(P):
        m = _exp_scalar("p[%d]" % i, v, P[i])
        if m: return m
        m = _exp_poly("p after p[%d] = x" % i, w, P[:i] + [X] + P[i + 1:])
        if m: return m
    if P:
        k = len(P)
        while k > 1 and P[k - 1] == 0: k -= 1
        m = _exp_poly("trim(p)", t, P[:k])
        if m: return m
    return None

def oracle_ctor(elt, vals, st):
    a, b, c, d = [exact(elt, v) for v in vals]
    m = _exp_poly("quadratic(a,b,c)", st.poly(), [c, b, a]) or _exp_poly("cubic(a,b,c,d)", st.poly(), [d, c, b, a]) \
        or _exp_poly("empty()", st.poly(), [])
    if m: return m
    if st.int() != -1: return "degree() of the empty polynomial is not an error"
    return None

def _trimmed(P):
    k = len(P)
    while k > 1 and P[k - 1] == 0: k -= 1
    return P[:k]

def oracle_hist(elt, vals, st):
    """histories: the expected answer of every block from the textbook model (lists), a panic where the first
    operation of the block has no meaning (index beyond the CURRENT size; trim / eval / derivative of the empty one)"""
    p, q, i, x = vals
    P, Q = [exact(elt, a) for a in p], [exact(elt, a) for a in q]
    X = exact(elt, x); z = zero_of(elt)
    def want_panic(name):
        if not st.peek_panic(): return "%s: expected a panic" % name
        st.pos += 1
        return None
    # H1: p[i] = x; trim
    if i >= len(P): m = want_panic("H1 p[%d] = x beyond the size %d" % (i, len(P)))
    else:
        c = _trimmed(P[:i] + [X] + P[i + 1:])
        m = _exp_poly("H1 p after p[%d] = %s; trim" % (i, X), st.poly_or_panic(), c)
        if not m:
            d, zf = st.int(), st.int()
            if d != len(c) - 1: m = "H1 degree() after p[%d] = %s; trim is %d, expected %d" % (i, X, d, len(c) - 1)
            elif zf != (1 if all(a == 0 for a in c) else 0): m = "H1 is_zero() after p[%d] = %s; trim is %d on %s" % (i, X, zf, _show(c))
    if m: return m
    # H2: trim; trim
    if not P:
        if st.peek_panic(): st.pos += 1          # trim of the empty polynomial: a panic (as pinned) or no change
        else:
            m = _exp_poly("H2 trim; trim of the empty polynomial", st.poly(), []); st.int()
    else:
        m = _exp_poly("H2 p after trim; trim", st.poly_or_panic(), _trimmed(P))
        if not m and st.int() != 1: m = "H2 the second trim changed a trimmed polynomial"
    if m: return m
    # H3: trim; p[i] = x
    t = _trimmed(P)
    if not P or i >= len(t):
        # (empty p: trim may panic, as pinned, or change nothing -- H2 and oracle_ring accept both; the assignment p[i] = x that
        # follows is beyond the size 0 and panics in either case, so the block's answer is a panic whatever trim does)
        m = want_panic("H3 trim; p[%d] = x beyond the trimmed size %d" % (i, len(t)))
    else: m = _exp_poly("H3 p after trim; p[%d] = %s" % (i, X), st.poly_or_panic(), t[:i] + [X] + t[i + 1:])
    if m: return m
    # H4: coeffs().len(); coeffs().push(x)
    n = st.int()
    if n != len(P): return "H4 coeffs().len() = %d for %d coefficients" % (n, len(P))
    m = _exp_poly("H4 p after coeffs().push(%s)" % X, st.poly(), P + [X])
    if m: return m
    d = st.int()
    if d != len(P): return "H4 degree() after coeffs().push is %d, expected %d" % (d, len(P))
    # H5: coeffs()[i] = x
    if i >= len(P): m = want_panic("H5 coeffs()[%d] = x beyond the size" % i)
    else: m = _exp_poly("H5 p after coeffs()[%d] = %s" % (i, X), st.poly_or_panic(), P[:i] + [X] + P[i + 1:])
    if m: return m
    # H6: trim then operate
    if not P:
        # trim of the empty polynomial: a panic (as pinned) or no change, as in H2 / oracle_ring.  Without a panic t is still the
        # empty polynomial: it acts as zero in t+q, t*q, q-t; eval of the empty polynomial is a panic (then the whole block is one
        # panic token) or the value zero; its derivative is outside the claim
        if st.peek_panic(): st.pos += 1
        else:
            m = (_exp_poly("H6 trim(empty)+q", st.poly(), ref_add([], Q)) or _exp_poly("H6 trim(empty)*q", st.poly(), ref_mul([], Q, z))
                 or _exp_poly("H6 q-trim(empty)", st.poly(), ref_sub(Q, [])))
            if not m:
                v = st.scalar()
                if not (v == z): m = "H6 eval of the empty polynomial returned %s (neither a panic nor zero)" % (v,)
                else: st.poly()
    elif st.peek_panic():
        m = "H6 trim p, then t+q, t*q, q-t, t(x), t' panicked"
    else:
        m = (_exp_poly("H6 trim(p)+q", st.poly(), ref_add(t, Q)) or _exp_poly("H6 trim(p)*q", st.poly(), ref_mul(t, Q, z))
             or _exp_poly("H6 q-trim(p)", st.poly(), ref_sub(Q, t)) or _exp_scalar("H6 trim(p)(%s)" % X, st.scalar(), ref_eval(t, X, z))
             or _exp_poly("H6 trim(p)'", st.poly(), ref_deriv(t)))
    if m: return m
    # H7: assign then operate
    if i >= len(P): m = want_panic("H7 p[%d] = x beyond the size" % i)
    elif st.peek_panic(): m = "H7 p[%d] = %s, then p(x), p', p*q panicked" % (i, X)
    else:
        c = P[:i] + [X] + P[i + 1:]
        m = (_exp_scalar("H7 p(%s) after p[%d] = %s" % (X, i, X), st.scalar(), ref_eval(c, X, z))
             or _exp_poly("H7 p' after p[%d] = %s" % (i, X), st.poly(), ref_deriv(c)) or _exp_poly("H7 p*q after p[%d] = %s" % (i, X), st.poly(), ref_mul(c, Q, z)))
    return m

def oracle(case, items):
    global _APPROX
    kind, vals = case_vals(case)
    st = Stream(case.elt, items)
    _APPROX = bool(case.meta.get("approx"))
    try:
        f = {"ring": oracle_ring, "calc": oracle_calc, "access": oracle_access, "ctor": oracle_ctor, "hist": oracle_hist}[kind]
        m = f(case.elt, vals, st)
        if m is None and not st.done():
            m = "answer has %d unexpected trailing items" % (len(items) - st.pos)
    except (StreamError, IndexError) as e:
        m = "answer stream malformed for poly.%s: %s (items %r)" % (kind, e, items[:12])
    return ("polynomial law fails on %s: %s" % (case.elt, m)) if m else None
