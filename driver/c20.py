# C20 -- mismatched shapes / out-of-range arguments are rejected (panic, nothing written); by-reference
# operands are never mutated; owned and borrowed forms agree; clones are independent.
import itertools
from common import *
from engine import Case
import guardtable

PID = "C20"
IMPORTS = "From OV Require Import gen.GuardTable."
MODEL_VO = ["gen/GuardTable.vo"]
EXHAUSTIVE = True
CHUNK = 600
RULE = ("every checked entry point of Vector, Matrix, Banded, Tridiagonal, Sparse, Mesh1D/2D and Polynomial (driver/guardtable.py: %d entries) "
        "on EVERY tuple of sizes/arguments of its enumeration domain (sizes 0..6 for 2-3 variables, 0..4/0..3 for 4-6 variables, indices one past "
        "the largest size), minus degenerate tuples outside every property's quantifier (listed per entry as `dontcare`); one executor call per "
        "tuple under catch_unwind, receiver/operands snapshotted before and compared bit-for-bit after; the Gallina guard regenerated from the "
        "source is evaluated on the same tuples; a case = up to %d tuples of one entry; non-trivial = the case contains both accepted and rejected tuples "
        "(or is a clone-independence case). Added by the special-values audit (findings/special-values-specB/C20-table.md), all search-only: "
        "`payload-zero` = every entry that has a payload (value written, second operand, right-hand side, triplet value: 46 entries) on its full tuple "
        "domain again with the payload all zeros; `history-receiver` = Index / IndexMut of a Banded after resize to other bandwidths (IndexMut with a frame "
        "check: code 6), of a Tridiagonal after resize, get/set_row/col of a Matrix after transpose_in_place / delete_row / resize, exhaustive over their "
        "domains; `quadrature-var` = the variable index of the three trapezium functions; `owned-vs-borrowed-inexact` = on operands whose sums and products are inexact in f64 (the other builders are small dyadic numbers) "
        "every consuming form against its by-reference counterpart (op(a.clone(), b.clone()) against op(&a, &b), `x op= c` against `x op= &c`: bit-identical, "
        "C20's \"identical results\") and every assign / scalar-left / method form against the binary operator (same outcome class -- value or panic --, values "
        "within rounding: 1e-12 of the largest entry; C20 does not state these to be bitwise equal, a `/=` through the reciprocal is allowed); "
        "`same-object` = `&a op &a` against `&a op &a.clone()` for Vector, Matrix (square and not), Banded, Polynomial: outcome class exactly, value bit-identical on "
        "the dyadic builders (every operation exact) and within rounding (1e-12 of the largest entry) on the inexact ones; `clone-every-mutator` = "
        "the clone is a bit-for-bit copy when taken and independent under every public mutator of the five Clone types, clone first and original first") % (len(guardtable.ENTRIES), CHUNK)
TRUSTED = ["Coq 8.16.1 kernel + vm_compute (lia/ZifyBool proofs are kernel-checked terms)",
           "driver/translate.py: regular-expression/recursive-descent translator from `if cond { panic!(..) }` guards to Gallina booleans over Z",
           "driver/guardtable.py: which source atoms (self.rows, vec.size(), ...) denote which integer variable; in particular `self.col_start.len()` of Sparse is "
           "read as c + 1 (the representation invariant wfS of Props/C06.v, proved there for every constructor and operation, not re-derived in C20)",
           "Rust executor harness/src/k_guards.rs (object builders, snapshots, catch_unwind)", "python driver (enumeration, independent python predicates)"]
ASSUMPTIONS = ["usize arithmetic in guards is modelled over Z (a guard whose subtraction underflows panics in the debug profile, and is counted as firing)",
               "operands behind `&` can only be modified through unsafe code or interior mutability: observed at run time, not proved",
               "raw (i,j) index operators of Matrix, Banded (beyond its band test) and Mesh2D are outside the claim"]
UNPROVED = ["non-mutation of by-reference operands, owned = borrowed results and clone independence are run-time observations over the enumerated domain (a value model satisfies them vacuously)",
            "absence of native (index/underflow) panics on conformable input IS proved at the level of the source-regenerated model (entry_contract_*: on every "
            "well-formed receiver the modelled entry returns a value exactly on the specified range, and entry_contract_native for the 13 entries guarded only by "
            "Vec indexing); the step from that model to the compiled code is the execution tie over the enumerated domain"]
MANIFEST = dict(
    text=("%d theorems (Props/C20.v)." % ntheorems("C20") + " 62 guard_<entry>, one per checked entry point, each for ALL integer sizes and arguments: the explicit guards of the entry point, "
          "regenerated from /repo's source into gen/GuardTable.v on every run, let a call through exactly when the arguments are conformable / in "
          "the documented range (hand-written specification Model/Guards.v); a weakened, inverted or deleted guard breaks its proof obligation. "
          "13 entry_contract_* theorems (Proofs/Guards2*.v) state the contract on the executable model that is itself proved equal to the source translation "
          "(model_is_source_C20_*): for every well-formed receiver and ALL arguments, the modelled entry panics with the guard class exactly outside the specified "
          "range (rejects), returns a value inside it (accepts: no index / underflow panic on conformable input), and a rejected mutator leaves nothing behind because "
          "the guard precedes every write (mutators_guard_or_return: exactly two outcomes); entry_contract_native covers the 13 entries rejected by Vec indexing; "
          "entry_contract_refutes_legacy shows the pre-repair set_col is excluded by the contract. "
          "Tied to the code by executing every entry point on every tuple of its enumeration domain (exhaustive, sizes up to 6) and comparing "
          "panic-vs-value with the regenerated guard evaluated in Coq and with an independent python predicate; the executor also detects writes "
          "that happen before a panic, mutation of by-reference operands, owned/borrowed disagreement and clone interference. The same tuples run again "
          "with all-zero payloads (a zero fast path must not skip a guard); checked accessors also run on receivers produced by resize / transpose / delete_row "
          "(the guard must read the state the history left), and on operands with inexact sums and products the consuming forms are compared bit for bit with "
          "their by-reference counterparts, the assign / scalar-left / method forms with the binary operators up to rounding (outcome class exactly)."),
    note=("Guards are extracted by a regular-expression/recursive-descent translator (trusted; a guard it cannot classify is reported as a broken tie). "
          "Operand non-mutation / clone independence are observed at run time over the enumerated domain (a value model satisfies them by construction). Frame properties of the dense-matrix setters are theorems of C03."),
    technique="Coq proof (lia over Z) about guards regenerated from the source by a translator + exhaustive small-scope differential execution",
    design="7 (C20)")

# ---- additions of the special-values audit (findings/special-values-specB/C20-table.md) -------------------------------------------
# (1) payload value class: the guard.<entry>@zero variants run the SAME tuples with the payload (value written, vector / matrix /
#     banded second operand, right-hand side, triplet value) all zeros -- a fast path keyed on a zero value must not skip a guard.
ZERO_KEYS = ["vec_add_ref", "vec_sub_ref", "vec_add_assign", "vec_sub_assign", "vec_dot", "vec_dot_f64",
             "mat_set_row", "mat_set_col", "mat_multiply", "mat_fill_row", "mat_fill_col", "mat_solve_basic", "mat_solve_lu",
             "mat_add_ref", "mat_sub_ref", "mat_add_assign_ref", "mat_sub_assign_ref", "mat_mul_ref",
             "band_fill_band", "band_solve", "band_index_mut", "band_add_ref", "band_sub_ref", "band_add_assign_ref", "band_sub_assign_ref", "band_mul_vec",
             "tri_with_vectors", "tri_with_vecs", "tri_solve", "tri_index_mut", "tri_mul_vec",
             "sp_from_triplets", "sp_insert", "sp_multiply", "sp_transpose_multiply", "sp_solve_bicg", "sp_solve_bicgstab", "sp_solve_cg", "sp_solve_qmr",
             "mesh1_set_nodes_vars", "mesh2_set_nodes_vars", "poly_index_mut", "vec_index_mut", "vec_insert", "mesh1_index_mut", "mesh2_apply"]
# (2) entry points with a range precondition that the table of driver/guardtable.py does not list, and (3) the listed accessors on a
#     receiver produced by a HISTORY (resize / transpose_in_place / delete_row) instead of a constructor.  Same record format as
#     guardtable.ENTRIES; all `native` (executor + python predicate, no regenerated guard: the guards of the accessors are those of the
#     listed entries, what is new is the state they read).
def _mat_dims(r, c, h):
    return (c, r) if h == 0 else ((r - 1, c) if h == 1 else (c + 1, r))
def _X(**kw):
    for k, v in (("atoms", {}), ("data", []), ("pre", None), ("dontcare", None), ("native", True), ("guard_of", None), ("after", None), ("nomodel", None)):
        kw.setdefault(k, v)
    return kw
EXTRA = [
    _X(key="mesh1_trapezium", family="quadrature-var", vars=[("nn", 2, 5), ("nv", 0, 4), ("var", 0, 5)], ok=lambda nn, nv, var: var < nv),
    _X(key="mesh2_trapezium", family="quadrature-var", vars=[("nx", 2, 3), ("ny", 2, 3), ("nv", 0, 3), ("var", 0, 4)], ok=lambda nx, ny, nv, var: var < nv),
    _X(key="mesh2_square_trapezium", family="quadrature-var", vars=[("nx", 2, 3), ("ny", 2, 3), ("nv", 0, 3), ("var", 0, 4)], ok=lambda nx, ny, nv, var: var < nv),
    _X(key="h_band_index", family="history-receiver", vars=[("n", 1, 3), ("a1", 0, 2), ("a2", 0, 2), ("m1", 0, 2), ("m2", 0, 2), ("i", 0, 3), ("j", 0, 3)],
       ok=lambda n, a1, a2, m1, m2, i, j: j <= i + m2 and i <= j + m1, dontcare=lambda n, a1, a2, m1, m2, i, j: i >= n or j >= n),
    _X(key="h_band_index_mut", family="history-receiver", vars=[("n", 1, 3), ("a1", 0, 2), ("a2", 0, 2), ("m1", 0, 2), ("m2", 0, 2), ("i", 0, 3), ("j", 0, 3)],
       ok=lambda n, a1, a2, m1, m2, i, j: j <= i + m2 and i <= j + m1, dontcare=lambda n, a1, a2, m1, m2, i, j: i >= n or j >= n),
    _X(key="h_tri_index", family="history-receiver", vars=[("n0", 0, 4), ("n", 1, 5), ("i", 0, 6), ("j", 0, 6)],
       ok=lambda n0, n, i, j: i < n and j < n and abs(i - j) <= 1),
    _X(key="h_tri_index_mut", family="history-receiver", vars=[("n0", 0, 4), ("n", 1, 5), ("i", 0, 6), ("j", 0, 6)],
       ok=lambda n0, n, i, j: i < n and j < n and abs(i - j) <= 1),
    _X(key="h_mat_get_row", family="history-receiver", vars=[("r", 1, 4), ("c", 1, 4), ("h", 0, 2), ("row", 0, 6)],
       ok=lambda r, c, h, row: row < _mat_dims(r, c, h)[0]),
    _X(key="h_mat_get_col", family="history-receiver", vars=[("r", 1, 4), ("c", 1, 4), ("h", 0, 2), ("col", 0, 6)],
       ok=lambda r, c, h, col: col < _mat_dims(r, c, h)[1]),
    _X(key="h_mat_set_row", family="history-receiver", vars=[("r", 1, 3), ("c", 1, 3), ("h", 0, 2), ("row", 0, 5), ("vl", 0, 5)],
       ok=lambda r, c, h, row, vl: row < _mat_dims(r, c, h)[0] and vl == _mat_dims(r, c, h)[1]),
    _X(key="h_mat_set_col", family="history-receiver", vars=[("r", 1, 3), ("c", 1, 3), ("h", 0, 2), ("col", 0, 5), ("vl", 0, 5)],
       ok=lambda r, c, h, col, vl: col < _mat_dims(r, c, h)[1] and vl == _mat_dims(r, c, h)[0]),
]
BYKEY = dict(guardtable.BYKEY)
BYKEY.update({e["key"]: e for e in EXTRA})
OWN2 = ("vector", "matrix", "banded", "tridiagonal", "polynomial")

def tuples_of(ent, tier="quick"):
    wide = 2 if (tier == "thorough" and len(ent["vars"]) >= 4) else 0     # thorough: the many-variable entries reach sizes 5..6 too
    doms = [range(lo - (wide if lo < 0 else 0), hi + wide + 1) for _, lo, hi in ent["vars"]]
    dc = ent["dontcare"]
    # degenerate tuples are exempt only in the direction "conformable => must return"; a MISMATCHED / out-of-range call must
    # be rejected on degenerate receivers too (the size guards come first)
    return [t for t in itertools.product(*doms) if not (dc and dc(*t) and ent["ok"](*t))]

def mk(ent, ts, part, with_term=True, mode=None):
    k = len(ent["vars"])
    line = "guard.%s%s %d %s" % (ent["key"], "@" + mode if mode else "", k, " ".join(str(x) for t in ts for x in t))
    term = None
    if mode:
        oks = [bool(ent["ok"](*t)) for t in ts]
        return Case("f64", line, None, meta={"key": ent["key"], "mode": mode, "tuples": [list(t) for t in ts]},
                    family="payload-" + mode, nontrivial=(any(oks) and not all(oks)), check_class=False)
    if not ent["native"] and with_term:
        apps = "; ".join("g_%s %s" % (ent["key"], " ".join("(%d)%%Z" % x for x in t)) for t in ts)
        term = "concat (map (fun b : bool => [0%%Z; if b then 1%%Z else 0%%Z]) [%s])" % apps
    oks = [bool(ent["ok"](*t)) for t in ts]
    return Case("f64", line, term, meta={"key": ent["key"], "tuples": [list(t) for t in ts]},
                family=ent.get("family") or ent["key"].split("_")[0], nontrivial=(any(oks) and not all(oks)), check_class=False)

_counts = {"tuples": 0, "entries": 0, "rejected": 0, "accepted": 0}

def generate(rng, tier):
    cases = []
    _counts.update(tuples=0, entries=0, rejected=0, accepted=0, extra_tuples=0, zero_payload_tuples=0)
    for ent in guardtable.ENTRIES:
        ts = tuples_of(ent, tier)
        _counts["entries"] += 1
        _counts["tuples"] += len(ts)
        for t in ts:
            _counts["accepted" if ent["ok"](*t) else "rejected"] += 1
        nm = ent["nomodel"]
        tm = [t for t in ts if not (nm and nm(*t))]
        tr = [t for t in ts if nm and nm(*t)]          # usize arithmetic of the guard itself underflows: executor + oracle only
        for i in range(0, len(tm), CHUNK):
            cases.append(mk(ent, tm[i:i + CHUNK], i // CHUNK))
        if tr:
            cases.append(mk(ent, tr, 0, with_term=False))
    # the additions: extra entries (exhaustive), zero payloads (every tuple of every entry with a payload), inexact operands
    for ent in EXTRA:
        ts = tuples_of(ent, "quick")
        _counts["extra_tuples"] = _counts.get("extra_tuples", 0) + len(ts)
        for i in range(0, len(ts), CHUNK):
            cases.append(mk(ent, ts[i:i + CHUNK], i // CHUNK))
    for key in ZERO_KEYS:
        ent = guardtable.BYKEY[key]
        ts = tuples_of(ent, tier)
        _counts["zero_payload_tuples"] = _counts.get("zero_payload_tuples", 0) + len(ts)
        for i in range(0, len(ts), CHUNK):
            cases.append(mk(ent, ts[i:i + CHUNK], i // CHUNK, mode="zero"))
    for ty in OWN2:
        cases.append(Case("f64", "guard.own2_%s %s" % (ty, " ".join(str(n) for n in range(0, 7))), None,
                          meta={"own": ty, "inexact": True}, family="owned-vs-borrowed-inexact", nontrivial=True))
    for ty in ("vector", "matrix", "banded", "polynomial"):
        cases.append(Case("f64", "guard.self_%s %s" % (ty, " ".join(str(n) for n in range(0, 7))), None,
                          meta={"own": ty, "same_object": True}, family="same-object", nontrivial=True))
    for ty in ("vector", "matrix", "banded", "tridiagonal", "polynomial"):
        cases.append(Case("f64", "guard.clone2_%s %s" % (ty, " ".join(str(n) for n in range(0, 7))), None,
                          meta={"clone": ty, "every_mutator": True}, family="clone-every-mutator", nontrivial=True))
    for ty in ("vector", "matrix", "banded", "tridiagonal", "polynomial"):
        cases.append(Case("f64", "guard.clone_%s %s" % (ty, " ".join(str(n) for n in range(0, 7))), None,
                          meta={"clone": ty}, family="clone", nontrivial=True))
    for ty in ("vector", "matrix", "banded", "polynomial"):
        cases.append(Case("f64", "guard.own_%s %s" % (ty, " ".join(str(n) for n in range(0, 7))), None,
                          meta={"own": ty}, family="owned-vs-borrowed", nontrivial=True))
    return cases

def case_from_json(j):
    m = j["meta"]
    if "clone" in m:
        return Case("f64", j["line"], None, meta=m, family="clone")      # (also the clone2 / self / own2 lines: the line carries the kind)
    if "own" in m:
        return Case("f64", j["line"], None, meta=m, family="owned-vs-borrowed")
    ent = BYKEY[m["key"]]
    return mk(ent, [tuple(t) for t in m["tuples"]], 0, mode=m.get("mode"))

CODE = {2: "panicked only AFTER writing to the receiver (storage modified before the panic)", 3: "returned, but a by-reference operand was modified",
        4: "returned, but the owned and the borrowed form of the operation disagree",
        5: "the by-reference form panicked but the consuming (owned) form of the same operation accepted the operands and returned a value",
        6: "returned, but the write landed in (or also changed) the storage of another element"}
# the form comparisons (own / own2 / self kinds only).  Bit identity (code 4) is demanded of op(a.clone(), b.clone()) against op(&a, &b)
# and of `x op= &c` against `x op= c` -- "their consuming counterparts return identical results" -- and of everything on the dyadic
# builders (all sums and products exact).  Assign forms against binary forms, scalar-left forms, methods against operators and the same
# object on both sides, on inexact data: same outcome class (9) and values within rounding (8) -- C20 states nothing bitwise about them.
FORM_CODE = dict(CODE)
FORM_CODE.update({8: "the assign / scalar-left / method form (or, for a polynomial, `&p * &p` with the same object on both sides) differs from the binary form beyond rounding (an entry off by more than 1e-12 of the largest entry, or another shape)",
                  9: "one form of the operation panicked where the other form, given equal operands, returned a value"})
SELF_CODE = {4: "a by-reference operator given the SAME object on both sides does not do what it does for an equal, distinct operand (exactly representable data: every sum and product is exact, the results must be bit-identical)",
             8: "a by-reference operator given the SAME object on both sides differs beyond rounding (more than 1e-12 of the largest entry, or another shape) from what it returns for an equal, distinct operand",
             9: "a by-reference operator given the SAME object on both sides panics where an equal, distinct operand is accepted (or the reverse)"}

def oracle(case, items):
    m = case.meta
    if "clone" in m:
        bad = [k for k, it in enumerate(items) if it != ('i', 0)]
        if bad and items[bad[0]] == ('i', 7):
            return "clone of a %s is not a bit-for-bit copy of its original at the moment it is taken (size index %s)" % (m["clone"], bad)
        return ("clone of a %s is not independent of its original (size index %s)%s" % (m["clone"], bad, ": %r" % (items[bad[0]],) if items[bad[0]][0] != 'i' else "")) if bad else None
    if "own" in m:
        for k, it in enumerate(items):
            if it != ('i', 0):
                if m.get("same_object") and it[0] == 'i' and it[1] in SELF_CODE:
                    return "%s of size index %d: %s" % (m["own"], k, SELF_CODE[it[1]])
                return "%s%s of size index %d: %s" % (m["own"], " (operands with inexact sums/products)" if m.get("inexact") else "", k, FORM_CODE.get(it[1], "unexpected answer %r" % (it,)) if it[0] == 'i' else "unexpected answer %r" % (it,))
        return None
    ent = BYKEY[m["key"]]
    if len(items) != len(m["tuples"]):
        return "entry %s: executor answered %d of %d tuples (%r)" % (m["key"], len(items), len(m["tuples"]), items[-2:])
    names = [n for n, _, _ in ent["vars"]]
    for t, it in zip(m["tuples"], items):
        if it[0] != 'i':
            return "entry %s %s: unexpected answer %r" % (m["key"], dict(zip(names, t)), it)
        c = it[1]
        args = ", ".join("%s=%d" % p for p in zip(names, t)) + (", payload all zeros" if m.get("mode") == "zero" else "")
        if c in CODE:
            return "entry %s (%s): %s" % (m["key"], args, CODE[c])
        ok = bool(ent["ok"](*t))
        if ok and c == 1:
            return "entry %s (%s): conformable / in-range call panicked" % (m["key"], args)
        if not ok and c == 0:
            return "entry %s (%s): mismatched / out-of-range call returned a value instead of panicking" % (m["key"], args)
        if c not in (0, 1):
            return "entry %s (%s): unexpected answer code %r" % (m["key"], args, c)
    return None

def extra_coverage():
    return {"tuples_executed": _counts["tuples"], "entry_points": _counts["entries"],
            "extra_entry_tuples_executed": _counts.get("extra_tuples", 0), "zero_payload_tuples_executed": _counts.get("zero_payload_tuples", 0),
            "tuples_that_must_be_rejected": _counts["rejected"], "tuples_that_must_be_accepted": _counts["accepted"]}

# ---- source audit: the value model's assumption "an operand behind `&` cannot be modified" holds for safe Rust without
# interior mutability; any `unsafe`, raw pointer, Cell/RefCell/atomic or `static mut` in the crate voids it.
AUDIT = re.compile(r"\b(unsafe|UnsafeCell|RefCell|Cell\s*<|static\s+mut|transmute|\*mut\s|Atomic[A-Z][A-Za-z0-9]*|Mutex|RwLock)\b")

def extra_checks(exe, rng, tier):
    import translate
    found, nfiles = [], 0
    for root, _, files in os.walk(os.path.join(REPO, "src")):
        for fn in sorted(files):
            if not fn.endswith(".rs"): continue
            path = os.path.join(root, fn)
            src = open(path).read()
            if fn == "verif_hooks.rs":          # the cfg(ohsl_verif) recording hook (compiled out without the flag)
                continue
            nfiles += 1
            body = translate.strip_rust_comments(src)
            # lines guarded by #[cfg(ohsl_verif)] belong to the hook
            body = re.sub(r"#\[cfg\(ohsl_verif\)\][^\n]*\n[^\n]*\n", "\n", body)
            for m in AUDIT.finditer(body):
                line = body.count("\n", 0, m.start()) + 1
                found.append("%s:%d: %s" % (os.path.relpath(path, REPO), line, m.group(0)))
    ev = []
    if found:
        ev.append(("tie", "source audit: constructs that let a `&` operand be modified (unsafe / interior mutability) appeared: " + "; ".join(found[:6]),
                   {"audit": found[:20]}))
    return ev, {"source_audit": {"files": nfiles, "unsafe_or_interior_mutability_sites": len(found)}}
