# driver/r2c2_mkpintest.py -- (package r2c2) rebuild coq/Proofs/PinTest_r2c2.v from the pending pin blocks
# coq/Props/pending/CXX_r2c2.v.txt, so that the compiled copy contains exactly the same text.
import glob, os
here = os.path.dirname(os.path.abspath(__file__))
coq = os.path.join(here, "..", "coq")
out = ["(* Proofs/PinTest_r2c2.v -- compiled copy of the blocks of coq/Props/pending/CXX_r2c2.v.txt (package r2c2): shows that every",
       "   pending pin block compiles as it stands (written by driver/r2c2_mkpintest.py).  The coordinator appends the blocks to",
       "   Props/CXX.v at merge. *)",
       "From Coq Require Import List Arith ZArith.",
       "From OV Require Import Base.Panic Base.Arith Model.Vector Model.Matrix Model.Sparse Model.Iter Model.Newton Model.Roots.",
       "Import ListNotations.", ""]
for p in sorted(glob.glob(os.path.join(coq, "Props", "pending", "C??_r2c2.v.txt"))):
    out.append("(* ======================================================================== %s *)" % os.path.basename(p))
    out.append(open(p).read().rstrip("\n")); out.append("")
open(os.path.join(coq, "Proofs", "PinTest_r2c2.v"), "w").write("\n".join(out))
print("wrote Proofs/PinTest_r2c2.v")
