# driver/engine.py -- what one check run does (DESIGN.md section 5).
import os, sys, time, json, importlib, traceback
from common import *

class Case:
    __slots__ = ("cid", "elt", "line", "term", "meta", "family", "nontrivial", "tol", "check_class", "exact_bits")
    def __init__(self, elt, line, term, meta=None, family="", nontrivial=True, tol=1e-10, check_class=True, exact_bits=False):
        self.cid = None
        self.elt = elt          # element type token of the executor
        self.line = line        # "<kind> <args...>" for the executor
        self.term = term        # Gallina term : list Z (None: search-only case)
        self.meta = meta or {}  # python-side inputs for the oracle
        self.family = family    # generator family (input distribution in the evidence)
        self.nontrivial = nontrivial
        self.tol = tol
        self.check_class = check_class
        self.exact_bits = exact_bits   # property demands bit identity (C13 assignment forms, C16)

def load_corpus(pid, mod):
    d = os.path.join(VERIF, "corpus", pid)
    cases = []
    if os.path.isdir(d):
        for fn in sorted(os.listdir(d)):
            if fn.endswith(".json"):
                j = json.load(open(os.path.join(d, fn)))
                c = mod.case_from_json(j)
                if c is not None:
                    c.family = "corpus:" + fn[:-5]
                    cases.append(c)
    return cases

def run_check(pid, tier, seed, replay=None):
    t0 = time.time()
    mod = importlib.import_module(pid.lower())
    lines_out = []
    def say(s):
        print(s); sys.stdout.flush()
    violations = []       # (kind, description, replay payload)
    known_lines = []
    # ---- 0. fragments regenerated from /repo's current source (constants, guard tables)
    import translate
    regen_errors = {}
    try:
        _, regen_errors = translate.regenerate_all()
        if hasattr(mod, "prepare"):
            mod.prepare(tier)
    except translate.TieBroken as e:
        regen_errors["prepare"] = str(e)
    # ---- 1. proofs (re-checked against the regenerated fragments)
    pr = proof_step(pid, tier)
    # a fragment that could not be regenerated matters to this property iff its Props file depends on it
    deps = set(os.path.relpath(d, COQDIR) for d in vfile_deps(os.path.join(COQDIR, "Props", pid + ".v")))
    mine = {k: v for k, v in regen_errors.items() if k in deps or k == "prepare" or k in getattr(mod, "FRAGMENTS", ())}
    pr["obligations"] += 1                  # the source translators must recognise the current source
    if mine:
        for k, v in sorted(mine.items()):
            pr["errors"].append("source translator (%s): %s" % (k, v))
    else:
        pr["discharged"] += 1
    other = sorted(set(regen_errors) - set(mine))
    proof_broken = bool(pr["errors"]) or pr["discharged"] != pr["obligations"]
    # ---- 2. executor from the current working tree
    exe, bout = build_harness()
    if exe is None:
        say("executor build failed:\n" + bout[-3000:])
        payload = {"property": pid, "what": "the executor (harness) no longer builds against /repo's working tree",
                   "correspondence": "build", "log": bout[-3000:]}
        rp = write_replay(pid, payload)
        write_evidence(pid, tier, seed, {"obligations": pr["obligations"], "discharged": pr["discharged"],
                       "checker_cmd": "make Props/%s.vo" % pid, "trusted_base": mod.TRUSTED,
                       "explanation": "executor build failed"}, mod.ASSUMPTIONS, time.time() - t0, 1)
        say("VIOLATION property=%s replay=%s no-failing-input-found" % (pid, rp))
        return 1
    # ---- 3. cases
    rng = RNG(seed)
    cases = []
    if replay:
        j = json.load(open(replay))
        c = mod.case_from_json(j.get("case", j))
        c.family = "replay"
        cases = [c]
    else:
        cases = load_corpus(pid, mod) + mod.generate(rng, tier)
    for k, c in enumerate(cases):
        c.cid = "c%d" % k
    # ---- 4. implementation side
    impl = {}
    by_env = {}
    for c in cases:
        by_env.setdefault(json.dumps(c.meta.get("_env", None), sort_keys=True), []).append(c)
    for envkey, cs in by_env.items():
        env = json.loads(envkey)
        prefix = ""
        if env and "taskset" in env:
            prefix = "taskset -c %s " % env["taskset"]
        ans = run_harness(exe, ["%s %s %s" % (c.cid, c.elt, c.line) for c in cs], pid, prefix=prefix)
        impl.update(ans)
    # a case that hit the executor's watchdog is run once more, alone and with a six-fold limit, before it counts as a call
    # that does not return (a loaded or stalled machine must not produce the verdict).  Every timed-out case is re-run; once
    # five re-runs have confirmed a genuine hang the remaining ones are taken as timed out (the tree does hang).
    slow = [c for c in cases if impl.get(c.cid) is not None and any(t == "Ptimeout" for t in impl[c.cid])]
    confirmed = 0
    for c in slow:
        if confirmed >= 5: break
        env = c.meta.get("_env") or {}
        prefix = ("taskset -c %s " % env["taskset"]) if "taskset" in env else ""
        lim = str(6 * int(os.environ.get("VERIF_CASE_TIMEOUT", "10")))
        try:
            impl.update(run_harness(exe, ["%s %s %s" % (c.cid, c.elt, c.line)], pid + "retry", env={"VERIF_CASE_TIMEOUT": lim}, prefix=prefix))
        except Exception:
            pass
        if any(t == "Ptimeout" for t in impl.get(c.cid, [])): confirmed += 1
    discarded = 0
    live = []
    for c in cases:
        toks = impl.get(c.cid)
        if toks is None:
            raise RuntimeError("executor gave no answer for %s: %s" % (c.cid, c.line[:200]))
        if any(t == "Pratovf" for t in toks):
            discarded += 1
            continue
        if any(t == "Ptimeout" for t in toks):
            # the call did not come back within the executor's per-case limit: no property of this library tolerates a
            # call that does not return (work bounds / termination are part of C08, C10, C12, C17; elsewhere every modelled
            # function is total), and the model answers the same case in milliseconds
            violations.append(("oracle", "the call did not return within the executor's time limit (%s s): unbounded loop or work"
                               % os.environ.get("VERIF_CASE_TIMEOUT", "10"), c))
            continue
        if any(t == "Pharness" for t in toks):
            # the executor's own checks: operand mutated / owned-borrowed differ are property failures (C20);
            # anything else is a bug of the machinery
            msg = [t for t in toks if t.startswith("#")]
            if msg and ("operand_mutated" in msg[0] or "forms_differ" in msg[0] or "clone" in msg[0]):
                violations.append(("oracle", "executor observed: " + msg[0][1:], c))
                continue
            raise RuntimeError("executor rejected case %s: %s | %s" % (c.cid, toks[-1], c.line[:300]))
        live.append(c)
    # ---- 5. model side + correspondence
    terms = [(c.cid, c.term) for c in live if c.term is not None]
    tie = {"compared": 0, "same": 0, "close": 0, "differ": 0}
    tie_fail = []
    model = {}
    coq_err = None
    if terms:
        try:
            rcq, _ = coq_make(" ".join(mod.MODEL_VO))
            if rcq != 0:
                raise CoqRunError("model files do not build:\n" + _[-2000:])
            model = run_coq(terms, pid, mod.IMPORTS)
        except CoqRunError as e:
            coq_err = str(e)
    decoded = {}
    for c in live:
        decoded[c.cid] = decode_harness(impl[c.cid])
        if c.term is None or c.cid not in model:
            continue
        m = decode_coq(model[c.cid])
        verdict, detail, bitid = compare_streams(m, decoded[c.cid], tol=c.tol, check_class=c.check_class)
        if verdict == 'close' and c.exact_bits:
            verdict, detail = 'differ', "bit identity demanded by the property; " + detail
        tie["compared"] += 1
        tie[verdict] += 1
        if verdict == 'differ':
            tie_fail.append((c, detail, m))
    # ---- 6. failing-input search: the property statement as a predicate on the implementation's answers
    oracle_checked = 0
    fam = {}
    nontrivial = set()
    for c in live:
        fam[c.family] = fam.get(c.family, 0) + 1
        if c.nontrivial:
            nontrivial.add(c.line)
        try:
            r = mod.oracle(c, decoded[c.cid])
        except Exception as e:
            raise RuntimeError("oracle crashed on %s (%s): %s\n%s" % (c.cid, c.line[:200], e, traceback.format_exc()))
        oracle_checked += 1
        if r:
            violations.append(("oracle", r, c))
    # ---- 6b. property-specific extra procedures (interval certificates, CPU-affinity sweeps, source audits, ...)
    extra_cov = {}
    if hasattr(mod, "extra_checks") and not replay:
        ev, extra_cov = mod.extra_checks(exe, rng.fork("extra"), tier)
        for kind, desc, payload in ev:          # kind: 'oracle' (a failing input) | 'tie' (model/impl or translator disagreement)
            c = Case("-", "extra " + json.dumps(payload, default=str)[:2000], None, meta={"extra": payload}, family="extra")
            c.cid = "x%d" % len(violations)
            if kind == "oracle":
                violations.append(("oracle", desc, c))
            else:
                tie_fail.append((c, desc, None))
    # ---- 7. verdicts
    kf = known_findings()
    exit_code = 0
    reported = 0
    def case_json(c):
        return {"elt": c.elt, "line": c.line, "meta": c.meta, "family": c.family}
    seen_keys = set()
    downgraded = set()      # cases whose oracle failure matched an open known finding
    for kind, desc, c in violations:
        key = mod.finding_key(c, desc, decoded.get(c.cid)) if hasattr(mod, "finding_key") else None
        match = [e for e in kf["open"] if e["property"] == pid and key is not None and e["key"] == key]
        if match:
            if key not in seen_keys:
                seen_keys.add(key)
                known_lines.append("KNOWN-FINDING: property=%s %s" % (pid, match[0]["text"]))
            downgraded.add(id(c))
            continue
        if reported < 5:
            payload = {"property": pid, "what": desc, "case": case_json(c),
                       "implementation_answer": impl.get(c.cid), "model_answer": model.get(c.cid),
                       "replay_cmd": "./check %s --replay <this file>" % pid}
            rp = write_replay(pid, payload)
            say("VIOLATION property=%s replay=%s" % (pid, rp))
            say("  " + desc[:400])
        reported += 1
        exit_code = 1
    # open findings whose committed witness no longer fails are not printed; those that do are (above).
    # a disagreement between model and implementation is "explained" only by a REPORTED violation on the same case;
    # a case that merely matched a known-finding key keeps its tie obligation (a mutation cannot hide behind the key)
    vio_cases = set(id(c) for _, _, c in violations if id(c) not in downgraded)
    unexplained_tie = [(c, d, m) for (c, d, m) in tie_fail if id(c) not in vio_cases]
    if exit_code == 0 and (unexplained_tie or coq_err or proof_broken):
        # the property is no longer shown to hold, and the search found no failing input
        what = []
        if proof_broken:
            what.append("proof obligations: " + "; ".join(pr["errors"])[:1500] if pr["errors"] else "obligations %d discharged %d" % (pr["obligations"], pr["discharged"]))
        if coq_err:
            what.append("model run: " + coq_err[:1500])
        payload = {"property": pid, "what": "no longer shown to hold: " + " | ".join(what) if what else "correspondence broken",
                   "theorems": [t[0] for t in pr["theorems"] if not t[2]],
                   "failed_statement": pr.get("failed_statement")}
        if unexplained_tie:
            c, d, m = unexplained_tie[0]
            payload["correspondence"] = {"first_disagreement": d, "case": case_json(c),
                                         "implementation_answer": impl.get(c.cid), "model_answer": model.get(c.cid),
                                         "count": len(unexplained_tie)}
            payload["case"] = case_json(c)
        rp = write_replay(pid, payload)
        say("VIOLATION property=%s replay=%s no-failing-input-found" % (pid, rp))
        if unexplained_tie:
            say("  correspondence: %d case(s) differ; first: %s | %s" % (len(unexplained_tie), unexplained_tie[0][1][:300], unexplained_tie[0][0].line[:200]))
        for e in pr["errors"][:3]:
            say("  proof: " + e[:600])
        if coq_err: say("  model: " + coq_err[:600])
        exit_code = 1
    for l in known_lines:
        say(l)
    if coq_err: say("model run error: " + coq_err[:1500])
    for e in pr["errors"][:3]: say("proof step: " + e[:800])
    # ---- 8. evidence
    samples = [{"elt": c.elt, "case": c.line[:400], "family": c.family} for c in live[:3]] + \
              [{"elt": c.elt, "case": c.line[:400], "family": c.family} for c in live[len(live)//2:len(live)//2+2]]
    cov = {
        "obligations": pr["obligations"], "discharged": pr["discharged"],
        "checker_cmd": "cd /verif/coq && make Props/%s.vo && coqc -Q . OV Props/%s.v  (Print Assumptions audited against the allow-list; forbidden-construct grep over %d files)" % (pid, pid, len(pr["files"])),
        "trusted_base": mod.TRUSTED,
        "theorems": [{"name": t[0], "assumptions": t[1], "ok": t[2]} for t in pr["theorems"]],
        "proof_errors": pr["errors"],
        "evaluations": len(live), "distinct_nontrivial": len(nontrivial),
        "rule": mod.RULE,
        "samples": samples if samples else [{"note": "no cases"}],
        "traces_validated_against_impl": tie["compared"],
        "correspondence": tie, "discarded_rat_overflow": discarded,
        "oracle_checked": oracle_checked, "input_distribution": fam,
        "unproved_halves": mod.UNPROVED,
        "exhaustive": bool(getattr(mod, "EXHAUSTIVE", False)),
        "known_findings_hit": known_lines,
        "translator_fragments_broken_elsewhere": other,
    }
    if hasattr(mod, "extra_coverage"):
        cov.update(mod.extra_coverage())
    cov.update(extra_cov)
    write_evidence(pid, tier, seed, cov, mod.ASSUMPTIONS, time.time() - t0, reported)
    say("%s %s: theorems %d/%d, cases %d (tie: %d compared, %d bit-identical, %d close, %d differ), oracle %d, violations %d, %.1fs" % (
        pid, tier, pr["discharged"], pr["obligations"], len(live), tie["compared"], tie["same"], tie["close"], tie["differ"], oracle_checked, reported, time.time() - t0))
    return exit_code
