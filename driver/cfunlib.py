# driver/cfunlib.py -- C14 support: function table (executor name / Gallina name / mpmath reference /
# branch cuts of the implementation), the structured dyadic point set, Interval certificate files.
import os, re, math, time, shutil, subprocess
from fractions import Fraction as F
from concurrent.futures import ThreadPoolExecutor
import mpmath as mp
from common import *

mp.mp.dps = 50
CERT_PROCS = int(os.environ.get("VERIF_CERT_PROCS", "8"))      # coqc processes for the certificate shards (raise to 16 on an idle 16-core machine)

# ----------------------------------------------------------------------------- branch cuts / singular points
# Predicates on exact coordinates (x, y) (Fractions or floats that are exact dyadics).
# A point "on a cut" lies exactly on a line where the implemented composite is discontinuous (or at a branch
# point / pole): there the code follows the sign of its computed zero, which the property does not constrain
# and which a model over R (no signed zero) cannot express.  Those points are not compared with the model or
# with mpmath; range, round-trip and reciprocal identities are still checked there.
# arg, sqrt, ln, pow, powf and log take their argument's imaginary part as it is given: every generated point
# on the negative real axis carries the zero of positive sign, where f64::atan2 is PI, the model's [atan2] is
# PI and the principal value (Im ln z in (-pi, pi]) is the closed end of the range.  They are therefore compared
# there as anywhere else; only z = 0 (no value) is excluded for them.  The composite inverse functions reach
# their cuts through a computed zero whose sign is a rounding accident, so their cut lines stay excluded.
def _neg_real(x, y): return y == 0 and x <= 0
def _real_ge1(x, y): return y == 0 and abs(x) >= 1
def _imag_ge1(x, y): return x == 0 and abs(y) >= 1
def _real_le1(x, y): return y == 0 and abs(x) <= 1          # includes 0
def _imag_le1(x, y): return x == 0 and abs(y) <= 1
def _never(x, y): return False
def _zero(x, y): return x == 0 and y == 0

CUTS = {
    "abs": _never, "abs_sqr": _never, "conj": _never, "arg": _zero,
    "sqrt": _zero, "ln": _zero, "exp": _never,
    "sin": _never, "cos": _never, "tan": _never, "sec": _never, "csc": _zero, "cot": _zero,
    "sinh": _never, "cosh": _never, "tanh": _never, "sech": _never, "csch": _zero, "coth": _zero,
    "asin": _real_ge1, "acos": _real_ge1, "atan": _imag_ge1,
    "asec": _real_le1, "acsc": _real_le1, "acot": _imag_le1,
    "asinh": _imag_ge1, "acosh": lambda x, y: y == 0 and x <= 1, "atanh": _real_ge1,
    "asech": lambda x, y: y == 0 and (x <= 0 or x >= 1), "acsch": _imag_le1, "acoth": _real_le1,
    "pow": _zero, "powf": _zero, "log": _zero,
}

# the axis that carries the cuts of each function ('' = no cut)
CUT_AXIS = {n: "" for n in CUTS}
for _n in "arg sqrt ln asin acos asec acsc acosh atanh asech acoth pow powf log".split(): CUT_AXIS[_n] = "real"
for _n in "atan acot asinh acsch".split(): CUT_AXIS[_n] = "imag"

def on_cut(name, z):
    return CUTS[name](z[0], z[1])

# ----------------------------------------------------------------------------- function table
def _c(z): return mp.mpc(mp.mpf(z[0].numerator) / z[0].denominator, mp.mpf(z[1].numerator) / z[1].denominator) if isinstance(z[0], F) else mp.mpc(z[0], z[1])

MPREF = {
    "abs": lambda z: abs(z), "arg": lambda z: mp.arg(z), "abs_sqr": lambda z: z.real ** 2 + z.imag ** 2,
    "conj": lambda z: mp.conj(z), "sqrt": mp.sqrt, "exp": mp.exp, "ln": mp.log,
    "sin": mp.sin, "cos": mp.cos, "tan": mp.tan, "sec": mp.sec, "csc": mp.csc, "cot": mp.cot,
    "asin": mp.asin, "acos": mp.acos, "atan": mp.atan, "asec": mp.asec, "acsc": mp.acsc, "acot": mp.acot,
    "sinh": mp.sinh, "cosh": mp.cosh, "tanh": mp.tanh, "sech": mp.sech, "csch": mp.csch, "coth": mp.coth,
    "asinh": mp.asinh, "acosh": mp.acosh, "atanh": mp.atanh, "asech": mp.asech, "acsch": mp.acsch, "acoth": mp.acoth,
}
REAL_VALUED = ("abs", "arg", "abs_sqr")
# one-argument functions, executor name -> Gallina name
COQ1 = {"abs": "cabs", "arg": "arg", "abs_sqr": "abs_sqr", "conj": "cconj", "sqrt": "csqrt", "exp": "cexp", "ln": "cln"}
for _n in ("sin cos tan sec csc cot asin acos atan asec acsc acot sinh cosh tanh sech csch coth "
           "asinh acosh atanh asech acsch acoth").split():
    COQ1[_n] = "c" + _n
UNARY = list(COQ1.keys())                       # 31 one-argument functions
BINARY = ["pow", "powf", "log", "polar"]        # + 4 two-argument ones = 35 public functions
ALLF = UNARY + BINARY
# relative cost of one certificate pair (for shard balancing)
COST = {n: 1 for n in ALLF}
for _n in "asin acos atan asinh acosh atanh".split(): COST[_n] = 6
for _n in "asec acsc acot asech acsch acoth".split(): COST[_n] = 7
for _n in "sqrt ln arg pow powf tan tanh cot coth".split(): COST[_n] = 2
COST["log"] = 3

INVERSE_PAIRS = [("asin", "sin"), ("acos", "cos"), ("atan", "tan"), ("asec", "sec"), ("acsc", "csc"), ("acot", "cot"),
                 ("asinh", "sinh"), ("acosh", "cosh"), ("atanh", "tanh"), ("asech", "sech"), ("acsch", "csch"), ("acoth", "coth"),
                 ("ln", "exp")]
# points where the inverse itself is infinite/undefined (branch points that are poles of the inverse)
def inverse_singular(finv, z):
    x, y = z
    if finv in ("atan",): return x == 0 and abs(y) == 1
    if finv in ("atanh",): return y == 0 and abs(x) == 1
    if finv in ("acot",): return (x == 0 and abs(y) == 1) or (x == 0 and y == 0)
    if finv in ("acoth",): return (y == 0 and abs(x) == 1) or (x == 0 and y == 0)
    if finv in ("asec", "acsc", "asech", "acsch", "ln"): return x == 0 and y == 0
    return False

RECIPROCALS = [("sec", "cos"), ("csc", "sin"), ("cot", "tan"), ("sech", "cosh"), ("csch", "sinh"), ("coth", "tanh")]

# ----------------------------------------------------------------------------- the structured point set (dyadic)
D10 = F(1, 1024)
D9 = F(1, 512)
CUT_SCALES = (10, 20, 30)      # distance 2^-k from the axis carrying a cut
BP_SCALES = (10, 20)           # distance 2^-k from the branch points +-1, +-i

def structured_points():
    """[(category, x, y)] with exact dyadic coordinates, 1e-3 <= |z| <= 10."""
    pts = []
    quad = [(F(1, 512), F(3, 1024)), (F(1, 8), F(1, 16)), (F(1, 2), F(1, 4)), (F(3, 8), F(3, 4)), (F(3, 4), F(5, 8)),
            (F(5, 4), F(1, 2)), (F(1, 2), F(3, 2)), (F(2), F(1)), (F(5, 2), F(3)), (F(1), F(7)), (F(6), F(5, 2)), (F(9), F(4))]
    for (a, b) in quad:
        for sx in (1, -1):
            for sy in (1, -1):
                q = {(1, 1): "q1", (-1, 1): "q2", (-1, -1): "q3", (1, -1): "q4"}[(sx, sy)]
                pts.append((q, sx * a, sy * b))
    for r in (F(1, 512), F(1, 4), F(3, 4), F(5, 4), F(3), F(19, 2)):
        pts += [("axis+x", r, F(0)), ("axis-x", -r, F(0)), ("axis+y", F(0), r), ("axis-y", F(0), -r)]
    dirs = [(1, 0), (-1, 0), (0, 1), (0, -1), (1, 1), (1, -1), (-1, 1), (-1, -1)]
    for (dx, dy) in dirs:
        pts.append(("bp0", dx * D9, dy * D9))                       # |z| >= 1e-3: one scale only next to 0
    for k in BP_SCALES:                                             # next to +-1, +-i at several scales
        d = F(1, 2 ** k)
        for nm, (bx, by) in (("bp+1", (1, 0)), ("bp-1", (-1, 0)), ("bp+i", (0, 1)), ("bp-i", (0, -1))):
            for (dx, dy) in dirs:
                pts.append(("%s@%d" % (nm, k), F(bx) + dx * d, F(by) + dy * d))
    # both sides of the real and of the imaginary axis (every cut lies on one of them), at several distances:
    # "both sides of each branch cut" includes points arbitrarily close to it
    for k in CUT_SCALES:
        d = F(1, 2 ** k)
        for t in (F(-6), F(-3, 2), F(-1, 2), F(1, 2), F(3, 2), F(6)):
            pts += [("cut-real-above@%d" % k, t, d), ("cut-real-below@%d" % k, t, -d),
                    ("cut-imag-right@%d" % k, d, t), ("cut-imag-left@%d" % k, -d, t)]
    # the branch points / unit points themselves, z = +-1, +-i (|z| exactly 1 on both axes): regular points of most
    # functions (value comparison is skipped only for the functions whose cut ends there, see CUTS)
    pts += [("unit", F(1), F(0)), ("unit", F(-1), F(0)), ("unit", F(0), F(1)), ("unit", F(0), F(-1))]
    # the two ends of the quantified range of moduli: |z| = 10 exactly (axes and the 6-8-10 triangle in every quadrant)
    # and |z| = 33/32768 = 1.007e-3 (axes) / sqrt(74)/8192 = 1.05e-3 (quadrants)
    pts += [("end", F(10), F(0)), ("end", F(-10), F(0)), ("end", F(0), F(10)), ("end", F(0), F(-10)),
            ("end", F(6), F(8)), ("end", F(-8), F(6)), ("end", F(-6), F(-8)), ("end", F(8), F(-6))]
    e = F(33, 32768)
    pts += [("end", e, F(0)), ("end", -e, F(0)), ("end", F(0), e), ("end", F(0), -e),
            ("end", F(5, 8192), F(7, 8192)), ("end", F(-7, 8192), F(5, 8192)), ("end", F(-5, 8192), F(-7, 8192)), ("end", F(7, 8192), F(-5, 8192))]
    return pts

# ----------------------------------------------------------------------------- special structure (search only)
# Classes of arguments on which a fast path or a cancellation can hide; see findings/special-values-specB/C14-table.md.
# None of these is a dyadic point of the structured set: they are compared with mpmath and through the identities, not
# certified (an Interval certificate of tan at fl(pi/2) would need more than the 70 bits the staging uses).
def unit_off_axis():
    """f64 points of modulus 1 (to rounding) off the axes: the 3-4-5 triangle in every quadrant and the diagonal"""
    h = math.sqrt(0.5)
    return [(0.6, 0.8), (-0.8, 0.6), (-0.6, -0.8), (0.8, -0.6), (h, h), (-h, h), (-h, -h), (h, -h)]

UNIT_AXIS = [(1.0, 0.0), (-1.0, 0.0), (0.0, 1.0), (0.0, -1.0)]

def zero_pole_points(g, thorough):
    """[(category, x, y)]: the zeros and poles of the direct functions inside |z| <= 10 -- fl(k pi/2), k = +-1..+-6, on
    the real axis (sin, cos, tan, sec, csc, cot; a real/imaginary part of sinh, cosh vanishes) and on the imaginary axis
    (sinh, cosh, tanh, sech, csch, coth; sin, cos) -- exactly, displaced along the axis by +-2^-20 / +-2^-30 (next to the
    pole, where a formula that cancels loses its digits) and displaced across the axis by 2^-20 and 1/2."""
    out = []
    for k in range(1, 7):
        for sgn in (1.0, -1.0):
            t = sgn * (k * (math.pi / 2))               # k*fl(pi/2) is exact for k <= 6 up to one rounding: any f64 next to k pi/2 will do
            for axis in ("re", "im"):
                P = lambda a, b: (a, b) if axis == "re" else (b, a)
                out.append(("zp-exact", ) + P(t, 0.0))
                offs = [("zp-along", P(t + s * 2.0 ** -e, 0.0)) for e in (20, 30) for s in (1, -1)] + \
                       [("zp-across", P(t, s * d)) for d in (2.0 ** -20, 0.5) for s in (1, -1)]
                for c, p in (offs if thorough else g.shuffle(offs)[:2]):
                    out.append((c,) + p)
    return [(c, x, y) for (c, x, y) in out if 1e-3 <= math.hypot(x, y) <= 10]

# exponents with structure: 0, +-1, +-2, +-3, +-1/2, 3/2, +-i, 1+-i, 2i, and a nearly real one
SPECIAL_W = [(0.0, 0.0), (1.0, 0.0), (-1.0, 0.0), (2.0, 0.0), (-2.0, 0.0), (3.0, 0.0), (-3.0, 0.0), (0.5, 0.0), (-0.5, 0.0), (1.5, 0.0),
             (0.0, 1.0), (0.0, -1.0), (1.0, 1.0), (1.0, -1.0), (0.0, 2.0), (2.0, 2.0 ** -20)]
# bases of log with structure: negative real, +-i, 2, 1/2, 10, e, unit modulus off the axes, next to 1 (small ln b)
LOG_BASES = [(-1.0, 0.0), (0.0, 1.0), (0.0, -1.0), (2.0, 0.0), (0.5, 0.0), (10.0, 0.0), (math.e, 0.0), (0.6, 0.8), (-2.0, 0.0),
             (1.0 + 2.0 ** -10, 0.0), (1.0, 2.0 ** -10), (-3.0, -4.0)]
# polar angles with structure: 0, the quarter turns as f64 (fl(pi/2), fl(pi)), the diagonals, next to 0 and next to +-pi
POLAR_T = [0.0, math.pi / 2, -math.pi / 2, math.pi, -math.pi, math.pi / 4, -3 * math.pi / 4, 2.0 ** -30, -2.0 ** -30,
           math.pi - 2.0 ** -20, -math.pi + 2.0 ** -20, 1.0, -2.0]
POLAR_R = [33.0 / 32768, 0.0078125, 0.5, 1.0, 2.0, 10.0]

def fl(x):
    """exact float of a dyadic Fraction"""
    v = x.numerator / x.denominator
    assert F(v) == x, x
    return v

def frac_of_bits(b):
    return F(bits_f64(b))

# ----------------------------------------------------------------------------- Gallina literals
def rlit(x):
    x = F(x)
    if x.denominator == 1:
        return "(IZR (%d))" % x.numerator
    return "(IZR (%d) / IZR %d)" % (x.numerator, x.denominator)

def clit(z):
    return "(%s, %s)" % (rlit(z[0]), rlit(z[1]))

def tol_of(v):
    """1e-9 * max(1, |v|), as a short rational (rounded up to a multiple of 2^-10 * 1e-9)"""
    m = max(F(1), abs(F(v)))
    m = F(math.ceil(m * 1024), 1024)
    return m / 10 ** 9

def coq_call(name, args):
    """Gallina application of the model function to literal arguments; args: list of ('c', (x,y)) | ('r', x)"""
    fn = COQ1.get(name) or {"pow": "cpow", "powf": "cpowf", "log": "clog", "polar": "cpolar"}[name]
    return "(%s %s)" % (fn, " ".join(clit(a) if k == 'c' else rlit(a) for k, a in args))

def harness_line(name, args):
    toks = []
    for k, a in args:
        if k == 'c': toks.append(tok_scalar('cplx', complex(fl(a[0]), fl(a[1]))))
        else: toks.append(tok_scalar('f64', fl(a)))
    return "cf.%s %s" % (name, " ".join(toks))

CERT_HEADER = """From Coq Require Import Reals.
From OV Require Import Model.CFun Proofs.CFunCert.
Local Open Scope R_scope.
"""

def cert_goal(ids, call, values, real_valued):
    """one Goal per function value: both components share the staging (chk2)"""
    if real_valued:
        return "Goal True. chk %d (Rabs (%s - %s) <= %s). exact I. Qed.\n" % (ids[0], call, rlit(values[0]), rlit(tol_of(values[0])))
    return ("Goal True. chk2 %d (Rabs (re %s - %s) <= %s) %d (Rabs (im %s - %s) <= %s). exact I. Qed.\n" % (
        ids[0], call, rlit(values[0]), rlit(tol_of(values[0])), ids[1], call, rlit(values[1]), rlit(tol_of(values[1]))))

def run_certs(goals, tag, nshards=None, timeout=1500):
    """goals: list of (cost, text, [ids]).  Writes cert_k.v shards under .cache/, runs coqc on them in parallel,
    returns ({id: 'OK'|'FAIL'}, errors, seconds).  ids with no verdict line are absent from the dict."""
    d = os.path.join(CACHE, "certs_%s_%d" % (tag, os.getpid()))
    shutil.rmtree(d, ignore_errors=True)
    os.makedirs(d)
    if nshards is None:
        nshards = max(1, min((2 if len(goals) < 2000 else 4) * CERT_PROCS, len(goals) // 8 + 1))    # ~1 s of start-up per shard
    shards = [[] for _ in range(nshards)]
    load = [0] * nshards
    for g in sorted(goals, key=lambda g: -g[0]):          # longest-processing-time-first balancing
        k = load.index(min(load))
        shards[k].append(g); load[k] += g[0]
    t0 = time.time()
    def one(k):
        path = os.path.join(d, "cert_%d.v" % k)
        with open(path, "w") as f:
            f.write(CERT_HEADER)
            for _, text, _ in shards[k]:
                f.write(text)
        try:
            rc, out = sh_coq("timeout %d coqc -noglob -Q %s OV -w -notation-overridden cert_%d.v 2>&1" % (timeout, COQDIR, k), timeout=timeout + 30, cwd=d)     # a killed shard is run again
        except subprocess.TimeoutExpired:
            rc, out = 124, "timeout"
        return k, rc, out
    verdict, errors = {}, []
    with ThreadPoolExecutor(max_workers=CERT_PROCS) as ex:
        for k, rc, out in ex.map(one, range(nshards)):
            for m in re.finditer(r"^(OK|FAIL) (\d+)\s*$", out, re.M):
                verdict[int(m.group(2))] = m.group(1)
            if rc != 0:
                errors.append("cert shard %d: coqc exit %s: %s" % (k, rc, out[-600:]))
    secs = time.time() - t0
    if not errors and not os.environ.get('VERIF_KEEP_CERTS'):
        shutil.rmtree(d, ignore_errors=True)
    return verdict, errors, secs, d
