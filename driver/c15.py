# C15 -- vector arithmetic, reductions, norms, edits match their definitions under any history.
import math
from fractions import Fraction
from common import *
from engine import Case
from veclib import *
from veclib import _zero, _abs

PID = "C15"
IMPORTS = "From OV Require Import Model.Vector Model.VecOps Proofs.VectorCx2Out."
MODEL_VO = ["Model/VecOps.vo", "Proofs/VectorCx2Out.vo"]
EXHAUSTIVE = False
RULE = ("vec.* cases: (a) for every length 0..8 (rationals) one history containing EVERY index argument 0..n+1 of sum_slice/"
        "product_slice (all (start,end) pairs), swap, insert, get/set, resize, find (exhaustive in the indices, out-of-range included); "
        "(b) for every length 0..64 and each element type (Rat, f64, Complex<f64>) a history of every arithmetic/reduction "
        "operation, and for f64 the four norms (p in [1,8]), the norm laws on (u, v, u+v, c*u), linspace/powspace (n = 0..64), "
        "f64*vector, conj/real/abs/norm_inf of complex vectors, constructors; (c) seeded random edit histories of up to 60 operations "
        "(push/push_front/insert/pop/swap/resize/assign/clear/sort/find and the rest, ~1/6 deliberately out of range); "
        "(d) the adversarial family of the recorded finding f64-square-range: f64 vectors with entries whose square leaves the normal range, "
        "spacings whose b-a overflows (norms, norm laws, linspace, powspace; lengths 1..8); "
        "(e) the norm laws on complex and rational vectors (package cnorm): for every length 0..64 one Complex<f64> case (dot, norm_1 and "
        "norm_inf of u, v, u+v, c*u; kind vec.cnormlaws) and one Rat case (dot and norm_1 of the same four vectors, exact; kind vec.n1laws), "
        "plus structured complex vectors (maximum modulus at the first / last / middle entry, ties of equal modulus, zero vectors, "
        "unimodular and zero scalars) and a mismatched-size case of each; "
        "(f) special structure (package specB): SEARCH-ONLY histories (executor vs the plain list model, no model term) over extended executor ops -- "
        "== and != against an equal copy / a proper prefix / a one-longer extension / a copy differing in the first or last entry / the empty vector / itself, "
        "both operands the same object (v.dot(&v), &v + &v, &v - &v), the public field .vec read directly, sort_by with a descending and a "
        "by-absolute-value comparator, Clone::clone_from into a longer / shorter / equal / empty target, and the element-type specific views "
        "(f64: norm_1/2/p/inf, f64 * v; complex: conj/real/abs/norm_inf) of the CURRENT vector of a history: family edit-pairs-<elt> = for lengths "
        "0,1,2,3,5 every editing operation class (28: push, push_front, insert at 0 / middle / end, pop, swap of the ends, resize shrink / grow / same / 0, "
        "assign, clear, the three sorts, set first / last, the assignment operators, clone_from longer / shorter / same, clone) as FIRST and as SECOND "
        "edit of a pair (one rotation of the 28 x 28 table per seed, all rotations and lengths 4, 8 in the thorough tier), the vector brought back to its "
        "start alternately by clear + push (spare capacity) and clone_from, each pair followed by EVERY view (~45 operations, arguments 0 / 1 / -1 / 2 / 1/2, "
        "complex +-i and 0.6+0.8i, ties); family history-x-<elt> = 60 random histories with the extended ops mixed in; and model-tied families "
        "linspace-/powspace-structured (a = b, a > b, a = -b, an end at 0, n = 2, 3, ...; exponent 1, 2, 1/2, 3), norms-structured (zero, -0.0, constant, "
        "constant negative, alternating +-c, one non-zero entry first / last, negative maximum first / last; lengths 1, 2, 3, 8), norm-laws-structured "
        "(v = u, v = -u, v = 0; c = 0, 1, -1, 2, 1/2), complex-structured (entries on the axes, unit modulus, equal moduli), sort-ord-structured (sorted, "
        "reversed, constant, two values; lengths 0, 1, 2), f64-times-vector-structured, constructors-structured; "
        "floats of a history are compared with the list model ITEM BY ITEM (veclib.result_scales / carried_scales): element-wise products and "
        "quotients within 1e-12 of the item itself, element-wise sums within 1e-12 of the larger operand, reductions within 1e-12 of the sum of the magnitudes of their terms, "
        "moved / copied / negated entries identical when they are inputs and within the scale they were computed with otherwise (the scale travels with the entry); "
        "a history the list model cannot follow (python OverflowError) is not judged and is counted (oracle_histories_not_judged); "
        "distinct = distinct executor line; non-trivial = non-empty vector or an operation that must panic")
TRUSTED = ["Coq 8.16.1 kernel + vm_compute (primitive floats: bit-exact IEEE binary64)", "Flocq 4 (IEEE754.PrimFloat, BinarySingleNaN) and Coq's FloatAxioms for the two *_exact_float theorems", "Rust executor /verif/harness (kinds vec.*; Rat = i128 rationals)",
           "python driver: generators, plain-list reference model, mpmath norm reference, stream comparators",
           "hand-written Gallina model coq/Model/Vector.v + VecOps.v tied to src/vector/*.rs by differential execution (Rat vs Qc exact; f64/Complex vs primitive floats)",
           "libm pow enters the float model as the table of the calls made (python math.pow = the same libm); compared by tolerance 1e-12",
           "std Vec::sort_unstable(_by) modelled as an arbitrary sorted permutation (contract assumed, run as insertion sort)"]
ASSUMPTIONS = ["Rust semantics of Vec/usize as modelled (checked indexing, debug overflow checks)",
               "f64::powf(|x|, 2.0) inside norm_2 is modelled as |x|*|x| (libm's pow is not specified to be correctly rounded; model and implementation agreed bit for bit on every compared run, and a libm for which they differ breaks the tie, not a theorem)",
               "the sampled cases are where model and code were compared; the theorems are about the model"]
UNPROVED = ["norm_p over R: non-negativity, homogeneity and norm_p = norm_1 / norm_2 at p = 1 / 2 are proved (pow on non-negative arguments as the real power function); "
            "Minkowski (triangle inequality) and inf <= p <= 1 for general p are searched only for vectors (for MATRICES norm_p_triangle of Props/C03.v proves Minkowski for p >= 1)",
            "round two: dot_backward_error, sum_slice_backward_error, norm_1_relative_error (gamma_n), norm_2_relative_error (gamma_{n+1}) in the standard model, dot/sum/norm_1 also at binary64 via Flocq; the norm LAWS 'up to rounding' over f64 remain searched (every value within 1e-12 of the definition's, the laws between the returned values with 4e-12 slack; proved over R only) and FAIL for entries whose square overflows/underflows (recorded finding f64-square-range)",
            "powspace / norm_p over f64 depend on libm pow: tied by tolerance (table of the calls) and searched; their theorems are over R with pow as the real power function",
            "complex / rational vectors (package cnorm, coq/Proofs/VectorCx2.v, VectorCx2Q.v; pinned at the end of coq/Props/C15.v): for Vector<Complex<f64>>::norm_inf "
            "(vec_cmplx.rs) and the generic norm_1 (through Signed::abs = (|z|, 0)) the laws (maximum of the moduli, non-negativity, definiteness, homogeneity, triangle inequality, "
            "norm_inf <= norm_1 <= n norm_inf, exact panic condition) and Cauchy-Schwarz for the bilinear dot are proved over C = R x R and (norm_1) over Qc, and searched on "
            "Complex<f64> (values within 1e-12, laws with 4e-12 slack, entries of moderate magnitude) and Rat (exactly); over IEEE binary64 (Flocq) both complex norms are exact on Gaussian integers of integer modulus "
            "(cnorm_inf_exact_float, cnorm1_exact_float), and in the standard model of floating-point arithmetic with a rounded square root fl|z| = |z|(1+th), |th| <= gam 3, "
            "fl(norm_inf) = max|z_i|(1+th), |th| <= gam 3, re fl(norm_1) = Sum|z_k|(1+th_k), |th_k| <= gam(n+3) (coq/Proofs/VectorCx2R.v); what stays unproved is the standard model "
            "itself for Complex<f64> (no Flocq bridge for the complex norms on general data), and the laws FAIL on the real code when re^2 + im^2 leaves the f64 range "
            "(norm_inf [1e200+0i] = inf, norm_inf [1e-200+1e-200i] = 0: same class as the recorded finding f64-square-range; not in the default search for complex data)",
            "Vector::random: length and range [0,1) observed only"]

MANIFEST = dict(
    text=("Theorems about the Gallina model of src/vector (all lengths, all values, all histories): vec_run_refines (every step of "
          "every edit history satisfies its pointwise list specification, with the exact panic conditions; sort is any sorted "
          "permutation; insertion sort -- the sorter the model is run with -- meets that contract on every total order, so "
          "vec_run_refines_Qc holds outright), elementwise_spec (+ - unary- scalar forms abs entry by entry, size guards), vdiv_spec, "
          "sum_slice_spec / product_slice_spec / sum_spec (value and exact guard conditions), dot bilinear/symmetric over a ring, linspace_ends "
          "over a field and strict monotonicity over R, powspace_spec over R (ends, monotone), and over R: non-negativity, homogeneity, triangle inequality of "
          "norm_1/norm_inf/norm_2 (Cauchy-Schwarz) and norm_inf <= norm_2 <= norm_1; over IEEE binary64 (Flocq): dot_exact_float and "
          "sum_slice_exact_float, elementwise_exact_float, norm_1_exact_float (integer-valued f64 data below 2^53: the float instance returns exactly the integer value of the definition). "
          "Complex and rational vectors (package cnorm): Vector<Complex<f64>>::norm_inf is the regenerated source function, panics exactly on the empty vector, and over C = R x R is the maximum of the moduli, "
          "non-negative, definite, homogeneous, sub-additive; the generic norm_1 at the complex instance is (sum of the moduli, 0) with the same laws and norm_inf <= norm_1 <= n norm_inf, at Qc the sum of the "
          "absolute values with the same laws; Cauchy-Schwarz for the (bilinear, non-conjugating) complex dot; exactness of both complex norms on Gaussian integers of integer modulus over binary64; "
          "relative error gam 3 / gam (n+3) of the complex norms in the standard model with a rounded square root. Tie: the same definitions run by vm_compute "
          "against the implementation (Rat vs Qc exactly; f64/Complex bit-compared, libm-dependent norm_p/powspace by tolerance) "
          "on every length 0..64, every index range of the slice reductions for lengths <= 8 and random histories; a plain python "
          "list model and mpmath norms search for failing inputs.  Search only (no model term): ==/!= on unequal vectors, same-object operands, "
          "sort_by with non-ascending comparators, Clone::clone_from, the public field, and the f64 / complex views after every pair of editing "
          "operation classes (families edit-pairs-*, history-x-*)."),
    note=("Norm laws are proved over R, not over f64 (rounding, overflow/underflow of the naive norm_2 are outside the theorems); "
          "norm_p/powspace go through libm and are tied by tolerance; Minkowski for general p is searched only. The general families draw entries of "
          "magnitude 1e-3..1e3; the family range-extreme, which runs in EVERY check, draws entries beyond ~1e154 (below ~1e-162) and spacings whose b-a overflows: "
          "there the unscaled norm_2/norm_p overflow (underflow), the laws fail on the real code and linspace starts with NaN -- reported by the oracle on every run and "
          "classified as the recorded finding f64-square-range (KNOWN_FINDINGS.txt, findings/C15-norm-range.md; key granted only when the sum of squares / powers the failing "
          "call accumulates on its operand, evaluated in IEEE arithmetic, leaves the normal range, resp. b-a is not finite); every other failure of the same case is still reported."),
    technique="Coq proof over abstract ring/field and R + model/implementation differential execution (vm_compute vs Rust executor)",
    design="7 (C15)")

# ------------------------------------------------------------------ values
def val(rng, elt):
    if elt == 'rat':
        k = rng.below(8)
        if k == 0: return Fraction(0)
        if k < 5: return Fraction(rng.range(-5, 5))
        return Fraction(rng.range(-7, 7), rng.range(1, 4))
    if elt == 'f64':
        k = rng.below(8)
        if k == 0: return 0.0
        if k < 4: return float(rng.range(-6, 6))
        if k < 6: return rng.range(-64, 64) / 8.0
        return (rng.unit() - 0.5) * 10.0 ** rng.range(-3, 3)
    if elt == 'cplx':
        return complex(val(rng, 'f64'), val(rng, 'f64'))

def nz(rng, elt):
    x = val(rng, elt)
    if x == 0:
        return Fraction(2) if elt == 'rat' else (2.0 if elt == 'f64' else complex(2, 1))
    return x

def rvec(rng, elt, n):
    return [val(rng, elt) for _ in range(n)]

def small(rng, elt, n):
    """values whose long products neither overflow i128 rationals nor f64"""
    if elt == 'rat': return [Fraction(rng.choice([-2, -1, 1, 1, 2, 3]), rng.choice([1, 1, 2, 3])) for _ in range(n)]
    if elt == 'f64': return [rng.choice([-2.0, -1.0, 1.0, 0.5, 1.5, 2.0, -0.75]) for _ in range(n)]
    return [complex(rng.choice([-1.0, 1.0, 0.5, 0.0]), rng.choice([-1.0, 1.0, 0.5, 2.0])) for _ in range(n)]

TOL = 1e-12
SPECB_FORMS = True        # the search-only families edit-pairs-* / history-x-* (extended executor ops of veclib.XOPS)

def hist(elt, v0, ops, family, nontrivial=True):
    # a history with an extended op (veclib.XOPS: operator forms / trait impls the model has no constructor for) is search-only
    term = None if is_extended(ops) else vhist_term(elt, v0, ops)
    return Case(elt, vhist_line(elt, v0, ops), term, meta={"kind": "hist", "v0": v0, "ops": ops},
                family=family, nontrivial=nontrivial, tol=TOL, check_class=True)

# ------------------------------------------------------------------ libm pow as a table
def cpow(x, y):
    """C's pow as libm returns it (python's math.pow raises where C returns inf / nan)"""
    try:
        return math.pow(x, y)
    except OverflowError:
        return math.inf if (x > 0 or float(y).is_integer() and int(y) % 2 == 0) else -math.inf
    except ValueError:
        if x == 0 and y < 0: return math.inf
        return math.nan

def powtab_norm_p(v, p, tab):
    acc = 0.0
    for x in v:
        r = cpow(abs(x), p); tab.append((abs(x), p, r)); acc = acc + r
    ip = 1.0 / p
    tab.append((acc, ip, cpow(acc, ip)))

def coq_tab(tab):
    seen, out = set(), []
    for (x, y, r) in tab:
        key = (f64_bits(x), f64_bits(y))
        if key in seen: continue
        seen.add(key); out.append("(%d, %d, %s)" % (key[0], key[1], hx(r)))
    return "(tbl_powf ([" + "; ".join(out) + "]%Z))"

def norms_case(v, p, family):
    tab = []; powtab_norm_p(v, p, tab)
    term = "@vec_norms_out SAF PrimFloat.abs %s flat_f %s %s" % (coq_tab(tab), coq_fvec(v), hx(p))
    return Case('f64', "vec.norms %s %s" % (tok_vec('f64', v), tok_scalar('f64', p)), term,
                meta={"kind": "norms", "v": v, "p": p}, family=family, nontrivial=len(v) > 0, tol=TOL, check_class=True)

def normlaws_case(u, v, c, p, family):
    s = [a + b for a, b in zip(u, v)]; cu = [a * c for a in u]
    tab = []
    for w in (u, v, s, cu): powtab_norm_p(w, p, tab)
    term = "@vec_normlaws_out SAF PrimFloat.abs %s flat_f %s %s %s %s" % (coq_tab(tab), coq_fvec(u), coq_fvec(v), hx(c), hx(p))
    return Case('f64', "vec.normlaws %s %s %s %s" % (tok_vec('f64', u), tok_vec('f64', v), tok_scalar('f64', c), tok_scalar('f64', p)), term,
                meta={"kind": "normlaws", "u": u, "v": v, "c": c, "p": p}, family=family, nontrivial=len(u) > 0, tol=TOL, check_class=True)

def linspace_case(a, b, n, family):
    term = "@vec_linspace_out SAF flat_f %s %s %d" % (hx(a), hx(b), n)
    return Case('f64', "vec.linspace %s %s %d" % (tok_scalar('f64', a), tok_scalar('f64', b), n), term,
                meta={"kind": "linspace", "a": a, "b": b, "n": n}, family=family, nontrivial=n > 0, tol=TOL)

def powspace_case(a, b, n, p, family):
    tab = []
    for i in range(n):
        x = float(i) / (float(n) - 1.0) if n != 1 else (math.nan)
        if n == 1: continue
        tab.append((x, p, cpow(x, p)))
    term = "@vec_powspace_out SAF %s flat_f %s %s %d %s" % (coq_tab(tab), hx(a), hx(b), n, hx(p))
    return Case('f64', "vec.powspace %s %s %d %s" % (tok_scalar('f64', a), tok_scalar('f64', b), n, tok_scalar('f64', p)), term,
                meta={"kind": "powspace", "a": a, "b": b, "n": n, "p": p}, family=family, nontrivial=n > 0, tol=TOL)

def scale_l_case(s, v, family):
    term = "@vec_scale_l_out SAF flat_f %s %s" % (hx(s), coq_fvec(v))
    return Case('f64', "vec.scale_l %s %s" % (tok_scalar('f64', s), tok_vec('f64', v)), term,
                meta={"kind": "scale_l", "s": s, "v": v}, family=family, nontrivial=len(v) > 0, tol=TOL)

def cx_case(v, family):
    term = "@vec_cx_out SAF flat_f %s" % coq_v('cplx', v)
    return Case('cplx', "vec.cx %s" % tok_vec('cplx', v), term, meta={"kind": "cx", "v": v}, family=family,
                nontrivial=len(v) > 0, tol=TOL, check_class=True)

def cnormlaws_case(u, v, c, family):
    """Complex<f64>: dot(u,v), then norm_1 (a complex number) and norm_inf of u, v, u+v, u*c"""
    term = "@vec_cnormlaws_out SAF flat_f %s %s %s" % (coq_v('cplx', u), coq_v('cplx', v), coq_s('cplx', c))
    return Case('cplx', "vec.cnormlaws %s %s %s" % (tok_vec('cplx', u), tok_vec('cplx', v), tok_scalar('cplx', c)), term,
                meta={"kind": "cnormlaws", "u": u, "v": v, "c": c}, family=family, nontrivial=len(u) > 0, tol=TOL, check_class=True)

def n1laws_case(elt, u, v, c, family):
    """generic code only (Rat in the sweep): dot(u,v), then norm_1 of u, v, u+v, u*c"""
    term = "@vec_n1laws_out %s %s %s %s %s" % (ARITH[elt], FLAT[elt], coq_v(elt, u), coq_v(elt, v), coq_s(elt, c))
    return Case(elt, "vec.n1laws %s %s %s" % (tok_vec(elt, u), tok_vec(elt, v), tok_scalar(elt, c)), term,
                meta={"kind": "n1laws", "u": u, "v": v, "c": c}, family=family, nontrivial=len(u) > 0, tol=TOL, check_class=True)

def ctor_case(elt, n, x, w, family):
    term = "@vec_ctor_out %s %s %d %s %s" % (ARITH[elt], FLAT[elt], n, coq_s(elt, x), coq_v(elt, w))
    return Case(elt, "vec.ctor %d %s %s" % (n, tok_scalar(elt, x), tok_vec(elt, w)), term,
                meta={"kind": "ctor", "n": n, "x": x, "w": w}, family=family, nontrivial=n + len(w) > 0, tol=TOL)

def sort_ord_case(xs, family):
    term = "fl_list flat_q (@isort AQ (@leb AQ) %s)" % coq_list(["(q (%d) 1)" % x for x in xs])
    return Case('f64', "vec.sort_ord [%s]" % ",".join(str(x) for x in xs), term, meta={"kind": "sort_ord", "xs": xs},
                family=family, nontrivial=len(xs) > 1)

def random_case(n):
    return Case('f64', "vec.random %d" % n, None, meta={"kind": "random", "n": n}, family="random", nontrivial=n > 0)

# ------------------------------------------------------------------ generators
def index_history(g, elt, n):
    """every index argument 0..n+1 of every indexed operation, on one vector of length n (value ops leave it unchanged;
    a panicking op leaves it unchanged; the editing ops are followed by their inverse where that matters)"""
    ops = []
    for s in range(n + 2):
        for e in range(n + 2):
            ops.append(("sum_slice", s, e)); ops.append(("product_slice", s, e))
    for i in range(n + 2):
        ops.append(("get", i)); ops.append(("set", i, val(g, elt)))
        for j in range(n + 2): ops.append(("swap", i, j))
    for pos in range(n + 3):
        ops.append(("insert", pos, val(g, elt)))
        ops.append(("pop",))
    ops += [("sum",), ("product",), ("size",)]
    return ops

def all_ops_history(g, elt, n):
    v = lambda: small(g, elt, n)
    ops = [("sum",), ("product",), ("norm_1",), ("abs",), ("neg",), ("size",),
           ("dot", rvec(g, elt, n)), ("add", rvec(g, elt, n)), ("sub", rvec(g, elt, n)),
           ("scale", val(g, elt)), ("div", nz(g, elt)), ("find", val(g, elt)),
           ("dot", rvec(g, elt, n + 1)), ("add", rvec(g, elt, max(n - 1, 0) if n != 1 else 2)), ("sub", rvec(g, elt, n + 2)),
           ("add_assign", rvec(g, elt, n)), ("sub_assign", rvec(g, elt, n)), ("add_assign", rvec(g, elt, n + 1)),
           ("add_assign_s", val(g, elt)), ("sub_assign_s", val(g, elt)), ("mul_assign_s", nz(g, elt)), ("div_assign_s", nz(g, elt)),
           ("sum",), ("norm_1",)]
    if n > 0:
        ops += [("find", "ELEM"), ("sum_slice", 0, n - 1), ("product_slice", n // 2, n - 1), ("sum_slice", n // 3, n // 2)]
    if elt != 'cplx':
        ops += [("sort",), ("find", val(g, elt)), ("resize", n + 3), ("sum",), ("resize", n // 2), ("sort",)]
    ops += [("push", val(g, elt)), ("push_front", val(g, elt)), ("pop",), ("swap", 0, n), ("insert", n // 2, val(g, elt)),
            ("clone_mut", val(g, elt)), ("assign", val(g, elt)), ("sum",), ("clear",), ("sum",), ("pop",), ("find", val(g, elt)), ("size",)]
    return ops

def rand_vop(g, elt, n):
    bad = g.chance(1, 6)
    def idx():
        if bad or n == 0: return g.range(0, n + 1)
        return g.below(n)
    names = ["push", "push_front", "insert", "pop", "swap", "resize", "assign", "clear", "sort", "find",
             "push", "push_front", "insert", "pop", "swap", "find", "push", "insert",
             "set", "get", "size", "sum", "product", "sum_slice", "product_slice", "dot", "add", "sub", "neg", "scale", "div",
             "abs", "norm_1", "add_assign", "sub_assign", "add_assign_s", "sub_assign_s", "mul_assign_s", "div_assign_s", "clone_mut"]
    name = g.choice(names)
    if elt == 'cplx' and name in ("resize", "sort"): name = "push"
    if name == "clear" and not g.chance(1, 3): name = "push"
    s = lambda: val(g, elt)
    if name in ("push", "push_front", "assign", "add_assign_s", "sub_assign_s", "scale", "clone_mut"): return (name, s())
    if name == "mul_assign_s": return (name, g.choice(small(g, elt, 3)))
    if name in ("div", "div_assign_s"):
        if elt == 'rat' and g.chance(1, 8): return (name, Fraction(0))
        return (name, g.choice(small(g, elt, 3)))
    if name == "insert": return (name, g.range(0, n + 1) if bad else g.range(0, n), s())
    if name in ("pop", "clear", "sort", "size", "sum", "product", "neg", "abs", "norm_1"): return (name,)
    if name == "swap": return (name, idx(), idx())
    if name == "resize": return (name, g.range(0, n + 4))
    if name == "find": return (name, "ELEM" if n > 0 and g.chance(1, 2) else s())
    if name == "set": return (name, idx(), s())
    if name == "get": return (name, idx())
    if name in ("sum_slice", "product_slice"):
        a, b = idx(), idx()
        if not bad and a > b: a, b = b, a
        return (name, a, b)
    if name in ("dot", "add", "sub", "add_assign", "sub_assign"):
        return (name, rvec(g, elt, g.range(0, n + 1) if bad else n))
    raise ValueError(name)

def resolve_elem(elt, v0, ops, g=None):
    """replace ('find', 'ELEM') by an element of the current vector (tracked with the reference model)"""
    v = list(v0); out = []
    for op in ops:
        if op[0] == "find" and op[1] == "ELEM":
            op = ("find", v[len(v) // 2] if v else _zero(elt))
        out.append(op)
        snap = list(v)
        try: ref_vstep(elt, v, op)
        except RefPanic: v = snap
        except (OverflowError, ZeroDivisionError): v = snap
    return out, v

# ------------------------------------------------------------------ (specB) special structure: forms, trait impls, pairs of edits x views
SPECIAL = {'rat': [Fraction(0), Fraction(1), Fraction(-1), Fraction(2), Fraction(1, 2)],
           'f64': [0.0, 1.0, -1.0, 2.0, 0.5],
           'cplx': [0j, 1 + 0j, -1 + 0j, 1j, -1j, complex(0.6, 0.8), complex(2, 0), complex(0, 0.5)]}
ABSENT = {'rat': Fraction(999, 7), 'f64': 12345.5, 'cplx': complex(12345.5, 1.0)}

def sval(g, elt):
    """scalar / entry classes 0, 1, -1, 2, 1/2 (complex: +-i, unit modulus off the axes, axis-aligned), else the general menu"""
    return g.choice(SPECIAL[elt]) if g.chance(2, 3) else val(g, elt)

def snz(g, elt):
    x = sval(g, elt)
    return x if x != 0 else SPECIAL[elt][1 + g.below(4)]

def svec(g, elt, n):
    """small entries drawn from the special classes and the small menu, duplicates (ties) likely"""
    pool = SPECIAL[elt] + small(g, elt, 3)
    return [g.choice(pool) for _ in range(n)]

# the editing operations as classes of (operation, argument position / size relative to the current vector)
EDITS = ["none", "push", "push_front", "insert_0", "insert_end", "insert_mid", "pop", "swap_ends", "resize_shrink", "resize_grow",
         "resize_same", "resize_0", "assign", "clear", "sort", "sort_desc", "sort_absdesc", "set_first", "set_last",
         "add_assign", "sub_assign", "add_assign_s", "mul_assign_s", "div_assign_s", "clone_from_longer", "clone_from_shorter",
         "clone_from_same", "clone_mut"]
NOT_CPLX = {"resize_shrink", "resize_grow", "resize_same", "resize_0", "sort", "sort_desc", "sort_absdesc"}

def edit_op(g, elt, name, cur):
    n = len(cur)
    if name == "none": return None
    if name in ("push", "push_front", "assign", "clone_mut", "add_assign_s"): return (name, sval(g, elt))
    if name == "insert_0": return ("insert", 0, sval(g, elt))
    if name == "insert_end": return ("insert", n, sval(g, elt))
    if name == "insert_mid": return ("insert", n // 2, sval(g, elt))
    if name in ("pop", "clear", "sort", "sort_desc", "sort_absdesc"): return (name,)
    if name == "swap_ends": return ("swap", 0, max(n - 1, 0))
    if name == "resize_shrink": return ("resize", n // 2)
    if name == "resize_grow": return ("resize", n + 2)
    if name == "resize_same": return ("resize", n)
    if name == "resize_0": return ("resize", 0)
    if name == "set_first": return ("set", 0, sval(g, elt))
    if name == "set_last": return ("set", max(n - 1, 0), sval(g, elt))
    if name in ("add_assign", "sub_assign"): return (name, svec(g, elt, n))
    if name in ("mul_assign_s", "div_assign_s"): return (name, snz(g, elt) if name[0] == 'd' else sval(g, elt))
    if name == "clone_from_longer": return ("clone_from", svec(g, elt, n + 2))
    if name == "clone_from_shorter": return ("clone_from", svec(g, elt, n // 2))
    if name == "clone_from_same": return ("clone_from", svec(g, elt, n))
    raise ValueError(name)

def views(g, elt, cur):
    """every value-returning operation and operator form on the CURRENT vector, arguments derived from its contents"""
    n = len(cur)
    ops = [("size",), ("field",), ("get", 0), ("get", max(n - 1, 0)), ("get", n), ("sum",), ("product",), ("norm_1",), ("abs",), ("neg",),
           ("dot_self",), ("add_self",), ("sub_self",), ("cmp_self",), ("cmp", list(cur)), ("cmp", list(cur[:-1])),
           ("cmp", list(cur) + [sval(g, elt)]), ("cmp", svec(g, elt, n)), ("cmp", []),
           ("find", ABSENT[elt]), ("scale", sval(g, elt)), ("div", snz(g, elt)),
           ("dot", list(reversed(cur))), ("add", list(cur)), ("sub", list(cur)), ("dot", svec(g, elt, n)),
           ("clone_into", svec(g, elt, n + 2)), ("clone_into", svec(g, elt, n // 2)), ("clone_into", [])]
    if n > 0:
        first_changed = [cur[0] + SPECIAL[elt][1]] + list(cur[1:]); last_changed = list(cur[:-1]) + [cur[-1] + SPECIAL[elt][1]]
        ops += [("cmp", first_changed), ("cmp", last_changed), ("find", cur[0]), ("find", cur[-1]), ("find", cur[n // 2]),
                ("sum_slice", 0, n - 1), ("sum_slice", 0, 0), ("sum_slice", n - 1, n - 1), ("product_slice", 0, 0),
                ("product_slice", n - 1, n - 1), ("product_slice", 0, n - 1), ("sum_slice", n - 1, n), ("sum_slice", n // 2, n // 2)]
    if elt == 'f64': ops += [("norms", g.choice([1.0, 2.0, 3.0, 1.5])), ("scale_l", sval(g, 'f64'))]
    if elt == 'cplx': ops += [("cxview",)]
    return ops

def pairs_history(g, elt, v0, pairs):
    """for every (first edit, second edit) of `pairs`: bring the vector back to v0 (alternately by clear + push, which leaves
    spare capacity behind, and by clone_from), apply the two edits, then every view.  Returns the op list."""
    ops = []; cur = list(v0)
    def do(op):
        nonlocal cur
        if op is None: return
        ops.append(op); snap = list(cur)
        try: ref_vstep(elt, cur, op)
        except RefPanic: cur = snap
    for k, (e1, e2) in enumerate(pairs):
        if k > 0:
            if k % 2 == 1:
                do(("clear",))
                for x in v0: do(("push", x))
            else:
                do(("clone_from", list(v0)))
        do(edit_op(g, elt, e1, cur)); do(edit_op(g, elt, e2, cur))
        for o in views(g, elt, cur): do(o)
    return ops

def forms_cases(rng, tier):
    """family edit-pairs-<elt>: search-only histories (executor + plain list model)"""
    out = []
    thorough = tier == "thorough"
    g = rng.fork("edit-pairs")
    for elt in ('rat', 'f64', 'cplx'):
        E = [e for e in EDITS if not (elt == 'cplx' and e in NOT_CPLX)]
        L = len(E)
        rots = list(range(L)) if thorough else [g.below(L)]
        for n in ((0, 1, 2, 3, 4, 5, 8) if thorough else (0, 1, 2, 3, 5)):
            for r in rots:
                pairs = [(E[i], E[(i + r + n) % L]) for i in range(L)]
                for c in range(0, L, 10):
                    v0 = svec(g, elt, n)
                    out.append(hist(elt, v0, pairs_history(g, elt, v0, pairs[c:c + 10]), "edit-pairs-" + elt))
    return out

def xrand_vop(g, elt, cur):
    """a random extended op (arguments related to the current contents half of the time)"""
    n = len(cur)
    name = g.choice(["cmp", "cmp", "cmp_self", "dot_self", "add_self", "sub_self", "field", "clone_into", "clone_from", "cmp"] +
                    (["sort_desc", "sort_absdesc"] if elt != 'cplx' else ["cxview", "cxview"]) + (["norms", "scale_l"] if elt == 'f64' else []))
    if name == "cmp":
        k = g.below(5)
        if k == 0: return (name, list(cur))
        if k == 1: return (name, list(cur[:-1]))
        if k == 2: return (name, list(cur) + [val(g, elt)])
        if k == 3 and n > 0:
            w = list(cur); i = g.choice([0, n - 1, g.below(n)]); w[i] = w[i] + SPECIAL[elt][1]; return (name, w)
        return (name, rvec(g, elt, g.range(0, n + 1)))
    if name in ("clone_into", "clone_from"): return (name, rvec(g, elt, g.choice([0, n // 2, n, n + 1, n + 3])))
    if name == "norms": return (name, g.choice([1.0, 2.0, 3.0, 8.0, 1.5, 1.0 + 7.0 * g.unit()]))
    if name == "scale_l": return (name, sval(g, 'f64'))
    return (name,)

def xhistory_cases(rng, tier):
    """family history-x-<elt>: the random edit histories of (c) with extended ops mixed in (search-only)"""
    out = []
    g = rng.fork("hist-x")
    for h in range(600 if tier == "thorough" else 60):
        elt = ('rat', 'f64', 'cplx')[h % 3]
        v0 = rvec(g, elt, g.range(0, 6)) if g.chance(1, 2) else svec(g, elt, g.range(0, 6))
        ops = []; v = list(v0)
        for _ in range(g.range(5, 60)):
            o = xrand_vop(g, elt, v) if g.chance(1, 3) else rand_vop(g, elt, len(v))
            if o[0] == "find" and o[1] == "ELEM": o = ("find", v[len(v) // 2] if v else _zero(elt))
            ops.append(o)
            snap = list(v)
            try: ref_vstep(elt, v, o)
            except RefPanic: v = snap
            except (OverflowError, ZeroDivisionError): v = snap
            if len(v) > 64: break
            if elt != 'rat' and any((x != x) or abs(x) > 1e100 for x in v): break
        out.append(hist(elt, v0, ops, "history-x-" + elt))
    return out

def structured_f64_cases(rng, tier):
    """families *-structured: the f64-only / complex-only kinds on special structure (model-tied like their random twins)"""
    out = []
    thorough = tier == "thorough"
    g = rng.fork("structured")
    pick = (lambda xs: list(xs)) if thorough else (lambda xs: [g.choice(list(xs))])
    # spacings: a == b, decreasing, symmetric a = -b, an end at 0, unit interval; n = 2 (only the ends), 3, small, 64
    ends = [(0.0, 1.0), (1.0, 0.0), (-1.0, 1.0), (1.0, -1.0), (0.0, 0.0), (2.5, 2.5), (-3.0, -3.0), (0.0, -2.0), (-0.75, 0.0),
            (3.0, -3.0), (-0.1, 0.1), (1.0, 1.0 + 2.0 ** -20), (-6.0, -2.0), (5.0, 0.5)]
    for (a, b) in ends:
        for n in pick([2, 3, 4, 5, 9, 17, 64]):
            out.append(linspace_case(a, b, n, "linspace-structured"))
        for n in pick([2, 3, 4, 5, 9, 17]):
            for p in pick([1.0, 2.0, 0.5, 3.0]):
                out.append(powspace_case(a, b, n, p, "powspace-structured"))
    for n in (2, 3):                                 # n = 2 with general ends: the sequence is exactly [a, b]
        a, b = val(g, 'f64'), val(g, 'f64')
        out.append(linspace_case(a, b, n, "linspace-structured"))
        out.append(powspace_case(a, b, n, g.choice([1.0, 2.0, 0.5]), "powspace-structured"))
    # norms: zero vectors, all entries equal, +-c alternating, one non-zero entry first / last, the maximum tied with opposite signs,
    # a negative maximum first / last, -0.0 entries
    def shapes(n, c):
        e_first = [c] + [0.0] * (n - 1); e_last = [0.0] * (n - 1) + [c]
        tie = [(-c if i % 2 else c) for i in range(n)]
        negmax_first = [-4.0 * abs(c)] + [abs(c)] * (n - 1); negmax_last = [abs(c)] * (n - 1) + [-4.0 * abs(c)]
        return [[0.0] * n, [-0.0] * n, [c] * n, [-abs(c)] * n, tie, e_first, e_last, negmax_first, negmax_last]
    for n in (1, 2, 3, 8):
        for c in pick([1.0, -1.0, 2.0, 0.5, 3.0]):
            for v in shapes(n, c):
                for p in pick([1.0, 2.0, 3.0, 1.5]):
                    out.append(norms_case(v, p, "norms-structured"))
    # norm laws on related operands: v = u (same data), v = -u (u + v = 0), v = 0, c in {0, 1, -1, 2, 1/2}
    for n in pick([1, 2, 5]):
        u = svec(g, 'f64', n)
        for v in ([x for x in u], [-x for x in u], [0.0] * n):
            for c in pick([0.0, 1.0, -1.0, 2.0, 0.5]):
                out.append(normlaws_case(u, v, c, g.choice([1.0, 2.0, 3.0]), "norm-laws-structured"))
    # f64 * vector with the scalar classes, vectors with zeros of both signs
    for sc in pick([0.0, -0.0, 1.0, -1.0, 2.0, 0.5]):
        out.append(scale_l_case(sc, [0.0, -0.0] + svec(g, 'f64', g.range(0, 4)), "f64-times-vector-structured"))
    # conj / real / abs / norm_inf: entries on the axes +-k, +-ki, unit modulus off the axes, equal moduli, zero vector, length 1
    axis = [complex(3, 0), complex(-3, 0), complex(0, 3), complex(0, -3), complex(0.6, 0.8), complex(-0.8, 0.6), complex(1.8, -2.4), 0j]
    for n in pick([1, 2, 4, 8]):
        out.append(cx_case([axis[(i + n) % 8] for i in range(n)], "complex-structured"))
        out.append(cx_case([g.choice(SPECIAL['cplx']) for _ in range(n)], "complex-structured"))
        out.append(cx_case([0j] * n, "complex-structured"))
    # Vector<i64>::sort(): sorted already, reversed, all equal, two values, lengths 0 / 1 / 2
    for n in pick([0, 1, 2, 3, 7, 16]):
        base = [g.range(-5, 5) for _ in range(n)]
        for xs in pick([sorted(base), sorted(base, reverse=True), [3] * n, [(-1) ** i for i in range(n)], base]):
            out.append(sort_ord_case(xs, "sort-ord-structured"))
    # constructors at the degenerate sizes with the scalar classes
    for elt in ('rat', 'f64', 'cplx'):
        for n in pick([0, 1]):
            out.append(ctor_case(elt, n, g.choice(SPECIAL[elt]), svec(g, elt, g.choice([0, 1, 2])), "constructors-structured"))
    return out

def generate(rng, tier):
    cases = []
    thorough = tier == "thorough"
    # (a) every index argument, lengths 0..8
    g = rng.fork("idx")
    for n in range(0, 9):
        for rep in range(2 if thorough else 1):
            v0 = small(g, 'rat', n) if rep == 0 else rvec(g, 'rat', n)
            cases.append(hist('rat', v0, index_history(g, 'rat', n), "all-indices", nontrivial=True))
        if n <= 4 or thorough:
            cases.append(hist('f64', small(g, 'f64', n), index_history(g, 'f64', n), "all-indices-f64"))
    # (b) every operation on every length 0..64
    g = rng.fork("ops")
    for n in range(0, 65):
        for elt in ('rat', 'f64', 'cplx'):
            if not thorough and elt != 'rat' and n > 8 and n not in (16, 33, 64): continue
            v0 = small(g, elt, n)
            ops, _ = resolve_elem(elt, v0, all_ops_history(g, elt, n))
            cases.append(hist(elt, v0, ops, "all-ops-" + elt, nontrivial=True))
    # f64-only / complex-only kinds, every length 0..64
    g = rng.fork("f64")
    for n in range(0, 65):
        reps = 3 if thorough else 1
        for _ in range(reps):
            p = g.choice([1.0, 2.0, 3.0, 8.0, 1.5, 2.5, 1.0 + 7.0 * g.unit()])
            cases.append(norms_case(rvec(g, 'f64', n), p, "norms"))
            u, v = rvec(g, 'f64', n), rvec(g, 'f64', n)
            cases.append(normlaws_case(u, v, val(g, 'f64'), g.choice([1.0, 2.0, 4.0, 1.0 + 7.0 * g.unit()]), "norm-laws"))
            a = val(g, 'f64'); b = a + abs(nz(g, 'f64')) if g.chance(3, 4) else val(g, 'f64')
            cases.append(linspace_case(a, b, n, "linspace"))
            cases.append(powspace_case(a, b, n, g.choice([1.0, 2.0, 0.5, 3.0, 0.25 + 3.75 * g.unit()]), "powspace"))
            cases.append(scale_l_case(val(g, 'f64'), rvec(g, 'f64', n), "f64-times-vector"))
            cases.append(cx_case(rvec(g, 'cplx', n), "complex-conj-real-norm"))
        if n <= 8 or thorough:
            for elt in ('rat', 'f64', 'cplx'):
                cases.append(ctor_case(elt, n, val(g, elt), rvec(g, elt, g.range(0, 5)), "constructors"))
        cases.append(sort_ord_case([g.range(-20, 20) for _ in range(n)], "sort-ord"))
        if n % 8 == 0: cases.append(random_case(n))
    # norm laws on mismatched sizes (the + guard), norm_inf of the empty vector is in the sweep above (n = 0)
    cases.append(normlaws_case([1.0, 2.0], [1.0], 2.0, 2.0, "norm-laws"))
    # (e) norm laws on complex and rational vectors (package cnorm)
    g = rng.fork("cnorm")
    for n in range(0, 65):
        for _ in range(3 if thorough else 1):
            cases.append(cnormlaws_case(rvec(g, 'cplx', n), rvec(g, 'cplx', n), val(g, 'cplx'), "norm-laws-cplx"))
            cases.append(n1laws_case('rat', rvec(g, 'rat', n), rvec(g, 'rat', n), val(g, 'rat'), "norm-laws-rat"))
    def cx_big(mod):                       # a complex number of modulus about `mod`, in a random direction / on an axis
        k = g.below(6)
        if k == 0: return complex(mod, 0.0)
        if k == 1: return complex(0.0, -mod)
        if k == 2: return complex(-0.6 * mod, 0.8 * mod)
        t = 6.283185307179586 * g.unit()
        return complex(mod * math.cos(t), mod * math.sin(t))
    for n in range(1, 9):
        for pos in sorted(set([0, n - 1, n // 2])):
            for _ in range(2 if thorough else 1):
                u = [cx_big(0.25 + g.unit()) for _ in range(n)]; u[pos] = cx_big(4.0 + g.unit())
                v = [cx_big(0.25 + g.unit()) for _ in range(n)]; v[(pos + 1) % n] = cx_big(3.0 + g.unit())
                cases.append(cnormlaws_case(u, v, g.choice([complex(0, 1), complex(0, 0), complex(-1, 0), complex(0.6, -0.8), val(g, 'cplx')]),
                                            "norm-laws-cplx-structured"))
        # ties: equal moduli reached with different components (5 = |3+4i| = |-5| = |4-3i|), and the zero vector
        tie = [complex(3, 4), complex(-5, 0), complex(4, -3), complex(0, 5)]
        cases.append(cnormlaws_case([tie[(i + n) % 4] for i in range(n)], [tie[(i * 3 + 1) % 4] for i in range(n)], complex(0, -2), "norm-laws-cplx-structured"))
        cases.append(cnormlaws_case([0j] * n, rvec(g, 'cplx', n), val(g, 'cplx'), "norm-laws-cplx-structured"))
        cases.append(n1laws_case('rat', [Fraction(0)] * n, rvec(g, 'rat', n), nz(g, 'rat'), "norm-laws-rat"))
        cases.append(n1laws_case('rat', rvec(g, 'rat', n), rvec(g, 'rat', n), Fraction(0), "norm-laws-rat"))
    cases.append(cnormlaws_case([1 + 2j, 2j], [1j], 2 + 0j, "norm-laws-cplx"))
    cases.append(n1laws_case('rat', [Fraction(1), Fraction(2)], [Fraction(1)], Fraction(2), "norm-laws-rat"))
    # (d) the recorded finding `f64-square-range` (KNOWN_FINDINGS.txt): entries whose square leaves the normal f64 range
    #     (|x| in 1e-200..1e-155 or 1e155..1e300), spacings whose b - a overflows.  Runs on every check; the float model
    #     reproduces the implementation's inf / 0 / NaN bit for bit, the oracle reports them, finding_key classifies them.
    g = rng.fork("range")
    def ext(huge):
        x = (0.5 + g.unit()) * 10.0 ** (g.range(155, 300) if huge else -g.range(155, 200))
        return -x if g.chance(1, 2) else x
    def extvec(n, huge):
        v = [ext(huge) if g.chance(1, 2) else (val(g, 'f64') if huge else 0.0) for _ in range(n)]
        v[g.below(n)] = ext(huge)
        return v
    for n in range(1, 9):
        for huge in (True, False):
            for _ in range(2 if thorough else 1):
                cases.append(norms_case(extvec(n, huge), g.choice([2.0, 3.0, 1.5, 8.0]), "range-extreme"))
                cases.append(normlaws_case(extvec(n, huge), rvec(g, 'f64', n) if huge else extvec(n, False),
                                           g.choice([0.5, -0.25, 1.0]), g.choice([2.0, 3.0]), "range-extreme"))
        a = -(0.6 + 0.4 * g.unit()) * 1.7e308; b = (0.6 + 0.4 * g.unit()) * 1.7e308
        if g.chance(1, 2): a, b = b, a
        cases.append(linspace_case(a, b, n + 1, "range-extreme"))
        cases.append(powspace_case(a, b, n + 1, g.choice([1.0, 2.0, 0.5]), "range-extreme"))
    # (c) random edit histories
    g = rng.fork("hist")
    nh = 1200 if thorough else 150
    for h in range(nh):
        elt = 'rat' if h % 4 != 3 else ('f64' if h % 8 == 3 else 'cplx')
        n0 = g.range(0, 6)
        v0 = rvec(g, elt, n0)
        ops = []; v = list(v0)
        for _ in range(g.range(5, 60)):
            o = rand_vop(g, elt, len(v))
            if o[0] == "find" and o[1] == "ELEM": o = ("find", v[len(v) // 2] if v else _zero(elt))
            ops.append(o)
            snap = list(v)
            try: ref_vstep(elt, v, o)
            except RefPanic: v = snap
            except (OverflowError, ZeroDivisionError): v = snap
            if len(v) > 64: break
            if elt != 'rat' and any((x != x) or abs(x) > 1e100 for x in v): break   # keep the float histories finite
        cases.append(hist(elt, v0, ops, "history-" + elt))
    # (f) special structure (package specB): scalar / entry classes, shapes, operator forms, trait impls, pairs of edits x every view
    if SPECB_FORMS:
        cases += forms_cases(rng, tier)
        cases += xhistory_cases(rng, tier)
    cases += structured_f64_cases(rng, tier)
    # spread the expensive (float-printing) cases evenly over the coqc shards: deterministic stride permutation
    n = len(cases); step = 37
    while math.gcd(step, n) != 1: step += 1
    return [cases[(i * step) % n] for i in range(n)]

def prepare(tier):
    # Work-around for a frozen file (driver/engine.py calls run_coq with its default shard of 250 cases): the cost of
    # a C15 case is dominated by coqc PRINTING the answer (~1 ms per Z), a few hundred cases would land in 3-4 shards
    # and leave most cores idle.  Smaller shards, nothing else changed.
    import engine, common
    engine.run_coq = lambda terms, tag, imports: common.run_coq(terms, tag, imports, shard=24)

# ------------------------------------------------------------------ corpus
def _conv(elt, x):
    if elt == 'rat': return Fraction(x)
    if elt == 'f64':
        if isinstance(x, str): return float.fromhex(x) if "x" in x.lower() else float(x)
        return float(x)
    if isinstance(x, str): return complex(x.replace(" ", ""))          # "(1+2j)" as written by the replay files
    if isinstance(x, (int, float)): return complex(x)
    return complex(*[float.fromhex(t) if isinstance(t, str) else float(t) for t in x])

def case_from_json(j):
    m = j["meta"]; elt = j["elt"]
    kind = m.get("kind", "hist")
    F = lambda x: _conv('f64', x)
    if kind == "norms": return norms_case([F(x) for x in m["v"]], F(m["p"]), "corpus")
    if kind == "normlaws": return normlaws_case([F(x) for x in m["u"]], [F(x) for x in m["v"]], F(m["c"]), F(m["p"]), "corpus")
    if kind == "linspace": return linspace_case(F(m["a"]), F(m["b"]), int(m["n"]), "corpus")
    if kind == "powspace": return powspace_case(F(m["a"]), F(m["b"]), int(m["n"]), F(m["p"]), "corpus")
    if kind == "scale_l": return scale_l_case(F(m["s"]), [F(x) for x in m["v"]], "corpus")
    if kind == "cx": return cx_case([_conv('cplx', x) for x in m["v"]], "corpus")
    if kind == "cnormlaws": return cnormlaws_case([_conv('cplx', x) for x in m["u"]], [_conv('cplx', x) for x in m["v"]], _conv('cplx', m["c"]), "corpus")
    if kind == "n1laws": return n1laws_case(elt, [_conv(elt, x) for x in m["u"]], [_conv(elt, x) for x in m["v"]], _conv(elt, m["c"]), "corpus")
    if kind == "ctor": return ctor_case(elt, int(m["n"]), _conv(elt, m["x"]), [_conv(elt, x) for x in m["w"]], "corpus")
    if kind == "sort_ord": return sort_ord_case([int(x) for x in m["xs"]], "corpus")
    if kind == "random": return random_case(int(m["n"]))
    if kind != "hist":
        return None
    v0 = [_conv(elt, x) for x in m["v0"]]
    ops = []
    for o in m["ops"]:
        out = [o[0]]
        for k, a in zip(op_kinds(o[0]), o[1:]):
            if k == 'n': out.append(int(a))
            elif k == 's': out.append(_conv(elt, a))
            elif k == 'f': out.append(_conv('f64', a))
            else: out.append([_conv(elt, x) for x in a])
        ops.append(tuple(out))
    return hist(elt, v0, ops, "corpus")

# ------------------------------------------------------------------ oracle
def _mp():
    import mpmath
    mpmath.mp.dps = 50
    return mpmath

def ref_norms(v, p):
    mp = _mp()
    xs = [mp.mpf(x) for x in v]
    n1 = mp.fsum([abs(x) for x in xs])
    n2 = mp.sqrt(mp.fsum([x * x for x in xs]))
    npp = mp.power(mp.fsum([mp.power(abs(x), mp.mpf(p)) for x in xs]), 1 / mp.mpf(p)) if xs else mp.mpf(0)
    ninf = max([abs(x) for x in xs]) if xs else None
    return n1, n2, npp, ninf

def close(x, ref, scale=None, rtol=1e-12):
    ref = float(ref)
    s = max(abs(ref), scale or 0.0)
    return abs(x - ref) <= rtol * s + 1e-300

def fl(items, k):
    return bits_f64(items[k][1])

def normlaws_vectors(m):
    """the four vectors whose norms a vec.normlaws case reports: u, v, u+v, u*c (IEEE, entry by entry)"""
    u, v, c = m["u"], m["v"], m["c"]
    return [u, v, [a + b for a, b in zip(u, v)], [a * c for a in u]]

def check_norm_values(vec, got, p, w):
    """got = [norm_1, norm_2, norm_p, norm_inf] as returned for `vec`.  EVERY operation whose value is not the definition's,
    as a list of (column, description); the description starts with the tag [<operation>#<w>] (norm_inf and norm_1 first).
    All of them are collected: a failure that finding_key downgrades to a recorded finding must not hide another one."""
    n1, n2, npp, ninf = ref_norms(vec, p)
    scale = float(n1) if n1 < 1e308 else None
    g1, g2, gp, ginf = got
    out = []
    if ginf != float(ninf): out.append((3, "[norm_inf#%d] norm_inf of %r is %r, definition gives %r" % (w, vec, ginf, float(ninf))))
    if not close(g1, n1, scale): out.append((0, "[norm_1#%d] norm_1 of %r is %r, definition gives %r" % (w, vec, g1, float(n1))))
    if not close(g2, n2, scale): out.append((1, "[norm_2#%d] norm_2 of %r is %r, definition gives %r" % (w, vec, g2, float(n2))))
    if not close(gp, npp, scale): out.append((2, "[norm_p#%d] norm_p(%r) of %r is %r, definition gives %r" % (w, p, vec, gp, float(npp))))
    return out

def pick_failure(case, descs):
    """of all the failures of one case: the first that is NOT a recorded finding (it is reported), else the first"""
    for d in descs:
        if finding_key(case, d, None) is None: return d
    return descs[0] if descs else None

# ------------------------------------------------------------------ norm laws on complex / rational vectors (package cnorm)
def cmul_ieee(x, c):
    """Complex<f64> product as complex/mod.rs computes it: (a c - b d, a d + b c), every operation rounded"""
    return complex(x.real * c.real - x.imag * c.imag, x.real * c.imag + x.imag * c.real)

def cnormlaws_vectors(m):
    u, v, c = m["u"], m["v"], m["c"]
    return [u, v, [complex(a.real + b.real, a.imag + b.imag) for a, b in zip(u, v)], [cmul_ieee(a, c) for a in u]]

def oracle_cnormlaws(case, items):
    """Complex<f64>.  (1) every returned value is the definition's value of the vector it was computed from (mpmath, 50
    digits): norm_1 = (sum |z_i|, 0) with imaginary part exactly 0, norm_inf = max |z_i|, dot = the bilinear sum;
    (2) the laws hold BETWEEN THE RETURNED VALUES: non-negativity, definiteness, homogeneity, triangle inequality,
    norm_inf <= norm_1 <= n norm_inf, Cauchy-Schwarz |dot| <= sqrt(sum|u_i|^2) sqrt(sum|v_i|^2).  Values within 1e-12
    (relative), laws with slack 4e-12 (a law combines up to three values that (1) pins to 1e-12 each), as for the real
    vectors; the generated entries have moderate magnitude (no overflow / underflow of |z|^2)."""
    m = case.meta
    u, v, c = m["u"], m["v"], m["c"]
    if len(u) != len(v):
        return None if items and items[-1][0] == 'P' else "u + v with mismatched sizes did not panic (complex)"
    if not u:
        ok = len(items) == 5 and all(it[0] == 'f' and bits_f64(it[1]) == 0.0 for it in items[:4]) and items[4][0] == 'P'
        return None if ok else "[cnorm_inf] empty complex vectors: expected dot = 0, norm_1 = 0, then the index panic of norm_inf; got %r" % (items[:6],)
    if len(items) != 14 or any(it[0] != 'f' for it in items): return "malformed complex norm-laws answer %r" % (items[:8],)
    mp = _mp()
    vecs = cnormlaws_vectors(m)
    if not all(math.isfinite(z.real) and math.isfinite(z.imag) for w in vecs for z in w): return None
    dot = complex(fl(items, 0), fl(items, 1))
    N1 = [fl(items, 2 + 3 * w) for w in range(4)]; N1im = [fl(items, 3 + 3 * w) for w in range(4)]; NI = [fl(items, 4 + 3 * w) for w in range(4)]
    names = ["u", "v", "u+v", "u*c"]
    mod = lambda z: mp.sqrt(mp.mpf(z.real) ** 2 + mp.mpf(z.imag) ** 2)
    # every failure of the case is collected (as for the real vectors): pick_failure reports the first that is not the
    # recorded finding, so a downgraded [cnorm_1#w] on a range-extreme operand cannot hide a dot / norm / law failure
    fails = []; bad = set()          # bad: (row, 0 = norm_1 | 1 = norm_inf) of the values that are not the definition's
    # (1) values
    for w, vec in enumerate(vecs):
        ms = [mod(z) for z in vec]
        s1 = mp.fsum(ms); mx = max(ms)
        if N1im[w] != 0.0: bad.add((w, 0)); fails.append("[cnorm_1#%d] norm_1 of the complex vector %s = %r has imaginary part %r, not 0" % (w, names[w], vec, N1im[w]))
        elif not close(N1[w], s1): bad.add((w, 0)); fails.append("[cnorm_1#%d] norm_1 of %s = %r is %r, sum of the moduli is %r" % (w, names[w], vec, N1[w], float(s1)))
        if not close(NI[w], mx): bad.add((w, 1)); fails.append("[cnorm_inf#%d] norm_inf of %s = %r is %r, largest modulus is %r" % (w, names[w], vec, NI[w], float(mx)))
    dre = mp.fsum([mp.mpf(a.real) * mp.mpf(b.real) - mp.mpf(a.imag) * mp.mpf(b.imag) for a, b in zip(u, v)])
    dim = mp.fsum([mp.mpf(a.real) * mp.mpf(b.imag) + mp.mpf(a.imag) * mp.mpf(b.real) for a, b in zip(u, v)])
    dscale = float(mp.fsum([mod(a) * mod(b) for a, b in zip(u, v)]))
    dot_ok = close(dot.real, dre, dscale) and close(dot.imag, dim, dscale)
    if not dot_ok:
        fails.append("[cdot] dot of %r and %r is %r, the bilinear sum is %r" % (u, v, dot, complex(float(dre), float(dim))))
    # (2) laws between the returned values; a law instance is judged when every value it involves passed (1)
    sl = 4e-12
    cabs = float(mod(c))
    for k, (nm, N) in enumerate((("norm_1", N1), ("norm_inf", NI))):
        nu, nv, ns, nc = N
        ok = lambda *ws: not any((w, k) in bad for w in ws)
        for w in range(4):
            if ok(w) and not (N[w] >= 0): fails.append("[claw] complex %s is negative or NaN on %r / %r" % (nm, u, v))
        if ok(0, 1, 2) and not (ns <= (nu + nv) * (1 + sl) + 1e-300): fails.append("[claw] triangle inequality fails for complex %s: |u+v| = %r > |u| + |v| = %r (u = %r, v = %r)" % (nm, ns, nu + nv, u, v))
        if ok(0, 3) and not (abs(nc - cabs * nu) <= sl * max(nc, cabs * nu) + 1e-300): fails.append("[claw] homogeneity fails for complex %s: |u c| = %r, |c| |u| = %r (c = %r, u = %r)" % (nm, nc, cabs * nu, c, u))
    for w, vec in enumerate(vecs):
        if {(w, 0), (w, 1)} & bad: continue
        allzero = all(z == 0 for z in vec)
        if (N1[w] == 0.0) != allzero or (NI[w] == 0.0) != allzero:
            fails.append("[claw] definiteness fails on %s = %r: norm_1 = %r, norm_inf = %r" % (names[w], vec, N1[w], NI[w]))
        if not (NI[w] <= N1[w] * (1 + sl) and N1[w] <= len(vec) * NI[w] * (1 + sl)):
            fails.append("[claw] norm_inf <= norm_1 <= n norm_inf fails on %s = %r: %r, %r" % (names[w], vec, NI[w], N1[w]))
    s2u = mp.sqrt(mp.fsum([mod(z) ** 2 for z in u])); s2v = mp.sqrt(mp.fsum([mod(z) ** 2 for z in v]))
    if dot_ok and not (abs(dot) <= float(s2u * s2v) * (1 + sl) + 1e-300):
        fails.append("[claw] Cauchy-Schwarz fails: |dot(u,v)| = %r > %r (u = %r, v = %r)" % (abs(dot), float(s2u * s2v), u, v))
    return pick_failure(case, fails)

def oracle_n1laws_rat(m, items):
    """Rat, exact: values against Fraction arithmetic, then the laws between the returned values"""
    u, v, c = m["u"], m["v"], m["c"]
    if len(u) != len(v):
        return None if items and items[-1][0] == 'P' else "u + v with mismatched sizes did not panic (rational)"
    if len(items) != 5 or any(it[0] != 'q' for it in items): return "malformed rational norm-laws answer %r" % (items[:6],)
    got = [Fraction(it[1], it[2]) for it in items]
    dot, N = got[0], got[1:]
    vecs = [u, v, [a + b for a, b in zip(u, v)], [a * c for a in u]]
    names = ["u", "v", "u+v", "u*c"]
    for w, vec in enumerate(vecs):
        ref = sum((abs(x) for x in vec), Fraction(0))
        if N[w] != ref: return "[qnorm_1#%d] norm_1 of the rational vector %s = %r is %s, sum of the absolute values is %s" % (w, names[w], vec, N[w], ref)
    ref = sum((a * b for a, b in zip(u, v)), Fraction(0))
    if dot != ref: return "[qdot] dot of %r and %r is %s, not %s" % (u, v, dot, ref)
    nu, nv, ns, nc = N
    if min(N) < 0: return "[qlaw] rational norm_1 is negative on %r / %r" % (u, v)
    if ns > nu + nv: return "[qlaw] triangle inequality fails for rational norm_1: %s > %s + %s (u = %r, v = %r)" % (ns, nu, nv, u, v)
    if nc != abs(c) * nu: return "[qlaw] homogeneity fails for rational norm_1: |u c| = %s, |c| |u| = %s (c = %s, u = %r)" % (nc, abs(c) * nu, c, u)
    for w, vec in enumerate(vecs):
        if (N[w] == 0) != all(x == 0 for x in vec): return "[qlaw] definiteness fails on %s = %r: norm_1 = %s" % (names[w], vec, N[w])
        if vec:
            mx = max(abs(x) for x in vec)
            if not (mx <= N[w] <= len(vec) * mx): return "[qlaw] max <= norm_1 <= n max fails on %s = %r: %s, %s" % (names[w], vec, mx, N[w])
    if dot * dot > sum((x * x for x in u), Fraction(0)) * sum((x * x for x in v), Fraction(0)):
        return "[qlaw] Cauchy-Schwarz fails on %r, %r: dot = %s" % (u, v, dot)
    return None

# ------------------------------------------------------------------ the recorded finding (KNOWN_FINDINGS.txt, open:)
F64_MIN_NORMAL = 2.2250738585072014e-308
def square_leaves_normal_range(x):
    """x finite and non-zero whose square is not a normal f64 (overflows, or underflows to a subnormal / zero)"""
    if x == 0 or not math.isfinite(x): return False
    y = x * x
    return (not math.isfinite(y)) or abs(y) < F64_MIN_NORMAL

def accumulated_leaves_normal_range(terms):
    """terms: the non-negative f64 values the pinned code adds up (|x|^2 for norm_2, |x|^p for norm_p, re^2 and im^2 for
    Complex::abs), in its order and in IEEE arithmetic.  True when a term comes from a non-zero entry (the caller passes
    only those vectors) and the ACCUMULATED value is not a normal f64: it overflowed, or it is below 2^-1022 (subnormal or
    zero).  While the accumulated value stays normal an underflowed term costs at most 2^-1075 each against a total of at
    least 2^-1022, i.e. the pinned code is accurate and a failure there is not the recorded finding."""
    acc = 0.0
    for t in terms: acc = acc + t
    return (not math.isfinite(acc)) or acc < F64_MIN_NORMAL

def finding_key(case, desc, items):
    """`f64-square-range` exactly when the failing operation is norm_2 / norm_p / linspace / powspace on f64 AND the sum
    that operation accumulates on ITS operand (norm_2: the squares, norm_p: the powers |x|^p; evaluated here in IEEE
    arithmetic, in the order of the code) is outside the normal f64 range (for the spacings: the difference b - a is).
    A single entry whose own square underflows next to entries that dominate the sum ([1.0, 1e-160]) does not grant the
    key: the pinned code is accurate there.  Decided from the input, never from the failure; everything else stays a VIOLATION."""
    m = case.meta; kind = m.get("kind")
    import re as _re
    if kind == "cnormlaws" and isinstance(desc, str):
        # package cnorm: the complex twin of the same cause (Complex::abs = sqrt(re^2 + im^2), unscaled; recorded for C01 as
        # cplx-sqmod-range; KNOWN_FINDINGS.txt has the C15 line with this key, witnesses corpus/C15/kf_cplx_scale_*.json).  The default generators do NOT draw such entries:
        # the key is decided from the INPUT (an entry of the operand of the failing call whose squared modulus re^2 + im^2,
        # evaluated in IEEE arithmetic, leaves the normal range; a component whose own square underflows next to a
        # dominating one -- 1 + 1e-160 i -- does not count), never from the failure.
        t = _re.match(r"\[(cnorm_1|cnorm_inf)#(\d)\]", desc)
        if t:
            vec = cnormlaws_vectors(m)[int(t.group(2))]
            def sq_out(z):
                if z == 0 or not (math.isfinite(z.real) and math.isfinite(z.imag)): return False
                return accumulated_leaves_normal_range([z.real * z.real, z.imag * z.imag])
            return "cplx-sqmod-range" if any(sq_out(z) for z in vec) else None
        return None
    if case.elt != 'f64' or not isinstance(desc, str): return None
    t = _re.match(r"\[(norm_2|norm_p)#(\d)\]", desc)
    if t and kind in ("norms", "normlaws"):
        vec = m["v"] if kind == "norms" else normlaws_vectors(m)[int(t.group(2))]
        if not all(math.isfinite(x) for x in vec) or all(x == 0 for x in vec): return None
        if t.group(1) == "norm_2": terms = [abs(x) * abs(x) for x in vec]
        else: terms = [cpow(abs(x), m["p"]) for x in vec]
        return "f64-square-range" if accumulated_leaves_normal_range(terms) else None
    if kind in ("linspace", "powspace") and desc.startswith("[%s]" % kind):
        return "f64-square-range" if not math.isfinite(m["b"] - m["a"]) else None
    return None

NOT_JUDGED = {}        # family -> histories the list model could not follow (OverflowError / ZeroDivisionError): dropped from the search
JUDGED = [0]

def extra_coverage():
    return {"oracle_histories_judged": JUDGED[0], "oracle_histories_not_judged": sum(NOT_JUDGED.values()),
            "oracle_histories_not_judged_by_family": dict(NOT_JUDGED)}

def oracle(case, items):
    m = case.meta; kind = m.get("kind")
    elt = case.elt
    if kind == "hist":
        sc = []
        try:
            exp = ref_vhist(elt, m["v0"], m["ops"], sc)
        except (OverflowError, ZeroDivisionError):
            # the plain list model cannot follow this history (python float overflow in pow / a division python rejects):
            # the history is NOT judged by the search; counted, per family, in the coverage (oracle_histories_not_judged)
            NOT_JUDGED[case.family] = NOT_JUDGED.get(case.family, 0) + 1
            return None
        JUDGED[0] += 1
        # floats item by item against the item's own error scale (veclib.result_scales / carried_scales), not the largest of the run
        d = streams_match(exp, items, 0.0 if elt == 'rat' else 1e-12, sc)
        if d: return "vector history disagrees with the plain list model: " + d
        return None
    if kind == "norms":
        v, p = m["v"], m["p"]
        if len(items) != 4 or any(it[0] != 'f' for it in items[:3]): return "malformed norms answer %r" % (items[:5],)
        if not v:
            if not all(fl(items, k) == 0.0 for k in range(3)): return "[norm_1] norms of the empty vector are not 0: %r" % (items[:3],)
            return None if items[3][0] == 'P' else "[norm_inf] norm_inf of the empty vector returned a value"
        if items[3][0] != 'f': return "[norm_inf] norm_inf of %r panicked" % (v,)
        return pick_failure(case, [d for _, d in check_norm_values(v, [fl(items, k) for k in range(4)], p, 0)])
    if kind == "normlaws":
        u, v, c, p = m["u"], m["v"], m["c"], m["p"]
        if len(u) != len(v):
            return None if items and items[-1][0] == 'P' else "u + v with mismatched sizes did not panic"
        if not u:
            return None       # norm_inf of the empty vector panics (index): nothing to compare
        if len(items) != 16 or any(it[0] != 'f' for it in items): return "malformed norm-laws answer %r" % (items[:6],)
        N = [[fl(items, 4 * w + k) for k in range(4)] for w in range(4)]     # rows u, v, u+v, c*u ; columns 1, 2, p, inf
        vecs = normlaws_vectors(m)
        # every failure of the case is collected; pick_failure reports the first that is not the recorded finding (a
        # downgraded [norm_2#w] on a range-extreme operand must not hide a norm_1 / norm_p / law failure of the same case)
        fails = []; bad = set()          # bad: (row, column) of the values that are not the definition's
        # (1) every value is the definition's value of the vector it was computed from (names the failing operation) ...
        for w, vec in enumerate(vecs):
            if not all(math.isfinite(x) for x in vec): continue      # u+v or c*u overflowed entry-wise: nothing is claimed
            for k, d in check_norm_values(vec, N[w], p, w):
                bad.add((w, k)); fails.append(d)
        if not all(math.isfinite(x) for vec in vecs for x in vec): return pick_failure(case, fails)
        # (2) ... and the laws themselves hold between the returned values.  A law instance is judged when every value it
        # involves passed (1) (a value that failed (1) is reported -- or is the recorded finding -- under its own tag).
        # Clause (1) pins each value to 1e-12 only, a law combines up to three of them: slack 4e-12.
        names = ["norm_1", "norm_2", "norm_p(%r)" % p, "norm_inf"]
        sl = 4e-12
        for k in range(4):
            nu, nv, ns, nc = N[0][k], N[1][k], N[2][k], N[3][k]
            ok = lambda *ws: not any((w, k) in bad for w in ws)
            for w in range(4):
                if ok(w) and not (N[w][k] >= 0): fails.append("[law] %s is negative or NaN on %r / %r" % (names[k], u, v))
            if ok(0, 1, 2) and not (ns <= (nu + nv) * (1 + sl) + 1e-300): fails.append("[law] triangle inequality fails for %s: |u+v| = %r > |u| + |v| = %r (u = %r, v = %r)" % (names[k], ns, nu + nv, u, v))
            if ok(0, 3) and not (abs(nc - abs(c) * nu) <= sl * max(nc, abs(c) * nu) + 1e-300): fails.append("[law] homogeneity fails for %s: |c u| = %r, |c| |u| = %r (c = %r, u = %r)" % (names[k], nc, abs(c) * nu, c, u))
        for w, vec in enumerate((u, v)):
            n1, n2, npp, ninf = N[w][0], N[w][1], N[w][2], N[w][3]
            if not ({(w, 0), (w, 1), (w, 3)} & bad) and not (ninf <= n2 * (1 + sl) and n2 <= n1 * (1 + sl)): fails.append("[law] norm_inf <= norm_2 <= norm_1 fails on %r: %r, %r, %r" % (vec, ninf, n2, n1))
            if not ({(w, 0), (w, 2), (w, 3)} & bad) and p >= 1 and not (ninf <= npp * (1 + sl) and npp <= n1 * (1 + sl)): fails.append("[law] norm_inf <= norm_p <= norm_1 fails on %r (p = %r): %r, %r, %r" % (vec, p, ninf, npp, n1))
        return pick_failure(case, fails)
    if kind in ("linspace", "powspace"):
        a, b, n = m["a"], m["b"], m["n"]
        if not items or items[0] != ('i', n): return "[%s] %s(%r, %r, %d) has length %r" % (kind, kind, a, b, n, items[:1])
        xs = [bits_f64(it[1]) for it in items[1:]]
        if len(xs) != n: return "%s: malformed answer" % kind
        if n < 2: return None                                      # the claim is for n >= 2
        if xs[0] != a: return "[%s] %s(%r, %r, %d) starts at %r, not exactly at a" % (kind, kind, a, b, n, xs[0])
        if abs(xs[-1] - b) > 4 * 2.0 ** -52 * max(abs(a), abs(b)): return "[%s] %s(%r, %r, %d) ends at %r, not at b within rounding" % (kind, kind, a, b, n, xs[-1])
        up = all(x <= y for x, y in zip(xs, xs[1:])); down = all(x >= y for x, y in zip(xs, xs[1:]))
        if (a < b and not up) or (a > b and not down) or (a == b and not (up and down)): return "[%s] %s(%r, %r, %d) is not monotone: %r" % (kind, kind, a, b, n, xs)
        mp = _mp()
        for i, x in enumerate(xs):
            t = mp.mpf(i) / (n - 1)
            ref = mp.mpf(a) + (mp.mpf(b) - mp.mpf(a)) * (t if kind == "linspace" else mp.power(t, mp.mpf(m["p"])))
            if not close(x, ref, max(abs(a), abs(b))): return "[%s] %s(%r, %r, %d)[%d] = %r, definition gives %r" % (kind, kind, a, b, n, i, x, float(ref))
        return None
    if kind == "scale_l":
        s, v = m["s"], m["v"]
        exp = ref_items_v('f64', [s * x for x in v]) + ref_items_v('f64', [x * s for x in v])
        sc = ([None] + [abs(s * x) for x in v]) * 2                 # every product against its own magnitude
        d = streams_match(exp, items, 1e-15, sc)
        return ("f64 * vector: " + d) if d else None
    if kind == "cx":
        v = m["v"]
        exp = ref_items_v('cplx', [z.conjugate() for z in v]) + ref_items_v('f64', [z.real for z in v]) + \
              ref_items_v('cplx', [_abs('cplx', z) for z in v])
        exp += [('f', f64_bits(max(_abs('cplx', z).real for z in v)))] if v else [('P', 'index')]
        mods = [abs(z) for z in v]               # conj / real: identical; |z| (and the maximum) against its own magnitude
        sc = [None] + [0.0] * (2 * len(v)) + [None] + [0.0] * len(v) + [None] + [t for t in mods for _ in (0, 1)] + ([max(mods)] if v else [None])
        d = streams_match(exp, items, 1e-12, sc)
        return ("complex vector conj/real/abs/norm_inf: " + d) if d else None
    if kind == "cnormlaws": return oracle_cnormlaws(case, items)
    if kind == "n1laws" and elt == 'rat': return oracle_n1laws_rat(m, items)
    if kind == "ctor":
        n, x, w = m["n"], m["x"], m["w"]
        one = Fraction(1) if elt == 'rat' else (1.0 if elt == 'f64' else 1 + 0j)
        exp = ref_items_v(elt, [x] * n) + ref_items_v(elt, [_zero(elt)] * n) + ref_items_v(elt, [one] * n) + ref_items_v(elt, []) + \
              ref_items_v(elt, w) + [('i', len(w))] + ref_items_v(elt, w) + [('i', 1)]
        d = streams_match(exp, items, 0.0)
        return ("constructors: " + d) if d else None
    if kind == "sort_ord":
        xs = sorted(m["xs"])
        exp = [('i', len(xs))] + [('q', x, 1) for x in xs]
        return None if exp == items else "sort() of %r returned %r" % (m["xs"], items)
    if kind == "random":
        n = m["n"]
        return None if items == [('i', n), ('i', n)] else "random(%d): size / number of elements in [0,1) = %r" % (n, items)
    return None
