# C03 -- dense matrix algebra / editing follow their definitions for every shape and history.
from fractions import Fraction
from common import *
from engine import Case
from matlib import *

PID = "C03"
IMPORTS = "From OV Require Import Model.Vector Model.Matrix Model.MatOps Model.MatNorms."
MODEL_VO = ["Model/MatOps.vo", "Model/MatNorms.vo"]
EXHAUSTIVE = False
RULE = ("kinds mat.histeq (exact tier) / mat.hist (float tiers) / mat.norms / mat.norm_p: (a) products r x k * k x c for every shape "
        "0<=r,k,c<=B (B=5 quick, 8 thorough; exhaustive in shape, sampled rational values), (b) every operation on every shape <=3x3 "
        "(<=4x4 thorough) with every index argument 0..dim+1 (out-of-range included), (p) every ordered pair of 24 editing operations "
        "(in-range arguments) on 1x1, 2x2, 3x2, 2x3, each as its own two-step history (+3000 sampled triples, thorough), (n) the four "
        "f64 norms on every shape 0..B x 0..B and norm_p for p in {1,1.5,2,3,4}, (c) seeded random histories of up to 40 operations "
        "(rat, f64, Complex); round four: (v) every scalar-argument operation x the values 0, 1, -1, 2, 1/2 x every shape 0..3 x 0..3, operands of "
        "special structure (zero matrix, the matrix itself, identity, unit triangular, cyclic shift, zero / ones / unit vectors), both operands the SAME "
        "object (&m + &m, &m - &m, &m * &m; also after editing steps), op-pairs on 1x3, 3x1, 0x2, 2x0, 1x2, 3x3 (one per seed; all thorough), "
        "f64 * matrix with 0, -0.0, +-1, 2, 1/2 on empty / single-row / single-column / wide / tall shapes, f64 and Complex histories with scalars and "
        "entries from the special menus (axes, unit modulus, |re| = |im|) judged by a numpy list-of-rows reference, norms on tie / single-entry / "
        "signed-zero patterns with norm_p at p = 1, 2, 1/2, the constructors new(r, c, x) / empty() for every shape 0..4 x 0..4, products / transposes / row and "
        "column access / norms with a dimension in 9..20; in the exact tier every state dump is followed by the derived PartialEq of the matrix against a freshly "
        "built one; distinct = distinct executor line; non-trivial = non-empty matrix or an operation that must panic")
TRUSTED = ["Coq 8.16.1 kernel + vm_compute", "Rust executor /verif/harness (Rat = i128 rationals)", "python driver: generators, list-of-rows reference model, stream comparators",
           "hand-written Gallina model coq/Model/{Matrix,MatOps,MatNorms}.v tied to src/matrix/*.rs by differential execution (Rat vs Qc exact; f64/Complex vs primitive floats)"]
ASSUMPTIONS = ["Rust semantics of Vec/usize as modelled (checked indexing, debug overflow checks)", "the sampled cases are where model and code were compared; the theorems are about the model",
               "norms_real only: the four standard-library axioms of the classical real numbers",
               "norm_frob / norm_p at p = 2 of the float model use x*x for f64::powf(x, 2.0) and sqrt for powf(s, 0.5) (libm's pow is not specified to be correctly rounded: compared by tolerance)",
               "model evaluation of dimensions up to 20 needs the default 8 MB stack (ulimit -s 8192): the big-shapes family stops at 20 because a 33 x 33 rational history overflows coqc's stack under vm_compute; with a smaller stack limit the model side of these cases fails (a machinery error, not a verdict)"]
UNPROVED = ["norms_real's p-norm clause is stated with Coq's Rpower (Rpower 0 p = 1) and is wrong on matrices with zero entries (norm_p_Rpower_wrong_at_zero makes that concrete); the correct statement is norm_p_real (power function pw with 0^p = 0), with norm_p_real_1 / _2 (entrywise 1-norm, Frobenius), bounds, the norm axioms, Minkowski for p >= 1 (norm_p_triangle), submultiplicativity of norm_1 / norm_inf / norm_frob (matnorm_submult; refuted for norm_max), consistency with the vector norms; NOT proved: submultiplicativity of norm_p for 1 <= p <= 2 (Hoelder); at binary64 a NaN entry is ignored by f64::max (norm_1 [[NaN]] = 0: matnorm_float_nan_ignored pins what the code does; outside the property's quantifier)",
            "round two: matvec_backward_error / matmul_backward_error (fl(Ax) = (A+dA)x, |dA| <= gamma_n |A|) in the standard model and at binary64 via Flocq; rounding bounds of norm_1 / norm_inf / norm_max / norm_frob in the standard model and at binary64 (mnorm_*_rounding, mnorm_*_float); libm's powf inside norm_p at general p remains tie + search (the norm theorems are over exact order/real arithmetic with powf as a parameter)",
            "history refinement (run_refines) covers the 18 checked editing operations; the raw (i,j) writes m[(i,j)]= / swap_elem (unchecked addressing, outside the claim) and /= scalar (own theorem mdiv_assign_scalar_spec) are tied and searched only",
            "operand non-mutation / owned=borrowed are run-time observations of the executor (a value model satisfies them vacuously)"]

MANIFEST = dict(
    text=("%d Coq theorems," % ntheorems("C03") + " all shapes / all entry values / all histories, no ring law assumed, about the flat row-major Gallina model of "
          "src/matrix: one refinement theorem per operation (result is Ok - i.e. no index leaves the buffer -, wf and shape preserved, every "
          "entry equals its textbook definition; Panic Guard exactly when the documented range/shape condition fails) for index/get/set row/col, "
          "delete_row, resize, eye, all fills, swap, matrix*vector, + - neg scale div and the compound assignments, transpose_in_place (both "
          "branches) and the product as written (get_col/multiply/set_col) for every conformable shape incl. wide, tall and empty; "
          "step_refines/run_refines: every finite history of the 18 checked editing operations refines a list-of-rows specification; "
          "norms = textbook definitions over any ordered arithmetic and over R; the legacy set_col is refuted on the committed witnesses. "
          "The model is run against the implementation (Rat vs Qc exact, f64/Complex bitwise) on every product shape 0..5 (0..8 thorough), "
          "every operation x every index on small shapes, every ordered pair of editing operations, random histories, with the derived "
          "PartialEq against a rebuilt matrix after every step; a list-of-rows reference and mpmath search for a failing input (round four: the "
          "reference also judges the f64 / Complex histories, by tolerance; scalar arguments 0, +-1, 2, 1/2 on every shape; same-object operands; "
          "op-pairs on single-row, single-column and empty shapes)."),
    note="f64 rounding of the norms / libm powf is tied and searched, not proved; raw (i,j) writes and operand non-mutation are observed at run time only.",
    technique="Coq proof (loop invariants over a representation predicate; no axioms except the stdlib reals for norms_real) + model/implementation differential execution (vm_compute vs Rust executor) + reference-model search",
    design="7 (C03), Appendix E")

def val(rng, elt):
    if elt == 'rat':
        k = rng.below(8)
        if k == 0: return Fraction(0)
        if k < 5: return Fraction(rng.range(-5, 5))
        return Fraction(rng.range(-7, 7), rng.range(1, 4))
    if elt == 'f64':
        k = rng.below(8)
        if k == 0: return 0.0
        if k < 4: return float(rng.range(-6, 6))
        if k < 6: return rng.range(-64, 64) / 8.0
        return (rng.unit() - 0.5) * 10 ** rng.range(-3, 3)
    if elt == 'cplx':
        return complex(val(rng, 'f64'), val(rng, 'f64'))

def rmat(rng, elt, r, c):
    return (r, c, [val(rng, elt) for _ in range(r * c)])

def rvec(rng, elt, n):
    return [val(rng, elt) for _ in range(n)]

def mk(elt, m0, ops, family, nontrivial=True):
    # exact tier: kind mat.histeq (every state dump is followed by `m == freshly built matrix`, so stale or missing
    # raw storage is observable); float tiers: mat.hist (NaN entries would make == false for a harmless reason)
    if elt == 'rat':
        return Case(elt, histeq_line(elt, m0, ops), histeq_term(elt, m0, ops),
                    meta={"m0": m0, "ops": ops}, family=family, nontrivial=nontrivial)
    return Case(elt, hist_line(elt, m0, ops), hist_term(elt, m0, ops),
                meta={"m0": m0, "ops": ops}, family=family, nontrivial=nontrivial)

# ---- systematic op-pairs: every ordered pair of editing operations, in-range arguments for the current shape
def _ix(g, n): return g.below(n) if n > 0 else 0
def _nz(g):
    x = val(g, 'rat')
    return x if x != 0 else Fraction(3, 2)
EDIT_OPS = [
    ("set_row",        lambda g, r, c: ("set_row", _ix(g, r), rvec(g, 'rat', c))),
    ("set_col",        lambda g, r, c: ("set_col", _ix(g, c), rvec(g, 'rat', r))),
    ("delete_row",     lambda g, r, c: ("delete_row", _ix(g, r))),
    ("resize+rows",    lambda g, r, c: ("resize", r + 1 + g.below(2), c)),          # same cols, more rows
    ("resize-rows",    lambda g, r, c: ("resize", max(r - 1, 0), c)),               # same cols, fewer rows
    ("resize+cols",    lambda g, r, c: ("resize", r, c + 1)),
    ("resize-cols",    lambda g, r, c: ("resize", r + g.below(2), max(c - 1, 0))),
    ("resize-same",    lambda g, r, c: ("resize", r, c)),
    ("transpose_in_place", lambda g, r, c: ("transpose_in_place",)),
    ("swap_rows",      lambda g, r, c: ("swap_rows", _ix(g, r), _ix(g, r))),
    ("fill",           lambda g, r, c: ("fill", val(g, 'rat'))),
    ("fill_diag",      lambda g, r, c: ("fill_diag", val(g, 'rat'))),
    ("fill_band",      lambda g, r, c: ("fill_band", g.range(-max(r - 1, 0), max(c - 1, 0)), val(g, 'rat'))),
    ("fill_tridiag",   lambda g, r, c: ("fill_tridiag", val(g, 'rat'), val(g, 'rat'), val(g, 'rat'))),
    ("fill_row",       lambda g, r, c: ("fill_row", _ix(g, r), val(g, 'rat'))),
    ("fill_col",       lambda g, r, c: ("fill_col", _ix(g, c), val(g, 'rat'))),
    ("clear",          lambda g, r, c: ("clear",)),
    ("set",            lambda g, r, c: ("set", _ix(g, r), _ix(g, c), val(g, 'rat')) if r * c > 0 else ("numel",)),
    ("swap_elem",      lambda g, r, c: ("swap_elem", _ix(g, r), _ix(g, c), _ix(g, r), _ix(g, c)) if r * c > 0 else ("numel",)),
    ("add_assign",     lambda g, r, c: ("add_assign", rmat(g, 'rat', r, c))),
    ("sub_assign_own", lambda g, r, c: ("sub_assign_own", rmat(g, 'rat', r, c))),
    ("mul_assign_s",   lambda g, r, c: ("mul_assign_s", val(g, 'rat'))),
    ("div_assign_s",   lambda g, r, c: ("div_assign_s", _nz(g))),
    ("add_assign_s",   lambda g, r, c: ("add_assign_s", val(g, 'rat'))),
]   # (-= scalar is the same loop as += scalar; it is exercised by the single-op and history families)
PAIR_SHAPES = [(1, 1), (2, 2), (3, 2), (2, 3)]

def distinct_mat(r, c):
    """entries 1..r*c: every element distinct and non-zero, so a misplaced or stale element shows"""
    return (r, c, [Fraction(k + 1) for k in range(r * c)])

def op_chain(g, m0, gens):
    ops = []
    for _, gen in gens:
        r, c = shape_after(m0, ops)
        ops.append(gen(g, r, c))
    return ops

def gen_op_pairs(rng, tier):
    cases = []
    g = rng.fork("op-pairs")
    for (r, c) in PAIR_SHAPES:
        m0 = distinct_mat(r, c)
        for a in EDIT_OPS:
            for b in EDIT_OPS:
                cases.append(mk('rat', m0, op_chain(g, m0, [a, b]), "op-pairs"))
    if tier == "thorough":
        for _ in range(3000):
            r, c = PAIR_SHAPES[g.below(len(PAIR_SHAPES))]
            m0 = distinct_mat(r, c)
            gens = [EDIT_OPS[g.below(len(EDIT_OPS))] for _ in range(3)]
            cases.append(mk('rat', m0, op_chain(g, m0, gens), "op-triples"))
    return cases

def norm_val(rng):
    k = rng.below(10)
    if k == 0: return 0.0
    if k == 1: return -0.0
    if k < 5: return float(rng.range(-9, 9))
    if k < 7: return rng.range(-64, 64) / 8.0
    return (rng.unit() - 0.5) * 10 ** rng.range(-3, 3)

def mk_norms(m0, family="norms"):
    r, c, _ = m0
    return Case('f64', "mat.norms " + tok_mat('f64', m0), "@mat_norms SAF flat_f %s" % coq_mat('f64', m0),
                meta={"kind": "norms", "m0": m0}, family=family, nontrivial=(r * c > 0), tol=1e-13)

def mk_scale_l(m0, x, family="scale_l"):
    r, c, _ = m0
    t = "fl_res (@fl_mat AF flat_f) (@mscale_l AF %s %s)" % (coq_scalar('f64', x), coq_mat('f64', m0))
    t2 = "fl_res (@fl_mat AF flat_f) (@mscale AF %s %s)" % (coq_mat('f64', m0), coq_scalar('f64', x))
    return Case('f64', "mat.scale_l %s %s" % (tok_mat('f64', m0), tok_scalar('f64', x)), "(%s ++ %s)" % (t, t2),
                meta={"kind": "scale_l", "m0": m0, "x": x}, family=family, nontrivial=(r * c > 0))

def mk_norm_p(m0, p, family="norm_p"):
    r, c, _ = m0
    return Case('f64', "mat.norm_p %s %s" % (tok_mat('f64', m0), tok_scalar('f64', p)), None,
                meta={"kind": "norm_p", "m0": m0, "p": p}, family=family, nontrivial=(r * c > 0))

def norms_reference(m0):
    """textbook definitions, exact rational arithmetic on the (dyadic) entries"""
    r, c, vals = m0
    a = [[abs(Fraction(vals[i * c + j])) for j in range(c)] for i in range(r)]
    n1 = max([sum((a[i][j] for i in range(r)), Fraction(0)) for j in range(c)], default=Fraction(0))
    ni = max([sum((a[i][j] for j in range(c)), Fraction(0)) for i in range(r)], default=Fraction(0))
    nm = max([a[i][j] for i in range(r) for j in range(c)], default=Fraction(0))
    s2 = sum((a[i][j] ** 2 for i in range(r) for j in range(c)), Fraction(0))
    return n1, ni, nm, s2

def close(x, ref, rel=1e-12):
    return abs(x - ref) <= rel * max(abs(ref), 1e-300) or x == ref

def norms_oracle(case, items):
    import mpmath, math
    m0 = case.meta["m0"]
    if any(not math.isfinite(v) for v in m0[2]):
        return None      # NaN / infinite entries are outside the property's quantifier: model-vs-implementation tie only
    if any(it[0] == 'P' for it in items):
        return "a norm panicked on a well-formed matrix: %r" % (items,)
    got = [bits_f64(it[1]) for it in items if it[0] == 'f']
    if case.meta["kind"] == "norms":
        if len(got) != 4: return "expected 4 norms, got %r" % (items,)
        n1, ni, nm, s2 = norms_reference(m0)
        mpmath.mp.prec = 200
        ref = [float(n1), float(ni), float(nm), float(mpmath.sqrt(mpmath.mpf(s2.numerator) / s2.denominator))]
        for name, x, y in zip(("norm_1 (max column sum)", "norm_inf (max row sum)", "norm_max", "norm_frob"), got, ref):
            if not close(x, y):
                return "%s = %r but the definition gives %r on %r" % (name, x, y, m0)
        return None
    p = case.meta["p"]
    r, c, vals = m0
    mpmath.mp.prec = 200
    s = mpmath.mpf(0)
    for v in vals: s += mpmath.power(abs(mpmath.mpf(v)), mpmath.mpf(p))
    ref = float(mpmath.power(s, 1 / mpmath.mpf(p))) if s != 0 else 0.0
    if len(got) != 1 or not close(got[0], ref, 1e-10):
        return "norm_p(%r) = %r but (sum |a_ij|^p)^(1/p) = %r on %r" % (p, got, ref, m0)
    return None

def rand_op(rng, elt, r, c, allow_bad=True):
    """one operation, mostly valid for an r x c matrix, sometimes deliberately out of range / mismatched"""
    bad = allow_bad and rng.chance(1, 6)
    def idx(n):
        if bad or n == 0: return rng.range(0, n + 1)
        return rng.below(n)
    k = rng.below(34)
    names = ["set_row", "set_col", "delete_row", "resize", "transpose_in_place", "swap_rows", "swap_elem", "fill", "fill_diag",
             "fill_band", "fill_tridiag", "fill_row", "fill_col", "set", "add_assign", "sub_assign", "mul_assign_s", "div_assign_s",
             "add_assign_s", "sub_assign_s", "get", "get_row", "get_col", "multiply", "transpose", "neg", "add", "sub", "scale", "div",
             "mul", "mul_l", "eye", "numel", "clone_mut", "add_assign_own", "sub_assign_own", "clear"]
    name = names[rng.below(len(names))]
    s = lambda: val(rng, elt)
    if name == "set_row": return (name, idx(r), rvec(rng, elt, c if not bad else rng.range(0, c + 1)))
    if name == "set_col": return (name, idx(c), rvec(rng, elt, r if not bad else rng.range(0, r + 1)))
    if name == "delete_row": return (name, idx(r))
    if name == "resize": return (name, rng.range(0, 5), rng.range(0, 5))
    if name in ("transpose_in_place", "transpose", "neg", "numel", "clear"): return (name,)
    if name == "swap_rows": return (name, idx(r), idx(r))
    if name == "swap_elem":
        if r * c == 0: return ("numel",)
        return (name, rng.below(r), rng.below(c), rng.below(r), rng.below(c))
    if name in ("fill", "fill_diag", "mul_assign_s", "add_assign_s", "sub_assign_s", "scale", "clone_mut"): return (name, s())
    if name in ("div_assign_s", "div"):
        x = s()
        if x == 0 and not rng.chance(1, 4): x = Fraction(2) if elt == 'rat' else (2.0 if elt == 'f64' else complex(2, 1))
        return (name, x)
    if name == "fill_band": return (name, rng.range(-(r + 1), c + 1), s())
    if name == "fill_tridiag": return (name, s(), s(), s())
    if name == "fill_row": return (name, idx(r), s())
    if name == "fill_col": return (name, idx(c), s())
    if name == "set":
        if r * c == 0: return ("numel",)
        return (name, rng.below(r), rng.below(c), s())
    if name == "get":
        if r * c == 0: return ("numel",)
        return (name, rng.below(r), rng.below(c))
    if name in ("add_assign", "sub_assign", "add", "sub", "add_assign_own", "sub_assign_own"):
        if bad: return (name, rmat(rng, elt, rng.range(0, r + 1), rng.range(0, c + 1)))
        return (name, rmat(rng, elt, r, c))
    if name == "get_row": return (name, idx(r))
    if name == "get_col": return (name, idx(c))
    if name == "multiply": return (name, rvec(rng, elt, c if not bad else rng.range(0, c + 1)))
    if name == "mul": return (name, rmat(rng, elt, c if not bad else rng.range(0, c + 1), rng.range(0, 4)))
    if name == "mul_l": return (name, rmat(rng, elt, rng.range(0, 4), r if not bad else rng.range(0, r + 1)))
    if name == "eye": return (name, rng.range(0, 4))
    raise ValueError(name)

NONMUTATING = {"get", "get_row", "get_col", "multiply", "transpose", "neg", "add", "sub", "scale", "div", "mul", "mul_l", "eye", "numel"}

def shape_after(m0, ops):
    """shape bookkeeping for the generator only (uses the reference model)"""
    m = RefMat(*m0)
    for op in ops:
        snap = m.copy()
        try: ref_step(m, op)
        except RefPanic: m = snap
        except Exception: m = snap
    return m.r, m.c

def generate(rng, tier):
    cases = []
    B = 8 if tier == "thorough" else 5
    # (a) products over every shape
    g = rng.fork("prod")
    for r in range(B + 1):
        for k in range(B + 1):
            for c in range(B + 1):
                a = rmat(g, 'rat', r, k); b = rmat(g, 'rat', k, c)
                cases.append(mk('rat', a, [("mul", b)], "product-shapes", nontrivial=(r * c > 0)))
    if tier == "quick":   # a sample of the larger shapes as well
        for _ in range(30):
            r, k, c = g.range(0, 8), g.range(0, 8), g.range(0, 8)
            cases.append(mk('rat', rmat(g, 'rat', r, k), [("mul", rmat(g, 'rat', k, c))], "product-shapes-large"))
    # (b) every operation on every small shape with every index
    g = rng.fork("ops")
    S = 4 if tier == "thorough" else 3
    for r in range(S + 1):
        for c in range(S + 1):
            m0 = rmat(g, 'rat', r, c)
            ops = []
            for i in range(r + 2):
                ops += [("get_row", i), ("delete_row", i), ("fill_row", i, val(g, 'rat')), ("set_row", i, rvec(g, 'rat', c))]
                for j in range(r + 2): ops.append(("swap_rows", i, j))
            for j in range(c + 2):
                ops += [("get_col", j), ("fill_col", j, val(g, 'rat')), ("set_col", j, rvec(g, 'rat', r))]
            for n in range(0, max(r, c) + 2):
                ops += [("set_row", 0, rvec(g, 'rat', n)), ("set_col", 0, rvec(g, 'rat', n)), ("multiply", rvec(g, 'rat', n))]
            for o in range(-(r + 1), c + 2): ops.append(("fill_band", o, val(g, 'rat')))
            ops += [("transpose",), ("transpose_in_place",), ("neg",), ("fill_diag", val(g, 'rat')), ("fill_tridiag", val(g, 'rat'), val(g, 'rat'), val(g, 'rat')),
                    ("scale", val(g, 'rat')), ("div", Fraction(3, 2)), ("numel",), ("fill", val(g, 'rat'))]
            for nr in range(0, S + 2):
                for nc in range(0, S + 2):
                    ops.append(("add", rmat(g, 'rat', nr, nc)))
                    if (nr, nc) == (r, c) or abs(nr - r) + abs(nc - c) == 1:
                        ops.append(("sub", rmat(g, 'rat', nr, nc)))
            # products with every inner dimension 0..S+1, conformable or not (shape guard of * on both sides)
            for k in range(0, S + 2):
                ops.append(("mul", rmat(g, 'rat', k, 1 + g.below(3))))
                ops.append(("mul_l", rmat(g, 'rat', 1 + g.below(3), k)))
            # compound assignments with a matrix operand: every neighbouring (mismatched) shape must be refused and
            # leave the matrix alone; the matching shape last (one history per operator)
            for kind in ("add_assign", "sub_assign", "add_assign_own", "sub_assign_own"):
                hs = [(kind, rmat(g, 'rat', nr, nc)) for (nr, nc) in
                      [(r + 1, c), (r, c + 1), (r - 1, c), (r, c - 1), (r + 1, c + 1), (c, r), (0, 0)]
                      if nr >= 0 and nc >= 0 and (nr, nc) != (r, c)]
                cases.append(mk('rat', m0, hs + [(kind, rmat(g, 'rat', r, c))], "shape-guards"))
            # each op runs against the same start: a state-changing op is its own one-step history; the value-returning
            # ones (and their out-of-range variants, which panic) leave the state alone and share one history per shape
            pure = [o for o in ops if o[0] in NONMUTATING]
            for o in ops:
                if o[0] not in NONMUTATING:
                    cases.append(mk('rat', m0, [o], "single-op", nontrivial=True))
            cases.append(mk('rat', m0, pure, "single-op-readers", nontrivial=True))
            for nr in range(0, S + 2):
                for nc in range(0, S + 2):
                    cases.append(mk('rat', m0, [("resize", nr, nc)], "single-op"))
    # (n) norms: every shape 0..5 x 0..5 (0..8 thorough), f64 entries; norm_p for a menu of exponents
    g = rng.fork("norms")
    for r in range(B + 1):
        for c in range(B + 1):
            for rep in range(2 if tier == "quick" else 3):
                m0 = (r, c, [norm_val(g) for _ in range(r * c)])
                cases.append(mk_norms(m0))
                if rep == 0 and r * c > 0:
                    cases.append(mk_norm_p(m0, [1.0, 1.5, 2.0, 3.0, 4.0][g.below(5)]))
    # a column-dominant and a row-dominant pattern on every non-square shape (norm_1 and norm_inf must differ)
    for r in range(1, 5):
        for c in range(1, 5):
            if r != c:
                cases.append(mk_norms((r, c, [float(1 + i + 10 * j) * (-1) ** (i + j) for i in range(r) for j in range(c)]), "norms-pattern"))
    # (p) every ordered pair of editing operations on 1x1, 2x2, 3x2, 2x3 (+ sampled triples in the thorough tier)
    cases += gen_op_pairs(rng, tier)
    # non-finite entries: tie only (f64::max ignores a NaN operand: the model says the same)
    nan, inf = float("nan"), float("inf")
    for m0 in [(1, 2, [nan, 2.0]), (2, 2, [1.0, -inf, 3.0, 4.0]), (2, 3, [1.0, nan, -2.0, inf, 0.5, -0.0]), (2, 1, [nan, nan])]:
        cases.append(mk_norms(m0, "norms-nonfinite"))
    # (s) f64 * matrix on a few shapes; identity matrices of every size 0..B+1
    g = rng.fork("misc")
    for (r, c) in [(0, 0), (0, 2), (1, 1), (2, 3), (3, 2), (4, 4)]:
        cases.append(mk_scale_l((r, c, [norm_val(g) for _ in range(r * c)]), val(g, 'f64')))
    cases.append(mk('rat', distinct_mat(1, 1), [("eye", n) for n in range(B + 2)], "eye-sizes"))
    cases += gen_special(rng, tier)
    # (c) random histories
    g = rng.fork("hist")
    nh = 400 if tier == "thorough" else 80
    for h in range(nh):
        elt = 'rat' if h % 4 != 3 else ('f64' if h % 8 == 3 else 'cplx')
        r, c = g.range(0, 5), g.range(0, 5)
        m0 = rmat(g, elt, r, c)
        ops = []
        n = g.range(5, 40)
        for _ in range(n):
            rr, cc = shape_after(m0, ops) if elt == 'rat' else (r, c)
            o = rand_op(g, elt, rr, cc, allow_bad=(elt == 'rat'))
            if elt != 'rat' and o[0] in ("resize", "delete_row", "transpose_in_place", "clear"):
                continue          # keep the shape fixed for the float tiers (no reference bookkeeping there)
            ops.append(o)
        cases.append(mk(elt, m0, ops, "history-" + elt))
    return cases

# ---- round four (package specA): special values of every scalar argument, both operands the same object, degenerate shapes in the
# op-pairs, special values in the float kinds (findings/special-values-specA.md)
SCALAR_CLASSES = [Fraction(0), Fraction(1), Fraction(-1), Fraction(2), Fraction(1, 2)]
EXTRA_PAIR_SHAPES = [(1, 3), (3, 1), (0, 2), (2, 0), (1, 2), (3, 3)]
CPLX_SCALARS = [1, -1, 1j, -1j, complex(0.6, 0.8), complex(-0.8, 0.6), 1 + 1j, 2, 0.5, 2j, -0.5j, 0]
F64_SCALARS = [0.0, -0.0, 1.0, -1.0, 2.0, 0.5, -2.0]

def rot(g, xs, k):
    if k >= len(xs): return list(xs)
    o = g.below(len(xs))
    return [xs[(o + i) % len(xs)] for i in range(k)]

def mk_ctor(elt, r, c, x, family="ctor"):
    ar, fl = ARITH[elt], FLAT[elt]
    term = ("(@fl_mat %s %s (@mat_new %s %d %d %s) ++ fl_nat %d ++ fl_nat 1 ++ @fl_mat %s %s (@mat_empty %s) ++ fl_nat 0 ++ fl_nat 1)"
            % (ar, fl, ar, r, c, coq_scalar(elt, x), r * c, ar, fl, ar))
    return Case(elt, "mat.ctor %d %d %s" % (r, c, tok_scalar(elt, x)), term, meta={"kind": "ctor", "r": r, "c": c, "x": x},
                family=family, nontrivial=(r * c > 0))

def gen_special(rng, tier):
    cases = []
    quick = tier == "quick"
    S = 3
    # (k) the constructors: Matrix::new(r, c, x) for every shape 0..4 x 0..4 and fill values 0, 1, -1, 2, 1/2, 7/3 (the library itself
    # only ever calls new(.., zero)); Matrix::empty()
    g = rng.fork("ctor")
    for r in range(5):
        for c in range(5):
            for x in (rot(g, SCALAR_CLASSES + [Fraction(7, 3)], 2) if quick else SCALAR_CLASSES + [Fraction(7, 3)]):
                cases.append(mk_ctor('rat', r, c, x))
            cases.append(mk_ctor('f64', r, c, g.choice([0.0, -0.0, 1.5, -2.0])))
    # (b') dimensions above 8 (a blocked / strided loop shows its remainder handling from the second block on): products, transposes,
    # row / column access, matrix * vector on shapes with a dimension in 9..20
    g = rng.fork("big-shapes")
    dims = [9, 12, 16, 17, 20]      # (a 33 x 33 rational history overflows coqc's stack under vm_compute: the model side sets the limit;
                                    #  the margin depends on `ulimit -s`, 8 MB here -- stated in ASSUMPTIONS)
    for t in range(6 if quick else 30):
        r, k, c = g.choice(dims), g.choice(dims + [1, 2]), g.choice(dims + [1, 3])
        cases.append(mk('rat', rmat(g, 'rat', r, k), [("mul", rmat(g, 'rat', k, c))], "big-shapes"))
    for t in range(3 if quick else 12):
        r, c = g.choice(dims), g.choice(dims)
        if t % 3 == 0: c = r
        m0 = rmat(g, 'rat', r, c)
        ops = [("transpose",), ("multiply", rvec(g, 'rat', c)), ("get_col", c - 1), ("get_row", r - 1), ("set_col", c - 1, rvec(g, 'rat', r)),
               ("swap_rows", 0, r - 1), ("transpose_in_place",), ("fill_band", g.range(-2, 2), val(g, 'rat')), ("delete_row", c // 2),
               ("resize", c + 1, r - 1), ("neg",), ("scale", Fraction(3, 2)), ("add_assign_s", Fraction(1)), ("fill_diag", Fraction(7))]
        cases.append(mk('rat', m0, ops, "big-shapes"))
        cases.append(mk_norms((r, c, [norm_val(g) for _ in range(r * c)]), "big-shapes-norms"))
    # (v) every operation with a scalar argument x the value classes 0, 1, -1, 2, 1/2 x every shape 0..3 x 0..3 (distinct non-zero
    # entries, so that a fast path returning the wrong shape, the operand itself or a stale buffer shows)
    g = rng.fork("scalar-classes")
    for r in range(S + 1):
        for c in range(S + 1):
            m0 = distinct_mat(r, c)
            xs = rot(g, SCALAR_CLASSES, 3) if quick else SCALAR_CLASSES
            readers = []
            for x in xs:
                readers += [("scale", x)] + ([("div", x)] if x != 0 else [])
                for name in ("mul_assign_s", "add_assign_s", "sub_assign_s", "fill", "fill_diag"):
                    cases.append(mk('rat', m0, [(name, x)], "scalar-classes"))
                if x != 0: cases.append(mk('rat', m0, [("div_assign_s", x)], "scalar-classes"))
                cases.append(mk('rat', m0, [("fill_tridiag", x, SCALAR_CLASSES[(SCALAR_CLASSES.index(x) + 1) % 5], x)], "scalar-classes"))
                if r > 0: cases.append(mk('rat', m0, [("fill_row", g.below(r), x)], "scalar-classes"))
                if c > 0: cases.append(mk('rat', m0, [("fill_col", g.below(c), x)], "scalar-classes"))
                cases.append(mk('rat', m0, [("fill_band", g.range(-max(r - 1, 0), max(c - 1, 0)), x)], "scalar-classes"))
            # operands of special structure: the zero matrix, the matrix itself (m + m, m - m as separate objects), the identity
            zero = (r, c, [Fraction(0)] * (r * c))
            readers += [("add", zero), ("sub", zero), ("add", m0), ("sub", m0), ("multiply", [Fraction(0)] * c), ("multiply", [Fraction(1)] * c)]
            if c > 0: readers += [("multiply", [Fraction(1) if j == c - 1 else Fraction(0) for j in range(c)])]
            eye_c = (c, c, [Fraction(1) if i == j else Fraction(0) for i in range(c) for j in range(c)])
            eye_r = (r, r, [Fraction(1) if i == j else Fraction(0) for i in range(r) for j in range(r)])
            readers += [("mul", eye_c), ("mul_l", eye_r), ("mul", (c, 2, [Fraction(0)] * (2 * c)))]
            # unit-triangular and permutation operands (unit diagonal / a single 1 per row, but not the identity)
            readers += [("mul", (c, c, [Fraction(1) if i == j else (Fraction(2 + i + j) if j > i else Fraction(0)) for i in range(c) for j in range(c)])),
                        ("mul_l", (r, r, [Fraction(1) if i == j else (Fraction(-1 - i - j) if j < i else Fraction(0)) for i in range(r) for j in range(r)])),
                        ("mul", (c, c, [Fraction(1) if j == (i + 1) % max(c, 1) else Fraction(0) for i in range(c) for j in range(c)]))]
            # both operands the SAME object
            readers += [("add_self", m0), ("sub_self", m0), ("mul_self", m0)]
            cases.append(mk('rat', m0, readers, "special-operands"))
            for name in ("add_assign", "sub_assign", "add_assign_own", "sub_assign_own"):
                cases.append(mk('rat', m0, [(name, zero), (name, m0)], "special-operands"))
    # the same-object forms after an editing step (the operand is the current state)
    g = rng.fork("same-object-history")
    for t in range(12 if quick else 100):
        r, c = g.range(0, 4), g.range(0, 4)
        if t % 2 == 0: c = r
        m0 = rmat(g, 'rat', r, c)
        ops = []
        for _ in range(g.range(1, 3)):
            rr, cc = shape_after(m0, ops)
            ops.append(EDIT_OPS[g.below(len(EDIT_OPS))][1](g, rr, cc))
            cur = state_after(m0, ops).tup()
            ops.append((g.choice(["add_self", "sub_self", "mul_self", "mul_self"]), cur))
        cases.append(mk('rat', m0, ops, "same-object-history"))
    # (p') op-pairs on the degenerate shapes: single row, single column, empty with a non-zero dimension, 3x3
    g = rng.fork("op-pairs-extra")
    for (r, c) in (rot(g, EXTRA_PAIR_SHAPES, 1) if quick else EXTRA_PAIR_SHAPES):
        m0 = distinct_mat(r, c)
        for a in EDIT_OPS:
            for b in EDIT_OPS:
                cases.append(mk('rat', m0, op_chain(g, m0, [a, b]), "op-pairs-%dx%d" % (r, c)))
    # (f) f64 * matrix: scalar classes 0, -0.0, 1, -1, 2, 1/2 on empty / single-row / single-column / wide / tall shapes
    g = rng.fork("scale_l-classes")
    for (r, c) in [(0, 0), (0, 2), (2, 0), (1, 1), (1, 3), (3, 1), (2, 3), (3, 2)]:
        for x in (rot(g, F64_SCALARS, 3) if quick else F64_SCALARS):
            cases.append(mk_scale_l((r, c, [norm_val(g) for _ in range(r * c)]), x, "scale_l-classes"))
    # (z) the float kinds with special values: Complex<f64> scalars on the axes / of unit modulus / with |re| = |im|, f64 scalars
    # 0, -0.0, +-1, 2, 1/2; entries drawn from the same menus.  Judged by the numpy list-of-rows reference (tolerance) and tied bitwise.
    g = rng.fork("float-classes")
    for elt, menu in (('cplx', CPLX_SCALARS), ('f64', F64_SCALARS)):
        conv = complex if elt == 'cplx' else float
        for (r, c) in [(1, 1), (2, 2), (2, 3), (3, 1)]:
            m0 = (r, c, [conv(menu[g.below(len(menu))]) if g.chance(1, 2) else val(g, elt) for _ in range(r * c)])
            for x in (rot(g, menu, 4) if quick else menu):
                x = conv(x)
                ops = [("scale", x), ("mul_assign_s", x), ("add_assign_s", x), ("neg",), ("sub_assign_s", x), ("fill_diag", x),
                       ("add", (r, c, [conv(menu[g.below(len(menu))]) for _ in range(r * c)])), ("multiply", [conv(menu[g.below(len(menu))]) for _ in range(c)]),
                       ("mul", (c, 2, [conv(menu[g.below(len(menu))]) for _ in range(2 * c)]))]
                if x != 0: ops = [("div", x), ("div_assign_s", x)] + ops
                cases.append(mk(elt, m0, ops, "float-classes-" + elt))
    # (n') norms on special patterns: all entries equal (ties), one non-zero entry in a corner, entries +-x of equal magnitude,
    # single row / single column; norm_p at p = 1 and p = 2 (entrywise 1-norm and Frobenius) and p = 1/2 on each
    g = rng.fork("norm-classes")
    shapes = [(1, 1), (1, 4), (4, 1), (2, 3), (3, 2), (3, 3)]
    for (r, c) in (rot(g, shapes, 3) if quick else shapes):
        pats = [[-2.5] * (r * c), [0.0] * (r * c - 1) + [-3.0], [-3.0] + [0.0] * (r * c - 1),
                [(1.5 if (i + j) % 2 == 0 else -1.5) for i in range(r) for j in range(c)], [-0.0] * (r * c)]
        for vals in pats:
            m0 = (r, c, vals)
            cases.append(mk_norms(m0, "norm-classes"))
            for pp in (1.0, 2.0, 0.5):
                cases.append(mk_norm_p(m0, pp, "norm-classes"))
    return cases

def case_from_json(j):
    if j.get("meta", {}).get("kind") == "norms":
        m0 = j["meta"]["m0"]; return mk_norms((m0[0], m0[1], [float(x) for x in m0[2]]), "corpus")
    if j.get("meta", {}).get("kind") == "ctor":
        mm = j["meta"]; return mk_ctor(j["elt"], mm["r"], mm["c"], Fraction(mm["x"]) if j["elt"] == 'rat' else float(mm["x"]), "corpus")
    if j.get("meta", {}).get("kind") == "scale_l":
        m0 = j["meta"]["m0"]; return mk_scale_l((m0[0], m0[1], [float(x) for x in m0[2]]), float(j["meta"]["x"]), "corpus")
    if j.get("meta", {}).get("kind") == "norm_p":
        m0 = j["meta"]["m0"]; return mk_norm_p((m0[0], m0[1], [float(x) for x in m0[2]]), float(j["meta"]["p"]), "corpus")
    def conv(x):
        if isinstance(x, str) and "/" in x: return Fraction(x)
        if isinstance(x, list): return [conv(y) for y in x]
        return x
    elt = j["elt"]
    m0 = j["meta"]["m0"]; ops = j["meta"]["ops"]
    if elt == 'rat':
        m0 = (m0[0], m0[1], [Fraction(x) for x in m0[2]])
        def cop(o):
            out = [o[0]]
            kinds = OPS[o[0]][1]
            for k, a in zip(kinds, o[1:]):
                if k == 's': out.append(Fraction(a))
                elif k == 'v': out.append([Fraction(x) for x in a])
                elif k in 'mM': out.append((a[0], a[1], [Fraction(x) for x in a[2]]))
                else: out.append(a)
            return tuple(out)
        ops = [cop(o) for o in ops]
    else:
        m0 = tuple(m0); ops = [tuple(o) for o in ops]
    return mk(elt, m0, ops, "corpus")

def extra_coverage():
    # the float histories the list-of-rows reference judged, and those it left to the model tie alone because the largest
    # magnitude of the history exceeds 1e150 (matlib.streams_close_float)
    return {"float_histories_judged_by_reference": FLOAT_JUDGED["judged"],
            "float_histories_not_judged_scale_above_1e150": FLOAT_JUDGED["not_judged_scale_above_1e150"]}

def oracle(case, items):
    if case.meta.get("kind") in ("norms", "norm_p"):
        return norms_oracle(case, items)
    if case.meta.get("kind") == "ctor":
        r, c, x = case.meta["r"], case.meta["c"], case.meta["x"]
        exp = [('i', r), ('i', c)] + ref_items_scalar(case.elt, x) * (r * c) + [('i', r * c), ('i', 1), ('i', 0), ('i', 0), ('i', 0), ('i', 1)]
        if items != exp:
            return "Matrix::new(%d, %d, %r) / Matrix::empty() differ from their definitions: got %r, expected %r" % (r, c, x, items[:14], exp[:14])
        return None
    if case.meta.get("kind") == "scale_l":
        r, c, vals = case.meta["m0"]; x = case.meta["x"]
        exp = ([('i', r), ('i', c)] + [('f', f64_bits(v * x)) for v in vals]) * 2
        if items != exp:
            return "f64 * matrix / matrix * f64 differ from the entrywise products: got %r, expected %r" % (items[:12], exp[:12])
        return None
    if case.elt != 'rat':
        # f64 / Complex<f64>: the same list-of-rows reference evaluated with numpy scalars, compared with a tolerance relative to
        # the largest magnitude of the history (round four: the float kinds had no reference of their own, only the model tie)
        d = streams_close_float(case.elt, ref_hist_float(case.elt, case.meta["m0"], case.meta["ops"]), items)
        if d:
            return "dense %s matrix history disagrees with the list-of-rows reference: %s" % (case.elt, d)
        return None
    exp = ref_hist('rat', case.meta["m0"], case.meta["ops"], eq=True)
    d = streams_equal_exact(exp, items)
    if d:
        return "dense matrix history disagrees with the list-of-rows reference: " + d
    return None
