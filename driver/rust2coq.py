# driver/rust2coq.py -- a Rust-subset -> Gallina translator for the LOOP code of the crate's numeric kernels.
#
#   part 1: lexer + recursive-descent parser for the subset (fn items inside impl blocks, let / let mut, assignment and
#           compound assignment, for over ranges (.rev(), ..=, isize ranges), while, if/else, match on Ok/Err, indexing,
#           method calls, panic!, return / continue (also from inside loops), the ? operator, casts, tuples, struct
#           literals, closures in .iter().map(..).collect()).  Function bodies are parsed lazily, so a construct outside
#           the subset only breaks the functions that contain it.
#   part 2: Gallina term AST with the two shape-preserving smart constructors (monad right identity, pair eta).
#   part 3: the translator proper: state-passing style over {A : Arith}.
#
# Semantics the translation commits to (the trusted part; the tables of driver/r2c_table.py name the model functions):
#   * immutable locals are `let`; every assigned variable (locals, `&mut` parameters, `self` of a `&mut self` method) is
#     re-bound under its own name; the variables a loop body / the branches of a falling-through `if` assign are threaded
#     as a tuple, in declaration order (self, parameters, locals);
#   * `v[i]` / `m[(i,j)]` reads are rd / mget (Panic Index), writes upd / mset; `a - b` on usize is usub (Panic Underflow,
#     debug profile); `/` on elements is the fallible div of the Arith; `panic!` is Panic Guard; `.unwrap()` Panic Unwrap;
#     usize / isize `+ *` are unbounded nat / Z (as in the hand-written models); `i as usize` wraps (isize_as_usize);
#   * evaluation order: operands left to right; `place = e` evaluates e, then the index expressions of the place, then
#     writes; `place op= e` on element types (a trait call in generic code) reads the place first, then e, then writes;
#     on primitive (usize) elements e first; `a && b` / `a || b` short-circuit (monadic when b can fail); range bounds and
#     loop bounds are evaluated once, before the loop; method calls: receiver, then arguments, inner calls first;
#   * `for` = for_ / for_rev (Base/Panic.v) / for_z (isize range) / for_ret (a `return` inside the loop);
#     `while` = while_ret with the fuel bound and the out-of-fuel value of the function's table entry;
#   * `x?` on an Option/Result propagates the value of TRY_ERR (a poison `Panic` where the error has no counterpart in the
#     model: the equality lemma then has to show the case unreachable).
#
#
# Round two (package r2c2) added, with the same rule (outside the subset = TieBroken):
#   * `let mut x: T;` / `let mut x;` (declared, assigned later): no binder at the declaration; a variable that is still
#     unassigned at a loop head / an `if` join is local to the body resp. branch (Rust's definite-assignment analysis
#     guarantees it is not read before it is assigned, nor after the loop); a read of a possibly unassigned variable is refused;
#   * `for x in v.drain(..)` / `for x in v` (for_in over the elements, v empty resp. moved afterwards), `&v[lo..hi]` (the
#     call table's checked sub-slice), n-tuple projections `.k`, `v.sort_by_key(|t| t.k)` (call table, by the projection),
#     `v.iter().position(|x| *x == value)` (find_first), `match <option> { Some(x) => .., None => .. }` in tail position;
#   * `&dyn Fn(X, ..) -> Y` parameters as function arguments X -> .. -> res Y (a closure may panic); calls of them are fallible;
#   * Result<A, B> mapped to an enumeration of the model (`result_enum`: Ok / Err constructors), functions and paths with
#     `&mut` arguments (`out` of a PATHS entry; `&mut v[i]` is read before and written back after the call), operands a
#     callee consumes without the model returning them (`kills`: any later read is refused);
#   * a second scalar sort ("celem": Complex<f64> over its own Arith) with the table's mixed operators, spec-level operator /
#     field / constant tables, float literals as named parameters of the model (`literals`, `lit_nat`, `arrays`), compile-time
#     `const` items (substituted), usize `/` `%` by a variable (udiv / umod: Panic DivZero);
#   * a[k][v] = x (row read, element written, row written back), `std::thread::scope(|s| BODY)` = BODY,
#     `s.spawn(|| BLOCK)` = the computation of BLOCK as a value (res T), `h.join().unwrap()` = join_unwrap h.
# Anything outside the subset raises TieBroken naming the construct -- never a silent approximation.
#
# Round four (package robust): CANONICALISATIONS -- source shapes that are equal by the semantics above are given the SAME Gallina
# term, so that a behaviour-preserving rewrite of the source does not disturb the equality lemmas (findings/harmless-rewrites.md;
# corpus and negative set under tools/rewrites/).  Each is an identity of the semantics the translation already commits to; none
# accepts a construct the translator refused before by ignoring it, and a loop that does not meet the side conditions word for
# word falls back to the previous translation (the table-driven `while`, which has no entry for it and therefore refuses).
#   (C1) counter `while` = `for`.  With i : usize, H an expression that does not mention i:
#           while i < H { BODY; i += 1; }   =   for i' in i..H { BODY[i'] };  i := max(i, H)
#           while i < H { i += 1; BODY }    =   for k in i..H { let i = k + 1; BODY };  i := max(i, H)
#           while i > L { i -= 1; BODY }    =   for i' in (L..i).rev() { BODY[i'] };  i := min(i, L)
#        (`<=` as the inclusive range, `i != 0` as `i > 0`, the bound on either side of the comparison; `i = i + 1` as `i += 1`).
#        Side conditions, all checked: BODY does not assign i (no assignment to it or to a place in it, no `&mut i`, no re-declaration)
#        and, in the first form, contains no `continue` of this loop (it would skip the increment); H (resp. L) is INVARIANT in BODY:
#        it reads no variable BODY assigns -- except the length of a list / the dimensions of a matrix that BODY changes only by
#        writing single elements in place (upd keeps the length: Base/Panic.v upd_list_length; mset keeps rows and cols) -- and
#        evaluating it assigns nothing.  Argument: the `while` evaluates H at the head of every pass, the first time exactly where
#        the `for` evaluates its bound (immediately, nothing in between); if that evaluation panics both panic there; otherwise by
#        invariance every later evaluation gives the same value h, so the passes are i0, i0+1, .., h-1 (none if i0 >= h) with the
#        counter equal to the loop variable in BODY, and the counter ends as max(i0, h).  Down-counting: passes i0-1, .., L (none if
#        i0 <= L), the checked subtraction `i -= 1` cannot underflow because i > L >= 0 was just tested.  usize `+ 1` is unbounded
#        in the model as everywhere else.  The final value is bound by a `let` after the loop unless the counter is dead: declared by
#        a `let` of the same block and not mentioned after the loop (then its scope ends with the block).  A `while` the table has
#        an entry for is never canonicalised (the table wins), and canonicalised loops do not take part in the table's numbering.
#   (C2) for K in 0..N { let I = N - 1 - K; BODY }  =  for I in (0..N).rev() { BODY }   when K does not occur in BODY, BODY does not
#        assign I, N mentions neither and is invariant in BODY (as in C1): in pass K < N both checked subtractions succeed (N >= 1,
#        K <= N - 1) and I = N-1, .., 0 in this order; N is evaluated once by the range in both versions.
#   (C3) conditionals in canonical orientation: an `if` WITH a non-empty else arm whose condition is `!c` is the `if` on c with the
#        arms exchanged; and when both operands are usize / isize (or bool for `!=`), `a != b`, `a >= b`, `a > b` become `a == b`,
#        `a < b`, `a <= b` with the arms exchanged.  These are total orders with decidable equality; NEVER applied to element
#        (floating-point) operands, where NaN makes `a >= b` differ from `!(a < b)`.  An `if` without else (every guard) is untouched.
#   (C4) a value `if` in tail position whose arms are blocks: each arm is translated with the continuation of the enclosing block,
#        which is what `if c { return a; } rest` already produced for the first arm: `if c { a } else { rest }` is the same term.
#   (C5) an empty vector (`vec![]`, `Vec::new()`, `Vector::empty()`) whose element type the table does not give by NAME is typed
#        by the first `.push(x)` on it (rename-proof); a wrong guess cannot go unnoticed: the Gallina file would not type-check.
#   (C6) a call `x.helper(args);` (or `Self::helper(args);` of an associated function) in statement position of a method that is not in the call table but is defined in the SAME impl
#        block, returns (), has no `return`, and whose `&mut` arguments are all `&mut <variable>`, is the block
#        { let p1 = arg1; ..; BODY[self := x; q := the variable passed for the `&mut` parameter q] } with every binder of BODY renamed
#        apart (no capture): receiver and arguments are evaluated left to right before the body, `&mut` parameters are exclusive
#        borrows of the caller's variables (no aliasing in safe Rust), shared borrows cannot be mutated during the call, so copying
#        them is unobservable.  Nesting depth at most 3 (recursion is refused).  A helper that is in the table keeps its table entry.
#   (C7) negation normal form of boolean expressions: `!(x && y)` = `!x || !y`, `!(x || y)` = `!x && !y` (the same operands are
#        evaluated in the same order under short-circuiting), `!!x` = x, and `!(a < b)` = `a >= b` etc. on usize / isize / bool
#        operands only (never on elements).
#   (C8) the ORDER of the state tuple of a loop / of a falling-through `if`.  The translation threads the assigned variables in
#        declaration order, so moving a declaration (to the point of first use, past another one) permuted the tuple.  The
#        canonical order -- the order of the FIRST ASSIGNMENT inside the construct -- does not depend on declarations or names;
#        r2c_table.STATE_ORDERS pins, per construct of the pristine source (loops and ifs numbered separately in source order),
#        the permutation from the canonical order to the declaration order (generated by `translate_src.py --pin-state-orders`;
#        by construction the pristine source translates to the same Gallina with and without the table).  Any order is a correct
#        translation: one and the same list is used for the initial state, the pattern of the body and its result; a stale or
#        wrong entry can only change the SHAPE (the equality lemma then fails), never the meaning.
#   Proof side (Proofs/SrcEqBase.v): src_eq also commutes two index-checked reads (bind_swap; both can only fail with Panic Index)
#        when the second step of one side is the first step of the other -- `let t = a[i] * b[j]; x[k] -= t` <-> `x[k] = x[k] - a[i] * b[j]`.
#   The loop identities C1 / C2, the flip laws of C3 / C7 and the shape facts used by the invariance test of C1 are THEOREMS:
#        Proofs/SrcEqCanon.v (pinned for C11: counter_up_while_is_for_ret, counter_up_while_is_for, counter_up1_while_is_for,
#        counter_down_while_is_for_rev, countdown_for_is_for_rev, conditional_orientation, negation_normal_form, element_writes_keep_shape).
#   (C9) loops over the elements of a list are index loops (the rewrite clippy's needless_range_loop suggests, backwards):
#        `for x in E.iter() | E.iter_mut() | &E | &mut E`, `for (i, x) in E.iter().enumerate()`, `for (a, b) in E.iter().zip(F.iter())`
#        become `for k in 0..E.len()` (resp. `0..min(E.len(), F.len())`) with the element variables replaced by E[k] (F[k]); see iter_for.
#        The element variable is a reference into E; while the iterator lives the borrow rules exclude every other access that
#        could change E, element writes keep the length, so E[k] with k < E.len() is in range and is the element the iterator yields.
# Not canonicalised on purpose (they remain noise, see the findings file): statement order, `while i != H`, hoisting / inlining of
# FALLIBLE reads and calls (they change the evaluation order or the number of possible panics, which only a proof can discharge),
# changes of the loop structure (re-indexing, flattening, rolling locals instead of a table), iterators over slices / other
# adaptors (skip, rev after iter, chunks), tuple patterns over drain(..), `match` on integers.
import re
try:
    from translate import TieBroken
except Exception:                                      # stand-alone use (unit tests)
    class TieBroken(Exception):
        pass

# ====================================================================================== part 1: lexer
_PUNCT = ["..=", "::", "..", "->", "=>", "==", "!=", "<=", ">=", "&&", "||", "+=", "-=", "*=", "/=", "%=",
          "+", "-", "*", "/", "%", "=", "<", ">", "!", "&", "|", ".", ",", ";", ":", "(", ")", "[", "]", "{", "}", "#", "?", "@", "^", "$"]

class Tok:
    __slots__ = ("k", "v", "pos")
    def __init__(self, k, v, pos): self.k, self.v, self.pos = k, v, pos
    def __repr__(self): return "%s:%r" % (self.k, self.v)

def lex(src):
    toks, i, n = [], 0, len(src)
    while i < n:
        c = src[i]
        if c.isspace(): i += 1; continue
        if src.startswith("//", i):
            j = src.find("\n", i); i = n if j < 0 else j; continue
        if src.startswith("/*", i):
            j = src.find("*/", i + 2); i = n if j < 0 else j + 2; continue
        if c == '"':
            j = i + 1
            while j < n and src[j] != '"': j += 2 if src[j] == "\\" else 1
            toks.append(Tok("str", src[i + 1:j], i)); i = j + 1; continue
        if c == "'":
            m = re.match(r"'(?:\\.|[^'\\])'", src[i:])
            if m: toks.append(Tok("char", m.group(0), i)); i += m.end(); continue
            m = re.match(r"'[A-Za-z_][A-Za-z0-9_]*", src[i:])
            if m: toks.append(Tok("life", m.group(0), i)); i += m.end(); continue
            raise TieBroken("rust2coq: lexer: stray quote at offset %d" % i)
        m = re.match(r"[0-9][0-9_]*(?:\.[0-9][0-9_]*)?(?:[eE][+-]?[0-9]+)?(?:usize|isize|u32|i32|u64|i64|f64|f32)?", src[i:])
        if m and c.isdigit():
            txt = m.group(0)
            # `0..n` : the dot belongs to the range operator
            m2 = re.match(r"[0-9][0-9_]*(?=\.\.)", src[i:])
            if m2: txt = m2.group(0)
            elif re.match(r"[0-9][0-9_]*\.(?![0-9])", src[i:]) and not re.match(r"[0-9][0-9_]*\.[A-Za-z_]", src[i:]):
                txt = re.match(r"[0-9][0-9_]*\.", src[i:]).group(0)         # `1.` float literal
            toks.append(Tok("num", txt, i)); i += len(txt); continue
        m = re.match(r"[A-Za-z_][A-Za-z0-9_]*", src[i:])
        if m:
            toks.append(Tok("id", m.group(0), i)); i += m.end(); continue
        for p in _PUNCT:
            if src.startswith(p, i):
                toks.append(Tok("p", p, i)); i += len(p); break
        else:
            raise TieBroken("rust2coq: lexer: unexpected character %r at offset %d" % (c, i))
    toks.append(Tok("eof", None, n))
    return toks

# ====================================================================================== part 1: parser
# AST nodes are tuples (kind, ...):
#  expressions: ('num', txt) ('var', name) ('path', [segments]) ('bin', op, a, b) ('un', op, a) ('cast', e, ty)
#     ('index', e, idx) ('field', e, name) ('mcall', recv, name, args) ('call', fn_expr, args) ('tuple', [..])
#     ('range', lo, hi, inclusive) ('macro', name, toks_text, args) ('if', cond, then_block, else_block|None)
#     ('match', scrut, arms) ('block', block) ('struct', name, [(field, expr)]) ('closure', [params], body) ('try', e)
#  statements: ('let', pat, mut, ty, expr|None) ('expr', e, has_semi) ('assign', op, place, e) ('for', pat, iter, block)
#     ('while', cond, block) ('return', e|None) ('continue',) ('break',) ('const', name, ty, e)
#  block: ('blk', [stmts], tail_expr|None)
class Parser:
    def __init__(self, toks, what=""):
        self.t, self.i, self.what = toks, 0, what
    def peek(self, k=0): return self.t[min(self.i + k, len(self.t) - 1)]
    def at(self, v, k=0):
        t = self.peek(k); return t.k in ("p", "id") and t.v == v
    def eat(self, v=None):
        t = self.peek()
        if v is not None and not (t.k in ("p", "id") and t.v == v):
            raise TieBroken("rust2coq: %s: parse error: expected %r, found %r" % (self.what, v, t.v))
        self.i += 1; return t
    def err(self, msg):
        raise TieBroken("rust2coq: %s: %s (at token %r)" % (self.what, msg, self.peek().v))

    # ---- types: kept as normalised strings
    def ty(self, stop=(",", ")", "=", ";", "{", "where")):
        out, depth = [], 0
        while True:
            t = self.peek()
            if t.k == "eof": break
            if depth == 0 and t.k in ("p", "id") and t.v in stop: break
            if t.k == "p" and t.v in ("<", "(", "["): depth += 1
            if t.k == "p" and t.v in (">", ")", "]"):
                if depth == 0: break
                depth -= 1
            if t.k == "p" and t.v == "->" : pass
            out.append(t.v); self.i += 1
        return "".join(x if x not in ("mut", "dyn", "impl") else x + " " for x in out)

    def skip_generics(self):
        if self.at("<"):
            depth = 0
            while True:
                t = self.eat()
                if t.k == "p" and t.v == "<": depth += 1
                elif t.k == "p" and t.v == ">":
                    depth -= 1
                    if depth == 0: return
                elif t.k == "eof": self.err("unbalanced generics")

    # ---- items
    def items(self):
        """top level of a file: returns list of ('impl', header_text, [fn items]) and ('fn', ...)"""
        out = []
        while self.peek().k != "eof":
            if self.at("#"):
                self.eat(); self.skip_balanced("[", "]"); continue
            if self.at("impl"):
                start = self.i; self.eat()
                hdr = []
                while not self.at("{"):
                    if self.peek().k == "eof": self.err("impl without body")
                    hdr.append(self.eat().v)
                header = " ".join(hdr)
                self.eat("{")
                fns = []
                while not self.at("}"):
                    if self.at("#"): self.eat(); self.skip_balanced("[", "]"); continue
                    if self.at("type"):
                        while not self.at(";"): self.eat()
                        self.eat(";"); continue
                    if self.at("const") and not self.at("fn", 1):
                        while not self.at(";"): self.eat()
                        self.eat(";"); continue
                    fns.append(self.fn_item())
                self.eat("}")
                out.append(("impl", header, fns))
            elif self.at("fn") or (self.at("pub") and (self.at("fn", 1) or self.at("const", 1) and self.at("fn", 2))):
                out.append(self.fn_item())
            else:
                # use / mod / struct / type / const / trait ... : skip to the end of the item
                self.skip_item()
        return out

    def skip_balanced(self, o, c):
        self.eat(o); depth = 1
        while depth:
            t = self.eat()
            if t.k == "eof": self.err("unbalanced %s%s" % (o, c))
            if t.k == "p" and t.v == o: depth += 1
            elif t.k == "p" and t.v == c: depth -= 1

    def skip_item(self):
        while True:
            t = self.peek()
            if t.k == "eof": return
            if t.k == "p" and t.v == ";": self.eat(); return
            if t.k == "p" and t.v == "{": self.skip_balanced("{", "}"); return
            self.eat()

    def fn_item(self):
        while self.at("pub") or self.at("const") or self.at("unsafe"):
            self.eat()
            if self.at("("): self.skip_balanced("(", ")")
        self.eat("fn")
        name = self.eat().v
        self.skip_generics()
        self.eat("(")
        params = []
        while not self.at(")"):
            # self forms
            j = self.i; mods = []
            while self.at("&") or self.at("mut") or self.peek().k == "life":
                mods.append(self.eat().v)
            if self.at("self"):
                self.eat()
                params.append(("self", "".join(m if m != "mut" else "mut " for m in mods if not m.startswith("'"))))
                if self.at(":"): self.eat(); self.ty()
            else:
                self.i = j
                mut = False
                if self.at("mut"): self.eat(); mut = True
                pname = self.eat().v
                self.eat(":")
                pty = self.ty()
                params.append((pname, pty, mut))
            if self.at(","): self.eat()
        self.eat(")")
        ret = None
        if self.at("->"):
            self.eat(); ret = self.ty(stop=("{", "where"))
        if self.at("where"):
            while not self.at("{"): self.eat()
        start = self.i
        self.skip_balanced("{", "}")
        return ("fn", name, params, ret, ("lazy", self.t[start:self.i] + [Tok("eof", None, -1)]))

    # ---- blocks and statements
    def block(self):
        self.eat("{")
        stmts, tail = [], None
        while not self.at("}"):
            if self.at(";"): self.eat(); continue
            if self.at("#"): self.eat(); self.skip_balanced("[", "]"); continue
            if self.at("let"):
                self.eat()
                pat = self.pattern()
                ty = None
                if self.at(":"): self.eat(); ty = self.ty(stop=("=", ";"))
                e = None
                if self.at("="): self.eat(); e = self.expr()
                self.eat(";")
                stmts.append(("let", pat, ty, e)); continue
            if self.at("const"):
                self.eat(); name = self.eat().v; self.eat(":"); ty = self.ty(stop=("=",)); self.eat("="); e = self.expr(); self.eat(";")
                stmts.append(("const", name, ty, e)); continue
            if self.at("for"):
                self.eat(); pat = self.pattern(); self.eat("in"); it = self.expr(nostruct=True); body = self.block()
                stmts.append(("for", pat, it, body)); continue
            if self.at("while"):
                self.eat(); c = self.expr(nostruct=True); body = self.block()
                stmts.append(("while", c, body)); continue
            if self.at("loop"):
                self.err("`loop` is outside the translated subset")
            if self.at("return"):
                self.eat(); e = None
                if not self.at(";") and not self.at("}"): e = self.expr()
                if self.at(";"): self.eat()
                stmts.append(("return", e)); continue
            if self.at("continue"):
                self.eat()
                if self.at(";"): self.eat()
                stmts.append(("continue",)); continue
            if self.at("break"):
                self.eat()
                if self.at(";"): self.eat()
                stmts.append(("break",)); continue
            if self.at("if") or self.at("match"):             # block-like expression statement
                e = self.primary(False)
                if self.at("}"): tail = e; break
                if self.at(";"): self.eat()
                stmts.append(("expr", e, True)); continue
            e = self.expr()
            if self.peek().k == "p" and self.peek().v in ("=", "+=", "-=", "*=", "/=", "%="):
                op = self.eat().v; rhs = self.expr()
                if self.at(";"): self.eat()
                elif not self.at("}"): self.err("expected `;` after assignment")
                stmts.append(("assign", op, e, rhs)); continue
            if self.at(";"):
                self.eat(); stmts.append(("expr", e, True)); continue
            if self.at("}"):
                tail = e; break
            if e[0] in ("if", "match", "block"):            # block-like expression statement without `;`
                stmts.append(("expr", e, False)); continue
            self.err("expected `;` or `}` after expression")
        self.eat("}")
        return ("blk", stmts, tail)

    def pattern(self):
        if self.at("("):
            self.eat(); ps = []
            while not self.at(")"):
                ps.append(self.pattern())
                if self.at(","): self.eat()
            self.eat(")")
            return ("ptuple", ps)
        mut = False
        if self.at("mut"): self.eat(); mut = True
        if self.at("&"): self.eat()
        t = self.eat()
        if t.k != "id": self.err("unsupported pattern")
        if self.at("("):                                   # Ok( d ) / Err( _ ) / Some( x )
            self.eat(); inner = self.pattern(); self.eat(")")
            return ("pctor", t.v, inner)
        return ("pvar", t.v, mut)

    # ---- expressions
    def expr(self, nostruct=False):
        return self.range_(nostruct)
    def range_(self, ns):
        l = self.or_(ns)
        if self.at("..") or self.at("..="):
            inc = self.eat().v == "..="
            r = None if (self.peek().k == "p" and self.peek().v in ("]", ")", ",", ";", "}", "{")) else self.or_(ns)
            return ("range", l, r, inc)
        return l
    def or_(self, ns):
        l = self.and_(ns)
        while self.at("||"): self.eat(); l = ("bin", "||", l, self.and_(ns))
        return l
    def and_(self, ns):
        l = self.cmp(ns)
        while self.at("&&"): self.eat(); l = ("bin", "&&", l, self.cmp(ns))
        return l
    def cmp(self, ns):
        l = self.add(ns)
        if self.peek().k == "p" and self.peek().v in ("==", "!=", "<", ">", "<=", ">="):
            op = self.eat().v; return ("bin", op, l, self.add(ns))
        return l
    def add(self, ns):
        l = self.mul(ns)
        while self.peek().k == "p" and self.peek().v in ("+", "-"):
            op = self.eat().v; l = ("bin", op, l, self.mul(ns))
        return l
    def mul(self, ns):
        l = self.cast(ns)
        while self.peek().k == "p" and self.peek().v in ("*", "/", "%"):
            op = self.eat().v; l = ("bin", op, l, self.cast(ns))
        return l
    def cast(self, ns):
        e = self.unary(ns)
        while self.at("as"):
            self.eat(); t = self.eat().v
            while self.at("::"): self.eat(); t += "::" + self.eat().v
            e = ("cast", e, t)
        return e
    def unary(self, ns):
        if self.at("-"): self.eat(); return ("un", "-", self.unary(ns))
        if self.at("!"): self.eat(); return ("un", "!", self.unary(ns))
        if self.at("*"): self.eat(); return ("un", "*", self.unary(ns))
        if self.at("&"):
            self.eat()
            if self.at("mut"): self.eat(); return ("un", "&mut", self.unary(ns))
            return ("un", "&", self.unary(ns))
        if self.at("&&"):
            self.eat(); return ("un", "&", ("un", "&", self.unary(ns)))
        return self.postfix(ns)
    def args(self, close=")"):
        out = []
        while not self.at(close):
            out.append(self.expr())
            if self.at(","): self.eat()
        self.eat(close)
        return out
    def postfix(self, ns):
        e = self.primary(ns)
        while True:
            if self.at("."):
                self.eat(); t = self.eat()
                if t.k == "num":
                    e = ("field", e, t.v); continue
                if t.k != "id": self.err("unexpected token after `.`")
                if self.at("::"):                          # .collect::<Vec<_>>()
                    self.eat(); self.skip_generics()
                if self.at("("):
                    self.eat(); e = ("mcall", e, t.v, self.args())
                else:
                    e = ("field", e, t.v)
            elif self.at("["):
                self.eat(); idx = self.expr(); self.eat("]"); e = ("index", e, idx)
            elif self.at("("):
                self.eat(); e = ("call", e, self.args())
            elif self.at("?"):
                self.eat(); e = ("try", e)
            else:
                return e
    def primary(self, ns):
        t = self.peek()
        if t.k == "num": self.eat(); return ("num", t.v)
        if t.k == "str": self.eat(); return ("str", t.v)
        if t.k == "p" and t.v == "(":
            self.eat()
            if self.at(")"): self.eat(); return ("tuple", [])
            e = self.expr()
            if self.at(","):
                es = [e]
                while self.at(","):
                    self.eat()
                    if self.at(")"): break
                    es.append(self.expr())
                self.eat(")"); return ("tuple", es)
            self.eat(")"); return ("paren", e)
        if t.k == "p" and t.v == "{":
            return ("block", self.block())
        if t.k == "p" and t.v == "[":
            self.eat(); return ("array", self.args("]"))
        if t.k == "p" and t.v in ("..", "..="):
            inc = self.eat().v == "..="
            hi = None if (self.peek().k == "p" and self.peek().v in ("]", ")", ",", ";", "}")) else self.or_(ns)
            return ("range", None, hi, inc)
        if t.k == "p" and t.v in ("|", "||"):
            params = []
            if self.eat().v == "|":
                while not self.at("|"):
                    params.append(self.pattern())
                    if self.at(":"): self.eat(); self.ty(stop=(",", "|"))
                    if self.at(","): self.eat()
                self.eat("|")
            body = self.expr()
            return ("closure", params, body)
        if t.k == "id":
            if t.v == "if":
                self.eat(); c = self.expr(nostruct=True); th = self.block(); el = None
                if self.at("else"):
                    self.eat()
                    if self.at("if"): el = ("blk", [], self.primary(ns))
                    else: el = self.block()
                return ("if", c, th, el)
            if t.v == "match":
                self.eat(); s = self.expr(nostruct=True); self.eat("{"); arms = []
                while not self.at("}"):
                    p = self.pattern(); self.eat("=>")
                    b = self.expr()
                    if self.at(","): self.eat()
                    arms.append((p, b))
                self.eat("}")
                return ("match", s, arms)
            if t.v == "return":
                self.eat(); e = None
                if not (self.peek().k == "p" and self.peek().v in (",", ";", "}")): e = self.expr()
                return ("ret_expr", e)
            if t.v == "continue":
                self.eat(); return ("cont_expr",)
            if t.v in ("for", "while", "loop", "let"):
                self.err("`%s` in expression position" % t.v)
            # path
            segs = [self.eat().v]
            while True:
                if self.at("::"):
                    self.eat()
                    if self.at("<"): self.skip_generics(); continue
                    segs.append(self.eat().v); continue
                if self.at("<") and segs[-1] in ("Vec", "Vector", "Matrix", "Polynomial", "Complex") and self.peek(1).k == "id" and self.at(">", 2):
                    self.skip_generics(); continue             # Vec<T>::new (rare)
                break
            if self.at("!"):                                 # macro
                name = segs[-1]; self.eat()
                o = self.eat().v; c = {"(": ")", "[": "]", "{": "}"}[o]
                if name == "vec":
                    if self.at(c): self.eat(); return ("macro", "vec", [], None)
                    first = self.expr()
                    if self.at(";"):
                        self.eat(); n = self.expr(); self.eat(c); return ("macro", "vec_rep", [first, n], None)
                    es = [first]
                    while self.at(","):
                        self.eat()
                        if self.at(c): break
                        es.append(self.expr())
                    self.eat(c); return ("macro", "vec", es, None)
                depth = 1; txt = []
                while depth:
                    x = self.eat()
                    if x.k == "eof": self.err("unbalanced macro")
                    if x.k == "p" and x.v in ("(", "[", "{"): depth += 1
                    if x.k == "p" and x.v in (")", "]", "}"): depth -= 1
                    if depth: txt.append(str(x.v))
                return ("macro", name, [], " ".join(txt))
            if self.at("{") and not ns and len(segs) == 1 and segs[0][0].isupper() and self._looks_like_struct():
                self.eat("{"); fields = []
                while not self.at("}"):
                    f = self.eat().v
                    if self.at(":"): self.eat(); v = self.expr()
                    else: v = ("var", f)
                    fields.append((f, v))
                    if self.at(","): self.eat()
                self.eat("}")
                return ("struct", segs[0], fields)
            if len(segs) == 1: return ("var", segs[0])
            return ("path", segs)
        self.err("unexpected token in expression")

    def _looks_like_struct(self):
        # `Name { ident , ... }` or `Name { ident : ...` or `Name { }`
        a, b = self.peek(1), self.peek(2)
        if a.k == "p" and a.v == "}": return True
        return a.k == "id" and b.k == "p" and b.v in (",", ":", "}")

def parse_file(src, what):
    return Parser(lex(src), what).items()

def fn_body_ast(fn, what):
    """parse the (lazily kept) body of a fn item"""
    b = fn[4]
    if b[0] == "lazy":
        p = Parser(b[1], what); blk = p.block()
        if p.peek().k != "eof": p.err("trailing tokens after the function body")
        return blk
    return b

def find_fn(items, impl_pat, fn_name, what):
    """the unique fn `fn_name` inside the unique impl whose normalised header matches impl_pat (None: free fn)"""
    hits = []
    for it in items:
        if it[0] == "impl" and impl_pat is not None and re.search(impl_pat, _norm(it[1])):
            for f in it[2]:
                if f[1] == fn_name: hits.append((it[1], f))
        elif it[0] == "fn" and impl_pat is None and it[1] == fn_name:
            hits.append(("", it))
    if len(hits) != 1:
        raise TieBroken("rust2coq: %s: `fn %s` in `impl %s` found %d times (expected exactly once)" % (what, fn_name, impl_pat, len(hits)))
    return hits[0]

def _norm(h):
    return re.sub(r"\s+", "", h)

# ====================================================================================== part 2: Gallina terms
# ('raw', text) | ('ok', t) | ('panic', kind) | ('bind', pat, e, body) | ('let', pat, e, body) | ('if', c_text, a, b)
# | ('fun', [(name, ty|None)], body) | ('app', fname, [terms]) | ('match', scrut_text, [(pat_text, body)])
# patterns: ('v', name) | ('tup', [names]) | ('wild',)
def g_raw(t): return ("raw", t)
def g_ok(t): return ("ok", t)
def pat_text(p):
    if p[0] == "v": return p[1]
    if p[0] == "wild": return "_"
    return "'(" + ", ".join(p[1]) + ")"
def pat_term(p):
    if p[0] == "v": return p[1]
    if p[0] == "wild": return None
    return "(" + ", ".join(p[1]) + ")"
def names_pat(names):
    if not names: return ("wild",)
    if len(names) == 1: return ("v", names[0])
    return ("tup", list(names))
def names_term(names):
    if not names: return "tt"
    if len(names) == 1: return names[0]
    return "(" + ", ".join(names) + ")"

def mk_bind(pat, e, body):
    """let* pat := e in body, with the monad right-identity law applied:  let* x := e in Ok x  ==>  e"""
    if body[0] == "ok" and body[1][0] == "raw" and pat_term(pat) is not None and body[1][1] == pat_term(pat):
        return e
    return ("bind", pat, e, body)
def mk_let(pat, e, body):
    """let pat := e in body, with pair eta applied:  let '(a, b) := s in Ok (a, b)  ==>  Ok s"""
    if pat[0] == "tup" and body[0] == "ok" and body[1][0] == "raw" and body[1][1] == pat_term(pat) and e[0] == "raw":
        return ("ok", e)
    return ("let", pat, e, body)

def wrap(B, body):
    for kind, pat, e in reversed(B):
        if kind == "try":                       # `x?` on an Option/Result: e = (scrutinee text, term of the None/Err case)
            body = ("match", e[0], [("Some %s" % pat[1], body), ("None", e[1])])
        else:
            body = mk_bind(pat, e, body) if kind == "bind" else mk_let(pat, e, body)
    return body

def pp(t, ind=2):
    sp = " " * ind
    k = t[0]
    if k == "raw": return t[1]
    if k == "ok": return "Ok " + pa(t[1], ind)
    if k == "panic": return "Panic " + t[1]
    if k == "bind":
        return "let* %s := %s in\n%s%s" % (pat_text(t[1]).lstrip("'"), pp(t[2], ind + 4), sp, pp(t[3], ind))
    if k == "let":
        return "let %s := %s in\n%s%s" % (pat_text(t[1]), pp(t[2], ind + 4), sp, pp(t[3], ind))
    if k == "if":
        return "if %s\n%sthen %s\n%selse %s" % (t[1], sp, pa(t[2], ind + 5), sp, pa(t[3], ind + 5))
    if k == "fun":
        ps = " ".join(n if ty is None else "(%s : %s)" % (n, ty) for n, ty in t[1])
        return "fun %s =>\n%s%s" % (ps, sp + "  ", pp(t[2], ind + 2))
    if k == "app":
        return t[1] + "".join(" " + pa(a, ind + 2) for a in t[2])
    if k == "match":
        return "match %s with\n" % t[1] + "".join("%s| %s => %s\n" % (sp, p, pp(b, ind + 4)) for p, b in t[2]) + sp + "end"
    raise ValueError(k)
def pa(t, ind):
    if t[0] == "raw": return t[1]
    return "(" + pp(t, ind) + ")"

# ====================================================================================== part 3: the translator
# value types: 'usize' 'isize' 'elem' 'bool' 'vec' (Vec<T> / Vector<T>: a list) 'mat' 'poly' 'unit' 'lit' (untyped integer
# literal) ('tuple', [types]) ('opt', ty)
GTYPE = {"vecn": "(list nat)", "usize": "nat", "isize": "Z", "elem": "(T A)", "bool": "bool", "vec": "(list (T A))", "mat": "(matrix A)",
         "poly": "(list (T A))", "unit": "unit", "lit": "nat"}
LISTS = {"vec": "elem", "vecn": "usize"}          # list-like containers and the type of their elements
SCALARS = {"elem"}                                # scalar sorts with + - * / neg of an Arith (extended by the tables)
def gtype(ty):
    if isinstance(ty, tuple) and ty[0] == "sumty": return "SUMTYPE"
    if isinstance(ty, tuple) and ty[0] == "fn": return "(" + " -> ".join(gtype(x) for x in ty[1]) + " -> res %s)" % gtype(ty[2])
    if isinstance(ty, tuple) and ty[0] == "tuple": return "(" + " * ".join(gtype(x) for x in ty[1]) + ")"
    if isinstance(ty, tuple) and ty[0] == "opt": return "(option %s)" % gtype(ty[1])
    if ty in GTYPE: return GTYPE[ty]
    raise TieBroken("rust2coq: no Gallina type for %r" % (ty,))

class Var:
    def __init__(self, name, g, ty): self.name, self.g, self.ty = name, g, ty
    def __repr__(self): return "<%s:%s>" % (self.name, self.ty)

class Env:
    def __init__(self, vs=None, uninit=frozenset()): self.vs = list(vs or []); self.uninit = frozenset(uninit)
    def declare(self, name, g, ty, uninit=False):
        # a new Rust variable that shadows a visible one gets its own Gallina name: the state tuples of the enclosing
        # loops keep referring to the shadowed variable
        used = {v.g for v in self.vs}
        if g != "_" and g in used:
            k = 1
            while "%s%d" % (g, k) in used: k += 1
            g = "%s%d" % (g, k)
        v = Var(name, g, ty); return Env(self.vs + [v], self.uninit | ({v} if uninit else set())), v
    def init(self, v):
        """the variable v (declared by `let mut v: T;`) has been assigned"""
        return Env(self.vs, self.uninit - {v}) if v in self.uninit else self
    def merge(self, env2):
        """this scope, with the definite-assignment knowledge of the end of an inner block (env2)"""
        return Env(self.vs, self.uninit & env2.uninit)
    def lookup(self, name):
        for v in reversed(self.vs):
            if v.name == name: return v
        return None
    def visible(self):
        """variables in declaration order, shadowed ones removed"""
        seen, out = set(), []
        for v in reversed(self.vs):
            if v.name not in seen: seen.add(v.name); out.append(v)
        return list(reversed(out))

class ModList(list):
    pass

class Rec(set):
    """the variables a piece of code assigns; .shape: those assigned otherwise than by writing one element in place
    (v[i] = x / m[(i,j)] = x on the variable itself: upd / mset, which keep length resp. rows, cols)"""
    def __init__(self): set.__init__(self); self.shape = set(); self.order = []
    def add(self, v):
        if v not in self: self.order.append(v)
        set.add(self, v)

class Ctx:
    def __init__(self, ret, cont, records, ret_raw=None):
        self.ret, self.cont, self.records, self.ret_raw = ret, cont, records, ret_raw
    def note(self, v, elem_only=False):
        for r in self.records:
            r.add(v)
            if not elem_only and isinstance(r, Rec): r.shape.add(v)
    def sub(self, ret=None, cont=None, record=None, ret_raw=None):
        return Ctx(ret or self.ret, cont or self.cont, self.records + ([record] if record is not None else []), ret_raw or self.ret_raw)

def contains_return(node):
    """a `return` somewhere in the statements of a block (closures excluded)"""
    if isinstance(node, tuple):
        if node and node[0] in ("return", "ret_expr"): return True
        if node and node[0] == "closure": return False
        return any(contains_return(x) for x in node[1:])
    if isinstance(node, list): return any(contains_return(x) for x in node)
    return False

RUST_TYPE_RULES = []          # extended from the tables: (regex over the whitespace-free Rust type, value type)
def rust_type(txt, selfty):
    """Rust type text (as normalised by Parser.ty) -> value type"""
    if txt is None: return "unit"
    t = txt.replace("mut ", "").replace(" ", "").replace("::<", "<")
    t = re.sub(r"^&+('[a-z_]+)?", "", t)
    t = re.sub(r"^mut", "", t)
    if t in ("usize",): return "usize"
    if t in ("isize",): return "isize"
    if t in ("bool",): return "bool"
    if t in ("T", "f64"): return "elem"
    if t in ("Self", "Self::Output"): return selfty
    if re.match(r"^(Vector|Vec)<(T|f64)>$", t) or t in ("Vec64",): return "vec"
    if re.match(r"^(Vector|Vec)<usize>$", t): return "vecn"
    if re.match(r"^Matrix<(T|f64)>$", t) or t in ("Mat64",): return "mat"
    if re.match(r"^Polynomial<(T|f64)>$", t): return "poly"
    for pat, ty in RUST_TYPE_RULES:
        if re.match(pat, t): return ty
    m = re.match(r"^dynFn\((.*)\)->(.*)$", t)
    if m:                                                # &dyn Fn(X) -> Y : a user closure, which may panic: X -> res Y
        parts, depth, cur = [], 0, ""
        for ch in m.group(1):
            if ch in "<(": depth += 1
            if ch in ">)": depth -= 1
            if ch == "," and depth == 0: parts.append(cur); cur = ""
            else: cur += ch
        if cur: parts.append(cur)
        a, r = [rust_type(x, selfty) for x in parts], rust_type(m.group(2), selfty)
        if all(not (isinstance(x, tuple) and x[0] == "unknown") for x in a + [r]): return ("fn", a, r)
    m = re.match(r"^\((.*)\)$", t)
    if m and m.group(1) == "": return "unit"
    if m:
        parts, depth, cur = [], 0, ""
        for ch in m.group(1):
            if ch in "<(": depth += 1
            if ch in ">)": depth -= 1
            if ch == "," and depth == 0: parts.append(cur); cur = ""
            else: cur += ch
        if cur: parts.append(cur)
        return ("tuple", [rust_type(p, selfty) for p in parts])
    return ("unknown", t)

def always_exits(blk):
    """the block never completes normally (ends in panic!/return/continue on every path)"""
    stmts, tail = blk[1], blk[2]
    last = tail if tail is not None else (stmts[-1] if stmts else None)
    if last is None: return False
    if last[0] == "expr": last = last[1]
    if last[0] in ("return", "continue", "ret_expr", "cont_expr"): return True
    if last[0] == "macro" and last[1] in ("panic", "unreachable"): return True
    if last[0] == "if" and last[3] is not None: return always_exits(last[2]) and always_exits(last[3])
    if last[0] == "block": return always_exits(last[1])
    return False

def strip(e):
    while e[0] == "paren" or (e[0] == "un" and e[1] in ("&", "&mut", "*")) or (e[0] == "mcall" and e[2] in ("clone", "to_owned", "to_vec") and not e[3]):
        e = e[1] if e[0] in ("paren", "mcall") else e[2]
    return e


# ---- syntactic helpers of the canonicalisations (round four, package robust; see the header)
def unparen(e):
    while e[0] == "paren": e = e[1]
    return e

def ast_eq(a, b):
    """structural equality of two expressions, parentheses ignored"""
    if isinstance(a, tuple) and isinstance(b, tuple):
        a, b = unparen(a), unparen(b)
        return len(a) == len(b) and all(ast_eq(x, y) for x, y in zip(a, b))
    if isinstance(a, list) and isinstance(b, list):
        return len(a) == len(b) and all(ast_eq(x, y) for x, y in zip(a, b))
    return a == b

def mentions(node, name):
    """the identifier occurs somewhere in the piece of syntax (variables, struct-literal shorthands, macro texts)"""
    if isinstance(node, tuple):
        if node and node[0] == "var" and node[1] == name: return True
        if node and node[0] == "macro" and isinstance(node[-1], str) and name in re.findall(r"[A-Za-z_][A-Za-z0-9_]*", node[-1]): return True
        return any(mentions(x, name) for x in node[1:])
    if isinstance(node, list): return any(mentions(x, name) for x in node)
    return False

def vars_of(node, acc=None):
    """the identifiers used as variables in an expression"""
    acc = set() if acc is None else acc
    if isinstance(node, tuple):
        if node and node[0] == "var": acc.add(node[1])
        for x in node[1:]: vars_of(x, acc)
    elif isinstance(node, list):
        for x in node: vars_of(x, acc)
    return acc

def continues_here(node):
    """a `continue` that belongs to the loop whose body this is (nested loops and closures are not entered)"""
    if isinstance(node, tuple):
        if node and node[0] in ("continue", "cont_expr"): return True
        if node and node[0] in ("for", "while", "closure"): return False
        return any(continues_here(x) for x in node[1:])
    if isinstance(node, list): return any(continues_here(x) for x in node)
    return False

def assigns(node, name):
    """the piece of syntax assigns the variable `name` or a place inside it, or borrows it mutably (syntactic, conservative)"""
    if isinstance(node, tuple):
        if node and node[0] == "assign":
            pl = strip(node[2])
            while pl[0] in ("field", "index"): pl = strip(pl[1])
            if pl == ("var", name): return True
        if node and node[0] == "un" and node[1] == "&mut" and mentions(node[2], name): return True
        if node and node[0] == "let" and pat_binds(node[1], name): return True          # re-declared inside: give up
        return any(assigns(x, name) for x in node[1:])
    if isinstance(node, list): return any(assigns(x, name) for x in node)
    return False

def pat_binds(pat, name):
    if pat[0] == "pvar": return pat[1] == name
    if pat[0] == "ptuple": return any(pat_binds(q, name) for q in pat[1])
    if pat[0] == "pctor": return pat_binds(pat[2], name)
    return False

def rename_vars(node, mapping):
    """consistent renaming of variables (uses and binders) in a piece of syntax"""
    if isinstance(node, tuple):
        if node and node[0] == "var" and len(node) == 2: return ("var", mapping.get(node[1], node[1]))
        if node and node[0] == "pvar" and len(node) == 3: return ("pvar", mapping.get(node[1], node[1]), node[2])
        return tuple(rename_vars(x, mapping) for x in node)
    if isinstance(node, list): return [rename_vars(x, mapping) for x in node]
    return node

def binders_of(node, acc):
    if isinstance(node, tuple):
        if node and node[0] == "pvar" and len(node) == 3 and node[1][:1].islower(): acc.add(node[1])
        for x in node: binders_of(x, acc)
    elif isinstance(node, list):
        for x in node: binders_of(x, acc)
    return acc

def is_one(e):
    e = unparen(e)
    return e[0] == "num" and e[1].replace("_", "") in ("1", "1usize")

def is_step(st, name, sign):
    """the statement is `name += 1` / `name = name + 1` (sign '+') resp. `name -= 1` / `name = name - 1` (sign '-')"""
    if st[0] != "assign" or unparen(st[2]) != ("var", name): return False
    if st[1] == sign + "=": return is_one(st[3])
    r = unparen(st[3])
    return st[1] == "=" and r[0] == "bin" and r[1] == sign and unparen(r[2]) == ("var", name) and is_one(r[3])

class Translator:
    """one function at a time.  `tables` (driver/r2c_table.py): METHODS, PATHS, BINOPS, UNOPS, FIELDS, CONSTS."""
    def __init__(self, tables, spec):
        self.tb, self.spec, self.n, self.tuple_parts = tables, spec, 0, {}
        GTYPE.update(getattr(tables, "GTYPES", {}))
        for r in getattr(tables, "RUST_TYPES", []):
            if r not in RUST_TYPE_RULES: RUST_TYPE_RULES.append(r)
        self.what = spec["name"]
    def bad(self, msg):
        raise TieBroken("rust2coq: %s: %s" % (self.what, msg))
    def fresh(self, hint="t"):
        self.n += 1; return "%s%d" % (hint, self.n)
    def gname(self, name):
        return "_" if name == "_" else name + "_"

    # ------------------------------------------------------------------ expressions
    def lit(self, t, ty, target):
        if ty != "lit": return t
        if target == "isize": return "(%s)%%Z" % t
        return t
    def ex(self, e, env, B):
        """evaluate e left to right; fallible steps are appended to B; returns (pure term text, type)"""
        k = e[0]
        if k == "paren": return self.ex(e[1], env, B)
        if k == "rawtext": return (e[1], e[2])
        if k == "num":
            txt = e[1].replace("_", "")
            m = re.match(r"^([0-9]+)(usize|isize)?$", txt)
            if m: return (m.group(1), {"usize": "usize", "isize": "isize", None: "lit"}[m.group(2)])
            m = re.match(r"^([0-9]+\.[0-9]*(?:[eE][+-]?[0-9]+)?)(f64)?$", txt)
            if m:
                x = float(m.group(1))
                if x == 0.0: return ("(@zero A)", "elem")
                if x == 1.0: return ("(@one A)", "elem")
                if self.spec.get("lit_nat") and x == int(x) and 2 <= x < 2 ** 20: return (self.spec["lit_nat"].format(int(x)), "elem")
                if (self.spec.get("sarith") or self.spec.get("lit2")) and x == 2.0: return ("(add (@one A) (@one A))", "elem")
                # a literal the model takes as a named parameter (Section variable of the generated file), by its exact text
                if m.group(1) in self.spec.get("literals", {}): return (self.spec["literals"][m.group(1)], "elem")
                # an integral literal n. / n.0 as the model's `n as f64` (exact for the small integers that occur)
                if self.spec.get("lit_nat") and x == int(x) and 2 <= x < 2 ** 20: return (self.spec["lit_nat"].format(int(x)), "elem")
                self.bad("floating-point literal %s (only 0.0 / 1.0 have a meaning over an arbitrary Arith)" % txt)
            self.bad("numeric literal %r" % txt)
        if k == "var":
            v = env.lookup(e[1])
            if v is None:
                c = self.spec.get("consts", {}).get(e[1]) or self.tb.CONSTS.get(e[1])
                if c: return c
                self.bad("unknown identifier `%s`" % e[1])
            if v in env.uninit: self.bad("`%s` is read before it is assigned (declared by a `let` without initialiser)" % e[1])
            if v in getattr(self, "killed", ()): self.bad("`%s` is read after a call whose effect on it the call table does not model" % e[1])
            return (v.g, v.ty)
        if k == "un":
            op = e[1]
            if op in ("&", "&mut", "*"): return self.ex(e[2], env, B)
            if op == "!":
                # (C7) negation normal form: `!` is pushed through `&&` / `||` (De Morgan; the short-circuit evaluation of the operands
                # is the same), through `!`, and through comparisons of usize / isize / bool operands (never of elements: NaN)
                inner = unparen(e[2])
                if inner[0] == "bin" and inner[1] in ("&&", "||"):
                    return self.ex(("bin", "||" if inner[1] == "&&" else "&&", ("un", "!", inner[2]), ("un", "!", inner[3])), env, B)
                if inner[0] == "un" and inner[1] == "!": return self.ex(inner[2], env, B)
                dual = {"<": ">=", "<=": ">", ">": "<=", ">=": "<", "==": "!=", "!=": "=="}
                if inner[0] == "bin" and inner[1] in dual:
                    tys = self.discrete_operands(inner[2], inner[3], env)
                    if tys is not None and (inner[1] in ("==", "!=") or "bool" not in tys):
                        return self.ex(("bin", dual[inner[1]], inner[2], inner[3]), env, B)
            a, ta = self.ex(e[2], env, B)
            if op == "-":
                if ta in SCALARS: return ("(neg %s)" % a, ta)
                if ta in ("isize",): return ("(- %s)%%Z" % a, "isize")
                if ta == "lit": return ("(-%s)%%Z" % a, "isize")
                if ("-", ta) in self.tb.UNOPS: return self.apply_fn(self.tb.UNOPS[("-", ta)], [a], B)
                self.bad("unary minus on a value of type %s" % (ta,))
            if op == "!":
                if ta == "bool": return ("(negb %s)" % a, "bool")
                self.bad("`!` on a value of type %s" % (ta,))
            self.bad("unary operator %s" % op)
        if k == "cast":
            a, ta = self.ex(e[1], env, B)
            to = e[2]
            if to == "usize":
                if ta in ("usize", "lit"): return (a, "usize")
                if ta == "isize": return ("(isize_as_usize %s)" % a, "usize")
            if to == "isize":
                if ta == "usize": return ("(Z.of_nat %s)" % a, "isize")
                if ta == "lit": return ("(%s)%%Z" % a, "isize")
                if ta == "isize": return (a, "isize")
            if to == "f64" and ta in ("usize", "lit") and self.spec.get("sarith"):
                return ("(of_nat %s)" % a, "elem")
            self.bad("cast `as %s` of a value of type %s" % (to, ta))
        if k == "bin": return self.binop(e, env, B)
        if k == "index": return self.read_index(e, env, B)
        if k == "field": return self.field(e, env, B)
        if k == "mcall": return self.mcall(e, env, B)
        if k == "call": return self.call(e, env, B)
        if k == "tuple":
            if not e[1]: return ("tt", "unit")
            parts = [self.ex(x, env, B) for x in e[1]]
            parts = [(self.lit(t, ty, "usize"), "usize" if ty == "lit" else ty) for t, ty in parts]
            txt = "(" + ", ".join(t for t, ty in parts) + ")"
            self.tuple_parts[txt] = parts
            return (txt, ("tuple", [ty for _, ty in parts]))
        if k == "if": return self.if_value(e, env, B)
        if k == "macro":
            if e[1] == "vec_rep":
                x, tx = self.ex(e[2][0], env, B); n, tn = self.ex(e[2][1], env, B)
                if tx in ("lit", "usize") and tn in ("usize", "lit"): return ("(repeat %s %s)" % (x, n), "vecn")
                lt = [l for l, el in LISTS.items() if el == tx and l in ("vec", "cvec")]
                if not lt or tn not in ("usize", "lit"): self.bad("vec![x; n] with x : %s, n : %s" % (tx, tn))
                return ("(repeat %s %s)" % (x, n), lt[0])
            if e[1] == "vec":
                if not e[2]: return ("(@nil (T A))", "vec")         # vec![]: the `locals` table of the function may retype it
                parts = [self.ex(x, env, B) for x in e[2]]
                if any(ty != "elem" for _, ty in parts): self.bad("vec![..] of non-element values")
                return ("(" + " :: ".join([t for t, _ in parts] + ["(@nil (T A))"]) + ")", "vec")
            self.bad("macro `%s!` in expression position" % e[1])
        if k == "struct":
            s = self.spec.get("structs", {}).get(e[1]) or self.tb.STRUCTS.get(e[1])
            if s is None and e[1] == "Self":
                cands = [v for v in self.tb.STRUCTS.values() if v[2] == self.selfty]
                s = cands[0] if len(cands) == 1 else None
            if s is None: self.bad("struct literal `%s { .. }`" % e[1])
            fields, fmt, ty = s
            got = dict(e[2])
            if sorted(got) != sorted(fields): self.bad("struct literal `%s` with fields %s" % (e[1], sorted(got)))
            vts = [self.ex(got[f], env, B) for f in fields]
            vals = [v[0] for v in vts]
            if fmt == "{0}" and vts[0][1] in LISTS: ty = vts[0][1]       # a transparent wrapper (Vector { vec }): the type of its field
            return (fmt.format(*vals), ty)
        if k == "block":
            blk = e[1]
            if blk[1] or blk[2] is None: self.bad("block expression with statements")
            return self.ex(blk[2], env, B)
        if k == "try":
            t, ty = self.ex(e[1], env, B)
            if not (isinstance(ty, tuple) and ty[0] == "opt"): self.bad("`?` on a value of type %s" % (ty,))
            src = strip(e[1])
            key = (self.place_type(src[1], env), src[2]) if src[0] == "mcall" else None
            err = self.tb.TRY_ERR.get(key)
            if err is None: self.bad("`?` on %s: no entry in TRY_ERR for the error it propagates" % (key,))
            none_term = ("panic", err[6:]) if err.startswith("Panic ") else self.ctx.ret_raw(err)
            v = self.fresh("d"); B.append(("try", ("v", v), (t, none_term))); return (v, ty[1])
        if k == "closure": self.bad("closure outside .iter().map(..).collect()")
        if k == "range": self.bad("range expression outside a `for` header / drain")
        if k == "path":
            c = self.spec.get("consts", {}).get("::".join(e[1])) or self.tb.CONSTS.get("::".join(e[1]))
            if c: return c
            self.bad("path `%s` used as a value" % "::".join(e[1]))
        if k == "match": self.bad("`match` in this position")
        self.bad("expression form `%s`" % k)

    def binop(self, e, env, B):
        op = e[1]
        if op in ("&&", "||"):
            a, ta = self.ex(e[2], env, B)
            B2 = []
            b, tb_ = self.ex(e[3], env, B2)
            if ta != "bool" or tb_ != "bool": self.bad("`%s` on non-boolean operands" % op)
            if B2:
                # short-circuit with a fallible right operand: evaluate it only when needed
                v = self.fresh("c")
                if op == "&&": t = ("if", a, wrap(B2, g_ok(g_raw(b))), g_ok(g_raw("false")))
                else: t = ("if", a, g_ok(g_raw("true")), wrap(B2, g_ok(g_raw(b))))
                B.append(("bind", ("v", v), t)); return (v, "bool")
            return ("(%s %s %s)%%bool" % (a, op, b), "bool")
        a, ta = self.ex(e[2], env, B)
        b, tb_ = self.ex(e[3], env, B)
        if ta == "lit" and tb_ == "lit": ta = tb_ = "usize"
        elif ta == "lit": a = self.lit(a, "lit", tb_); ta = tb_
        elif tb_ == "lit": b = self.lit(b, "lit", ta); tb_ = ta
        if (op, ta, tb_) in self.spec.get("binops", {}):
            return self.apply_fn(self.spec["binops"][(op, ta, tb_)], [a, b], B)
        if (op, ta, tb_) in self.tb.BINOPS:
            return self.apply_fn(self.tb.BINOPS[(op, ta, tb_)], [a, b], B)
        if ta != tb_: self.bad("operator `%s` on operands of types %s and %s" % (op, ta, tb_))
        if ta == "usize":
            if op in ("+", "*"): return ("(%s %s %s)%%nat" % (a, op, b), "usize")
            if op == "-":
                v = self.fresh("d"); B.append(("bind", ("v", v), ("app", "usub", [g_raw(a), g_raw(b)]))); return (v, "usize")
            if op in ("/", "%") and re.match(r"^[1-9][0-9]*$", b):
                return ("(Nat.%s %s %s)" % ("div" if op == "/" else "modulo", a, b), "usize")
            if op in ("/", "%"):                              # a divisor that may be 0: checked (Panic DivZero)
                v = self.fresh("d"); B.append(("bind", ("v", v), ("app", "udiv" if op == "/" else "umod", [g_raw(a), g_raw(b)]))); return (v, "usize")
            cmpm = {"==": "(%s =? %s)%%nat", "!=": "(negb (%s =? %s)%%nat)", "<": "(%s <? %s)%%nat", "<=": "(%s <=? %s)%%nat"}
            if op in cmpm: return (cmpm[op] % (a, b), "bool")
            if op == ">": return ("(%s <? %s)%%nat" % (b, a), "bool")
            if op == ">=": return ("(%s <=? %s)%%nat" % (b, a), "bool")
        if ta == "isize":
            if op in ("+", "*", "-"): return ("(%s %s %s)%%Z" % (a, op, b), "isize")
            cmpm = {"==": "(%s =? %s)%%Z", "!=": "(negb (%s =? %s)%%Z)", "<": "(%s <? %s)%%Z", "<=": "(%s <=? %s)%%Z"}
            if op in cmpm: return (cmpm[op] % (a, b), "bool")
            if op == ">": return ("(%s <? %s)%%Z" % (b, a), "bool")
            if op == ">=": return ("(%s <=? %s)%%Z" % (b, a), "bool")
        if ta in SCALARS:
            # "elem" = the element type T of the Arith; further scalar sorts (e.g. "celem" = Complex<f64> over the Arith CArith S)
            # use the same operations of their own Arith (Coq infers it from the operand types)
            if op in ("+", "-", "*"): return ("(%s %s %s)" % ({"+": "add", "-": "sub", "*": "mul"}[op], a, b), ta)
            if op == "/":
                v = self.fresh("q"); B.append(("bind", ("v", v), ("app", "div", [g_raw(a), g_raw(b)]))); return (v, ta)
        if ta in SCALARS and op in ("==", "!="):
            return (("(eqb %s %s)" if op == "==" else "(negb (eqb %s %s))") % (a, b), "bool")
        if ta == "elem":
            cmpm = {"==": "(eqb %s %s)", "!=": "(negb (eqb %s %s))", "<": "(ltb %s %s)", "<=": "(leb %s %s)", ">": "(gtb %s %s)"}
            if op in cmpm: return (cmpm[op] % (a, b), "bool")
            if op == ">=": return ("(leb %s %s)" % (b, a), "bool")
        if ta == "bool" and op in ("==", "!="):
            return (("(Bool.eqb %s %s)" if op == "==" else "(negb (Bool.eqb %s %s))") % (a, b), "bool")
        self.bad("operator `%s` on operands of type %s" % (op, ta))

    def apply_fn(self, ent, args, B):
        """ent = dict(g=format, ret=type, fallible=bool): a call of a model function with already evaluated arguments"""
        t = ent["g"].format(*args)
        if ent.get("fallible"):
            v = self.fresh("r"); B.append(("bind", ("v", v), g_raw(t))); return (v, ent["ret"])
        return (t if ent.get("atom") else "(" + t + ")", ent["ret"])

    def field(self, e, env, B):
        base, ty = self.ex(e[1], env, B)
        f = self.spec.get("fields", {}).get((ty if not isinstance(ty, tuple) else ty[0], e[2])) or self.tb.FIELDS.get((ty if not isinstance(ty, tuple) else ty[0], e[2]))
        if f is None:
            if isinstance(ty, tuple) and ty[0] == "tuple" and e[2].isdigit() and len(ty[1]) >= 2 and int(e[2]) < len(ty[1]):
                # (a, b, c) is the left-nested pair ((a, b), c)
                n, i = len(ty[1]), int(e[2])
                t = base
                for _ in range(n - 1 - i if i > 0 else n - 1): t = "(fst %s)" % t
                if i > 0: t = "(snd %s)" % t
                return (t, ty[1][i])
            self.bad("field `.%s` of a value of type %s" % (e[2], ty))
        return (f[0].format(base), f[1])

    def read_index(self, e, env, B):
        base, ty = self.ex(e[1], env, B)
        idx = e[2]
        if strip(idx)[0] == "range":
            # &v[lo..hi]: a checked sub-slice (copied: the translated subset has no aliasing through it)
            rg = strip(idx)
            ent = self.tb.METHODS.get(("index_range", ty))
            if ent is None or rg[1] is None or rg[2] is None or rg[3]: self.bad("range index into a value of type %s" % (ty,))
            lo, tl = self.ex(rg[1], env, B); hi, th = self.ex(rg[2], env, B)
            if tl not in ("usize", "lit") or th not in ("usize", "lit"): self.bad("range index of type %s..%s" % (tl, th))
            return self.apply_fn(ent, [base, lo, hi], B)
        if ty in LISTS:
            i, ti = self.ex(idx, env, B)
            if ti not in ("usize", "lit"): self.bad("index of type %s into a vector" % (ti,))
            v = self.fresh("x"); B.append(("bind", ("v", v), ("app", "rd", [g_raw(base), g_raw(i)]))); return (v, LISTS[ty])
        if ty == "mat":
            idx = idx[1] if idx[0] == "paren" else idx
            if idx[0] != "tuple" or len(idx[1]) != 2: self.bad("matrix index that is not a literal pair (i, j)")
            i, ti = self.ex(idx[1][0], env, B); j, tj = self.ex(idx[1][1], env, B)
            if ti not in ("usize", "lit") or tj not in ("usize", "lit"): self.bad("matrix index of type (%s, %s)" % (ti, tj))
            v = self.fresh("x"); B.append(("bind", ("v", v), ("app", "mget", [g_raw(base), g_raw(i), g_raw(j)]))); return (v, "elem")
        if ("index", ty) in self.tb.METHODS:
            i, ti = self.ex(idx, env, B)
            return self.apply_fn(self.tb.METHODS[("index", ty)], [base, i], B)
        self.bad("indexing into a value of type %s" % (ty,))

    def discrete_operands(self, a, b, env):
        """the set of the (at most one) non-literal type of two operands when both are usize / isize / bool / integer literals
        -- totally ordered types with decidable equality --, else None"""
        ts = [self.type_of(a, env), self.type_of(b, env)]
        if not all(isinstance(t, str) for t in ts): return None
        tys = set(ts) - {"lit"}
        return tys if len(tys) <= 1 and tys <= {"usize", "isize", "bool"} else None

    def canon_if(self, e, env):
        """an `if` WITH an else arm, negated condition:  if !c {X} else {Y}  ==>  if c {Y} else {X};  and on usize / isize / bool
        operands (total orders -- never on floating-point elements, where a NaN makes `a >= b` differ from `!(a < b)`)
        `!=`, `>=`, `>`  ==>  `==`, `<`, `<=` with the arms exchanged"""
        c, th, el = e[1], e[2], e[3]
        if el is None or (not el[1] and el[2] is None): return e
        while True:
            cu = unparen(c)
            if cu[0] == "un" and cu[1] == "!":
                c, th, el = cu[2], el, th; continue
            if cu[0] == "bin" and cu[1] in ("!=", ">=", ">"):
                tys = self.discrete_operands(cu[2], cu[3], env)
                if tys is not None and (cu[1] == "!=" or "bool" not in tys):
                    c, th, el = ("bin", {"!=": "==", ">=": "<", ">": "<="}[cu[1]], cu[2], cu[3]), el, th; continue
            break
        return ("if", c, th, el)

    def if_value(self, e, env, B):
        e = self.canon_if(e, env)
        c, tc = self.ex(e[1], env, B)
        if tc != "bool": self.bad("`if` condition of type %s" % (tc,))
        th, el = e[2], e[3]
        if el is None or th[1] or el[1] or th[2] is None or el[2] is None:
            self.bad("`if` expression used as a value whose branches are not plain expressions")
        Ba, Bb = [], []
        a, ta = self.ex(th[2], env, Ba); b, tb_ = self.ex(el[2], env, Bb)
        if ta == "lit": ta = tb_ if tb_ != "lit" else "usize"
        if tb_ == "lit": tb_ = ta
        if ta != tb_: self.bad("`if` branches of different types %s / %s" % (ta, tb_))
        if not Ba and not Bb: return ("(if %s then %s else %s)" % (c, a, b), ta)
        v = self.fresh("v")
        B.append(("bind", ("v", v), ("if", c, wrap(Ba, g_ok(g_raw(a))), wrap(Bb, g_ok(g_raw(b))))))
        return (v, ta)

    # ---- places: which variable does a place expression live in
    def root_var(self, e, env):
        e = strip(e)
        while e[0] in ("field", "index"): e = strip(e[1])
        if e[0] == "var":
            v = env.lookup(e[1])
            if v is not None: return v
        self.bad("cannot find the variable that owns the place expression")

    def mcall(self, e, env, B, stmt=False):
        recv, name, args = e[1], e[2], e[3]
        # .iter().map(|x| ..).collect()
        if name == "collect" and not args and recv[0] == "mcall" and recv[2] == "map" and recv[1][0] == "mcall" and recv[1][2] in ("iter", "into_iter") :
            src, ts = self.ex(recv[1][1], env, B)
            clo = recv[3][0] if len(recv[3]) == 1 else None
            if ts != "vec" or clo is None or clo[0] != "closure" or len(clo[1]) != 1 or clo[1][0][0] != "pvar":
                self.bad(".iter().map(..).collect() of an unsupported shape")
            env2, xv = env.declare(clo[1][0][1], self.gname(clo[1][0][1]), "elem")
            Bc = []
            body, tb_ = self.ex(clo[2], env2, Bc)
            if tb_ != "elem": self.bad("closure of .map() does not return an element")
            if Bc:
                v = self.fresh("l")
                B.append(("bind", ("v", v), ("app", "mapM", [("fun", [(xv.g, None)], wrap(Bc, g_ok(g_raw(body)))), g_raw(src)])))
                return (v, "vec")
            return ("(map (fun %s => %s) %s)" % (xv.g, body, src), "vec")
        if name in ("clone", "to_owned", "to_vec") and not args: return self.ex(recv, env, B)
        if name == "position" and len(args) == 1 and recv[0] == "mcall" and recv[2] == "iter" and not recv[3]:
            # v.iter().position(|x| *x == value): the first index whose element equals value (find_first of Model/Vector.v)
            clo = args[0]
            ok = clo[0] == "closure" and len(clo[1]) == 1 and clo[1][0][0] == "pvar" and clo[2][0] == "bin" and clo[2][1] == "==" \
                 and strip(clo[2][2]) == ("var", clo[1][0][1])
            src, ts = self.ex(recv[1], env, B)
            if not ok or ts != "vec": self.bad(".iter().position(..) whose predicate is not `|x| *x == <value>`")
            val, tv = self.ex(clo[2][3], env, B)
            if tv != "elem": self.bad(".iter().position(|x| *x == v) with v of type %s" % (tv,))
            return ("(find_first %s %s 0)" % (src, val), ("opt", "usize"))
        if name == "unwrap" and not args and recv[0] == "mcall" and recv[2] == "join" and not recv[3]:
            # handle.join().unwrap(): the value the worker returned; a worker that panicked makes join() an Err
            h, th = self.ex(recv[1], env, B)
            if th != "handle": self.bad(".join() on a value of type %s" % (th,))
            v = self.fresh("j"); B.append(("bind", ("v", v), ("app", "join_unwrap", [g_raw(h)]))); return (v, "elem")
        if name == "spawn" and len(args) == 1 and args[0][0] == "closure" and not args[0][1]:
            # scope.spawn(|| BLOCK): value model of a scoped worker -- the (possibly panicking) computation of BLOCK over the
            # values it captures; what a value model cannot exhibit (races) is excluded by the borrow rules of thread::scope
            r, tr = self.ex(recv, env, B)
            if tr != "scope": self.bad(".spawn(..) on a value of type %s" % (tr,))
            body = args[0][2]
            blk = body[1] if body[0] == "block" else ("blk", [], body)
            if contains_return(blk): self.bad("`return` inside a spawned closure")
            rec, outer_ctx = set(), self.ctx
            no = lambda *a: self.bad("`return` / `continue` out of a spawned closure")
            self.ctx = Ctx(no, no, [rec], ret_raw=no)
            try:
                def fin(env2, v):
                    if v is None or v[1] != "elem": self.bad("a spawned closure must return an element")
                    return g_ok(g_raw(v[0]))
                term = self.block(blk, env, fin)
            finally:
                self.ctx = outer_ctx
            if any(v in rec for v in env.visible()): self.bad("a spawned closure assigns a captured variable")
            return ("(" + pp(term, 18) + ")", "handle")
        if name == "sort_by_key" and len(args) == 1:
            # v.sort_by_key(|x| x.K): the key must be literally a tuple projection of the closure parameter
            clo = args[0]
            if not (clo[0] == "closure" and len(clo[1]) == 1 and clo[1][0][0] == "pvar" and clo[2][0] == "field"
                    and clo[2][1] == ("var", clo[1][0][1]) and clo[2][2].isdigit()):
                self.bad(".sort_by_key(..) whose key is not `|x| x.<k>`")
            name, args = "sort_by_key:proj%s" % clo[2][2], []
        rv = strip(recv)
        if name == "push" and len(args) == 1 and rv[0] == "var" and getattr(env.lookup(rv[1]), "flex", False):
            fv, ta = env.lookup(rv[1]), self.type_of(args[0], env)
            if ta == "lit": ta = "usize"
            cand = [l for l, el in LISTS.items() if el == ta and l != "poly"]
            if ta != LISTS[fv.ty] and len(cand) == 1: fv.ty = cand[0]
            fv.flex = False                              # typed by its first push
        r, tr = self.ex(recv, env, B)
        if isinstance(tr, tuple) and tr[0] == "opt" and name == "unwrap" and not args:
            v = self.fresh("u"); B.append(("bind", ("v", v), ("app", "unwrap_opt", [g_raw(r)]))); return (v, tr[1])
        key = (tr if not isinstance(tr, tuple) else tr[0], name, len(args))
        ent = self.spec.get("methods", {}).get(key) or self.tb.METHODS.get(key)
        if ent is None: self.bad("method `.%s/%d` on a receiver of type %s is not in the call table" % (name, len(args), tr))
        avals = []
        ptys = ent.get("args", [None] * len(args))
        for a, pty in zip(args, ptys):
            if pty == "range":
                a = strip(a)
                if a[0] != "range" or a[1] is None or a[2] is None or a[3]: self.bad("argument of .%s must be a range lo..hi" % name)
                lo, tl = self.ex(a[1], env, B); hi, th = self.ex(a[2], env, B)
                avals += [lo, hi]; continue
            t, ty = self.ex(a, env, B)
            if ty == "lit": t = self.lit(t, "lit", pty or "usize"); ty = pty or "usize"
            if pty is not None and ty != pty: self.bad("argument of `.%s` has type %s, the call table expects %s" % (name, ty, pty))
            avals.append(t)
        for k_, txt in ent.get("require", {}).items():
            if avals[k_] != txt: self.bad("argument %d of `.%s` must be %s (the call table has no other reading)" % (k_, name, txt))
        outs = ent.get("out", ["ret"])
        t = ent["g"].format(r, *avals)
        for kname in ent.get("kills", []):
            # the callee modifies this operand and the model function does not return its new value: it must not be read again
            pl = strip(recv) if kname == "recv" else strip(args[int(kname[3:])])
            if pl[0] != "var" or env.lookup(pl[1]) is None: self.bad("call table: `.%s` kills an operand that is not a variable" % name)
            if not hasattr(self, "killed"): self.killed = set()
            self.killed.add(env.lookup(pl[1]))
        if outs == ["ret"]:
            if ent.get("fallible"):
                v = self.fresh("r"); B.append(("bind", ("v", v), g_raw(t))); return (v, ent["ret"])
            return ("(" + t + ")", ent["ret"])
        # a mutating call: the model function returns the new values of the mutated operands (and the return value)
        names, retname, later = [], None, []
        for o in outs:
            if o == "recv": pl = strip(recv)
            elif o.startswith("arg"): pl = strip(args[int(o[3:])])
            elif o == "ret": retname = self.fresh("r"); names.append(retname); continue
            else: self.bad("call table: unknown output %r" % o)
            if pl[0] == "var":
                v = env.lookup(pl[1])
                if v is None: self.bad("unknown variable `%s`" % pl[1])
                names.append(v.g); self.ctx.note(v)
            elif pl[0] == "field":
                nv = self.fresh("n"); names.append(nv); later.append((pl, nv, self.place_type(pl, env)))
            else:
                self.bad("mutating method `.%s` on an operand that is neither a variable nor a field" % name)
        if ent.get("fallible"): B.append(("bind", names_pat(names), g_raw(t)))
        else: B.append(("let", names_pat(names), g_raw("(" + t + ")")))
        for pl, nv, pty in later: self.assign_place(pl, nv, pty, env, B)
        if retname: return (retname, ent["ret"])
        return ("tt", "unit")

    def call(self, e, env, B):
        f, args = e[1], e[2]
        if f[0] == "var": path = f[1]
        elif f[0] == "path": path = "::".join(f[1])
        else: self.bad("call of a computed function")
        fv = env.lookup(path) if f[0] == "var" else None
        if fv is not None and isinstance(fv.ty, tuple) and fv.ty[0] == "fn":
            # a call of a `&dyn Fn` parameter: arguments left to right, then the (fallible) application
            if len(args) != len(fv.ty[1]): self.bad("closure `%s` called with %d arguments" % (path, len(args)))
            avals = []
            for a, pty in zip(args, fv.ty[1]):
                t, ty = self.ex(a, env, B)
                if ty != pty: self.bad("argument of the closure `%s` has type %s (expected %s)" % (path, ty, pty))
                avals.append(t)
            v = self.fresh("y"); B.append(("bind", ("v", v), ("app", fv.g, [g_raw(x) for x in avals]))); return (v, fv.ty[2])
        if path in ("Ok", "Err") and len(args) == 1 and self.spec.get("result_sum"):
            if path == "Ok":
                t, ty = self.ex(args[0], env, B)
                return ("(inl %s)" % t, ("sum", ty))
            a = strip(args[0])
            if a[0] != "str": self.bad("Err(..) of something that is not a string literal")
            for pat, ctor in self.spec["result_sum"]["errors"]:
                if re.search(pat, a[1]): return ("(inr %s)" % ctor, ("sum", None))
            self.bad("Err(%r): no constructor for this message in the table" % a[1])
        if path in ("Ok", "Err") and len(args) == 1 and self.spec.get("result_enum"):
            re_ = self.spec["result_enum"]
            if path == "Err" and re_.get("err_const"): return (re_["err_const"], re_["ty"])      # the error carries no data the model keeps
            t, ty = self.ex(args[0], env, B)
            want = re_["ok_ty" if path == "Ok" else "err_ty"]
            if ty == "lit": t = self.lit(t, "lit", want); ty = want
            if ty != want: self.bad("%s(..) of a value of type %s (the table expects %s)" % (path, ty, want))
            return ("(%s %s)" % (re_["ok" if path == "Ok" else "err"], t), re_["ty"])
        if path == "Some" and len(args) == 1:
            t, ty = self.ex(args[0], env, B)
            return ("(Some %s)" % self.lit(t, ty, "usize"), ("opt", "usize" if ty == "lit" else ty))
        ent = self.spec.get("paths", {}).get((path, len(args))) or self.tb.PATHS.get((path, len(args)))
        if ent is None: self.bad("function `%s/%d` is not in the call table" % (path, len(args)))
        if isinstance(ent, dict) and ent.get("special") == "swap":
            return self.mem_swap(args, env, B)
        vals = [self.ex(a, env, B) for a in args]
        alts = ent if isinstance(ent, list) else [ent]
        def fits(ty, pty): return pty is None or ty == pty or (ty == "lit" and pty in ("usize", "isize"))
        chosen = [a for a in alts if all(fits(ty, pty) for (_, ty), pty in zip(vals, a.get("args", [None] * len(args))))
                  and all(vals[k][0] == txt for k, txt in a.get("require", {}).items())]
        if not chosen:
            self.bad("arguments of `%s` have types %s, the call table expects %s" % (path, [ty for _, ty in vals], [a.get("args") for a in alts]))
        ent = chosen[0]
        avals = []
        for (t, ty), pty in zip(vals, ent.get("args", [None] * len(args))):
            if ty == "lit": t = self.lit(t, "lit", pty or "usize")
            avals.append(t)
        ent2 = dict(ent)
        if ent.get("ret") == "self": ent2["ret"] = self.selfty
        if ent.get("out"):
            # a call with `&mut` arguments: the model function returns their new values (and the return value); an argument
            # `&mut v[i]` is read before the call (above) and written back after it
            names, later, retname = [], [], None
            for o in ent["out"]:
                if o == "ret": retname = self.fresh("r"); names.append(retname); continue
                pl = strip(args[int(o[3:])])
                if pl[0] == "var":
                    v = env.lookup(pl[1])
                    if v is None: self.bad("unknown variable `%s`" % pl[1])
                    names.append(v.g); self.ctx.note(v)
                elif pl[0] in ("field", "index"):
                    nv = self.fresh("n"); names.append(nv); later.append((pl, nv, self.place_type(pl, env)))
                else: self.bad("`&mut` argument of `%s` that is not a place" % path)
            t = ent["g"].format(*avals)
            B.append(("bind" if ent.get("fallible") else "let", names_pat(names), g_raw(t if ent.get("fallible") else "(" + t + ")")))
            for pl, nv, pty in later: self.assign_place(pl, nv, pty, env, B)
            return (retname, ent["ret"]) if retname else ("tt", "unit")
        return self.apply_fn(ent2, avals, B)

    def mem_swap(self, args, env, B):
        a, b = strip(args[0]), strip(args[1])
        # read both, then write both (mem::swap of two disjoint places)
        va, ta = self.ex(a, env, B)
        if a[0] != "index":                                  # a pure read: freeze the value before anything is rebound
            n = self.fresh("o"); B.append(("let", ("v", n), g_raw(va))); va = n
        vb, tb_ = self.ex(b, env, B)
        if b[0] != "index":
            n = self.fresh("o"); B.append(("let", ("v", n), g_raw(vb))); vb = n
        if ta != tb_: self.bad("mem::swap of places of different types")
        self.assign_place(a, vb, tb_, env, B)
        self.assign_place(b, va, ta, env, B)
        return ("tt", "unit")

    # ------------------------------------------------------------------ assignment
    def assign_place(self, place, val, tval, env, B):
        """place := val (val is a pure term).  The index expressions of the place are evaluated here."""
        p = strip(place)
        if p[0] == "var":
            v = env.lookup(p[1])
            if v is None: self.bad("assignment to unknown variable `%s`" % p[1])
            if v.ty is None: v.ty = "usize" if tval == "lit" else tval       # `let mut b;` gets the type of its first assignment
            if tval == "lit": tval = v.ty
            if v.ty != tval: self.bad("assignment of a %s to `%s` : %s" % (tval, v.name, v.ty))
            if B and B[-1][0] == "bind" and B[-1][1] == ("v", val) and re.match(r"^[a-z]+[0-9]+$", val):
                B[-1] = ("bind", ("v", v.g), B[-1][2])            # x = f(..) : the fallible step binds x directly
            else:
                B.append(("let", ("v", v.g), g_raw(val)))
            self.ctx.note(v); return
        if p[0] == "index":
            base = strip(p[1])
            owner = self.root_var(p, env)
            bty = self.place_type(base, env)
            if bty in LISTS:
                cur = None
                if base[0] == "index":
                    # a[k][v] = x : the row a[k] is read (index-checked) before v is evaluated; it is written back below
                    cur, _ = self.ex(base, env, B)
                i, ti = self.ex(p[2], env, B)
                if ti not in ("usize", "lit"): self.bad("index of type %s" % (ti,))
                if tval == "lit": tval = LISTS[bty]
                if tval != LISTS[bty]: self.bad("a %s stored into a %s" % (tval, bty))
                if cur is None: cur, _ = self.ex(base, env, [])
                direct = self.tb.FIELDS.get((owner.ty, base[2]), ("", ""))[0] == "{0}" if base[0] == "field" else base[0] == "var"
                if direct and cur == owner.g:                  # x[i] = v  /  x.vec[i] = v : the owner is the list itself
                    B.append(("bind", ("v", owner.g), ("app", "upd", [g_raw(cur), g_raw(i), g_raw(val)])))
                    self.ctx.note(owner, elem_only=True); return
                v = self.fresh("b")
                B.append(("bind", ("v", v), ("app", "upd", [g_raw(cur), g_raw(i), g_raw(val)])))
                self.assign_place(base, v, bty, env, B); return
            if bty == "mat":
                if base[0] != "var": self.bad("matrix element assignment through a non-variable")
                idx = p[2][1] if p[2][0] == "paren" else p[2]
                if idx[0] != "tuple" or len(idx[1]) != 2: self.bad("matrix index that is not a literal pair (i, j)")
                i, ti = self.ex(idx[1][0], env, B); j, tj = self.ex(idx[1][1], env, B)
                if tval != "elem": self.bad("a %s stored into a matrix" % (tval,))
                B.append(("bind", ("v", owner.g), ("app", "mset", [g_raw(owner.g), g_raw(i), g_raw(j), g_raw(val)])))
                self.ctx.note(owner, elem_only=True); return
            self.bad("assignment through an index into a value of type %s" % (bty,))
        if p[0] == "field":
            base = strip(p[1])
            bty = self.place_type(base, env)
            setter = self.tb.SETFIELDS.get((bty, p[2]))
            if setter is None: self.bad("assignment to field `.%s` of a %s" % (p[2], bty))
            cur, _ = self.ex(base, env, [])
            new = setter.format(cur, val)
            self.assign_place(base, new, bty, env, B); return
        self.bad("assignment to an unsupported place expression (%s)" % p[0])

    def place_type(self, e, env):
        t, ty = self.ex(e, env, [])
        return ty

    # ------------------------------------------------------------------ statements (continuation-passing)
    def state_of(self, M):
        return [v.g for v in M]
    def assigned_in(self, run, env):
        """dry run of a piece of translation to find which outer variables it assigns (in declaration order)"""
        rec = Rec()
        saved_n, saved_ctx, saved_k = self.n, self.ctx, set(getattr(self, "killed", ()))
        try:
            run(rec)
        finally:
            self.n, self.ctx, self.killed = saved_n, saved_ctx, saved_k
        self.last_shape = set(rec.shape)         # of these, the ones assigned otherwise than by single element writes
        self.last_order = list(rec.order)        # in the order of their first assignment
        return [v for v in env.visible() if v in rec]

    def block(self, blk, env, k):
        return self.stmts(blk[1], 0, blk[2], env, k)

    def stmts(self, ss, i, tail, env, k):
        if i == len(ss):
            if tail is None: return k(env, None)
            return self.tail_expr(tail, env, k)
        s = ss[i]
        rest = lambda env2: self.stmts(ss, i + 1, tail, env2, k)
        kind = s[0]
        if kind == "let": return self.let_stmt(s, env, rest)
        if kind == "const":
            B = []; t, ty = self.ex(s[3], env, B)
            if B: self.bad("`const %s` whose value is not a constant expression" % s[1])
            # a compile-time constant: no binder, its uses are replaced by its value
            env2, v = env.declare(s[1], self.gname(s[1]), "usize" if ty == "lit" else ty)
            v.g = t if re.match(r"^[0-9]+$", t) else "(" + t + ")"
            return rest(env2)
        if kind == "assign": return self.assign_stmt(s, env, rest)
        if kind == "for": return self.for_stmt(s, env, rest)
        if kind == "while":
            t = self.counter_while(s, ss, i, tail, env, rest)
            return t if t is not None else self.while_stmt(s, env, rest)
        if kind == "return":
            if s[1] is None: return self.ctx.ret(env, None)
            B = []; v = self.ex(s[1], env, B); return wrap(B, self.ctx.ret(env, v))
        if kind == "continue": return self.ctx.cont(env)
        if kind == "break": self.bad("`break`")
        if kind == "expr":
            e = s[1]
            if e[0] == "if": return self.if_stmt(e, env, rest)
            if e[0] == "macro" and e[1] in ("panic", "unreachable"): return ("panic", "Guard")
            if e[0] == "macro" and e[1] in ("println", "print", "eprintln", "debug_assert", "assert"): 
                if e[1] in ("println", "print", "eprintln"): return rest(env)
                self.bad("macro `%s!`" % e[1])
            if e[0] == "ret_expr":
                if e[1] is None: return self.ctx.ret(env, None)
                B = []; v = self.ex(e[1], env, B); return wrap(B, self.ctx.ret(env, v))
            if e[0] == "cont_expr": return self.ctx.cont(env)
            if e[0] == "block": return self.block(e[1], env, lambda env2, v: rest(env.merge(env2)))
            if e[0] in ("mcall", "call"):
                blk = self.inline_helper(e, env)
                if blk is not None: return self.inlined(blk, env, lambda env2, v: rest(env.merge(env2)))
            B = []
            if e[0] == "mcall": t, ty = self.mcall(e, env, B, stmt=True)
            else: t, ty = self.ex(e, env, B)
            return wrap(B, rest(env))
        self.bad("statement form `%s`" % kind)

    def scope_closure(self, e):
        """std::thread::scope(|s| { BODY }) -> (name of s, BODY) or None"""
        if e[0] == "call" and e[1][0] == "path" and "::".join(e[1][1]) in ("std::thread::scope", "thread::scope") and len(e[2]) == 1:
            clo = e[2][0]
            if clo[0] == "closure" and len(clo[1]) == 1 and clo[1][0][0] == "pvar" and clo[2][0] == "block":
                if contains_return(clo[2][1]): self.bad("`return` inside the closure of thread::scope")
                return clo[1][0][1], clo[2][1]
            self.bad("thread::scope(..) with an argument that is not `|s| { .. }`")
        return None

    def tail_expr(self, e, env, k):
        sc = self.scope_closure(e)
        if sc is not None:
            # the value of thread::scope(|s| BODY) is the value of BODY (all workers are joined when it ends)
            env2, sv = env.declare(sc[0], self.gname(sc[0]), "scope")
            return self.block(sc[1], env2, lambda env3, v: k(env.merge(env3), v))
        if e[0] == "if" and (e[3] is None or e[2][2] is None):       # a unit `if` in tail position
            return self.if_stmt(e, env, lambda env2: k(env2, None))
        if e[0] == "if":
            e = self.canon_if(e, env)
            def plain(blk):
                t = blk[2]
                return not blk[1] and t is not None and t[0] not in ("if", "match", "ret_expr", "cont_expr", "block") \
                       and not (t[0] == "macro" and t[1] in ("panic", "unreachable"))
            if not (plain(e[2]) and plain(e[3])):
                # a value `if` in tail position whose arms are blocks: each arm continues with the continuation of the block
                # (`if c { return a; } rest` and `if c { a } else { rest }` are the same term)
                B = []
                c, tc = self.ex(e[1], env, B)
                if tc != "bool": self.bad("`if` condition of type %s" % (tc,))
                kk = lambda env2, v: k(env.merge(env2), v)
                return wrap(B, ("if", c, self.block(e[2], env, kk), self.block(e[3], env, kk)))
        if e[0] == "macro" and e[1] in ("panic", "unreachable"): return ("panic", "Guard")
        if e[0] == "ret_expr":
            if e[1] is None: return self.ctx.ret(env, None)
            B = []; v = self.ex(e[1], env, B); return wrap(B, self.ctx.ret(env, v))
        if e[0] == "match":
            # match <option> { Some(x) => <expr | return expr>, None => <expr | return expr> } in tail position
            B = []
            sc, ts = self.ex(e[1], env, B)
            arms = e[2]
            some = [a for a in arms if a[0][0] == "pctor" and a[0][1] == "Some" and a[0][2][0] == "pvar"]
            none = [a for a in arms if a[0][0] == "pvar" and a[0][1] in ("None", "_")]
            if not (isinstance(ts, tuple) and ts[0] == "opt") or len(arms) != 2 or len(some) != 1 or len(none) != 1:
                self.bad("`match` in tail position that is not Some(x) / None on an Option")
            env_s, xv = env.declare(some[0][0][2][1], self.gname(some[0][0][2][1]), ts[1])
            return wrap(B, ("match", sc, [("Some %s" % xv.g, self.tail_expr(some[0][1], env_s, k)),
                                          ("None", self.tail_expr(none[0][1], env, k))]))
        if e[0] in ("mcall", "call"):
            blk = self.inline_helper(e, env)
            if blk is not None: return self.inlined(blk, env, lambda env2, v: k(env.merge(env2), None))
        B = []
        if e[0] == "mcall": v = self.mcall(e, env, B, stmt=True)
        else: v = self.ex(e, env, B)
        if v[1] == "unit": v = None
        return wrap(B, k(env, v))

    # ------------------------------------------------------------------ private helper methods are inlined (see the header)
    def inlined(self, blk, env, k):
        self.inline_depth = getattr(self, "inline_depth", 0) + 1
        try:
            return self.block(blk, env, k)
        finally:
            self.inline_depth -= 1

    def inline_helper(self, e, env):
        """x.helper(args) as a statement, where `helper` is not in the call table but is a method of the same impl block, returns
        (), contains no `return`, and every `&mut` argument is `&mut <variable>`:  the block
             { let p1 = arg1; ..; BODY[self := x, q := the variable passed for a `&mut` parameter q] }
        with all binders of BODY renamed apart.  None when the call is not of this kind (the call table applies, or refuses)."""
        items, hdr = getattr(self, "items", None), getattr(self, "impl_header", None)
        if items is None or hdr is None or getattr(self, "inline_depth", 0) >= 3: return None
        if e[0] == "call":
            # Self::helper(args): an associated function of the same impl block (no receiver)
            if e[1][0] != "path" or len(e[1][1]) != 2 or e[1][1][0] != "Self": return None
            name, args, rv = e[1][1][1], e[2], None
            if self.spec.get("paths", {}).get(("Self::" + name, len(args))) or self.tb.PATHS.get(("Self::" + name, len(args))): return None
        else:
            recv, name, args = e[1], e[2], e[3]
            rv = strip(recv)
            if rv[0] != "var" or env.lookup(rv[1]) is None: return None
            tr = env.lookup(rv[1]).ty
            if tr != self.selfty or not isinstance(tr, str): return None
            key = (tr, name, len(args))
            if self.spec.get("methods", {}).get(key) or self.tb.METHODS.get(key): return None
            if name in ("clone", "to_owned", "to_vec", "collect", "position", "unwrap", "spawn", "join", "sort_by_key", "iter", "map"): return None
        cands = [f for it in items if it[0] == "impl" and _norm(it[1]) == _norm(hdr) for f in it[2] if f[1] == name]
        if len(cands) != 1: return None
        fn = cands[0]
        params = fn[2]
        has_self = bool(params) and params[0][0] == "self"
        if has_self != (rv is not None) or fn[3] is not None or len(params) - (1 if has_self else 0) != len(args): return None
        body = fn_body_ast(fn, "%s (inlined into %s)" % (name, self.what))
        if contains_return(body): return None
        self.inline_count = getattr(self, "inline_count", 0) + 1
        suffix = "__h%d" % self.inline_count
        mapping = {b: b + suffix for b in binders_of(body, set())}
        if rv is not None and rv[1] != "self": mapping["self"] = rv[1]
        lets = []
        for (pname, pty, pmut), a in zip(params[1:] if has_self else params, args):
            if pty.replace(" ", "").startswith("&mut"):
                au = unparen(a)
                if not (au[0] == "un" and au[1] == "&mut" and unparen(au[2])[0] == "var" and env.lookup(unparen(au[2])[1]) is not None): return None
                mapping[pname] = unparen(au[2])[1]
            else:
                mapping[pname] = pname + suffix
                lets.append(("let", ("pvar", pname + suffix, pmut), pty, a))
        body2 = rename_vars(body, mapping)
        return ("blk", lets + list(body2[1]), body2[2])

    def let_stmt(self, s, env, rest):
        pat, ty, e = s[1], s[2], s[3]
        if e is None:
            # `let mut x: T;` -- declared, assigned later (Rust's definite-assignment analysis guarantees that no path reads
            # it before): no Gallina binder here; the first assignment on each path binds it
            if pat[0] != "pvar": self.bad("`let` without initialiser and with a pattern")
            dty = rust_type(ty, self.selfty) if ty is not None else None     # `let mut b;`: typed by its first assignment
            if isinstance(dty, tuple) and dty[0] == "unknown": self.bad("`let %s: %s;` of unsupported type" % (pat[1], dty[1]))
            env2, v = env.declare(pat[1], self.gname(pat[1]), dty, uninit=True)
            return rest(env2)
        if e[0] == "match": return self.let_match(s, env, rest)
        if e[0] == "array" and pat[0] == "pvar" and pat[1] in self.spec.get("arrays", {}):
            # a table of float literals that the model takes as a parameter (its VALUES are tied by gen/Params.v)
            g, n = self.spec["arrays"][pat[1]]
            if len(e[1]) != n or any(x[0] != "num" for x in e[1]): self.bad("array `%s` is not a table of %d literals" % (pat[1], n))
            env2, v = env.declare(pat[1], self.gname(pat[1]), "vec"); v.g = g
            return rest(env2)
        B = []
        t, tv = self.ex(e, env, B)
        if pat[0] == "pvar":
            ov = self.spec.get("locals", {}).get(pat[1])
            if ov is not None and tv in LISTS and ov in LISTS and t.startswith("(@nil"):
                t = "(@nil %s)" % gtype(LISTS[ov]); tv = ov
            if tv == "lit":
                dty = rust_type(ty, self.selfty) if ty else "usize"
                t = self.lit(t, "lit", dty); tv = dty
            env2, v = env.declare(pat[1], self.gname(pat[1]), tv)
            if ov is None and isinstance(tv, str) and tv in LISTS and t.startswith("(@nil") and not B:
                # an empty vector whose element type the table does not give: typed by the first `.push(x)` on it (mcall); the
                # binder is built after the rest of the block has been translated, with the type found there
                v.flex = True
                body = rest(env2)
                return ("let", ("v", v.g), g_raw("(@nil %s)" % gtype(LISTS[v.ty])), body)
            # a let of a plain value is a Gallina let; if the initialiser was a single fallible step, rename its binder
            if B and B[-1][0] == "bind" and B[-1][1] == ("v", t):
                B[-1] = ("bind", ("v", v.g), B[-1][2])
            else:
                B.append(("let", ("v", v.g), g_raw(t)))
            return wrap(B, rest(env2))
        if pat[0] == "ptuple":
            if not (isinstance(tv, tuple) and tv[0] == "tuple" and len(tv[1]) == len(pat[1])): self.bad("tuple pattern against a value of type %s" % (tv,))
            env2, names = env, []
            for p, pty in zip(pat[1], tv[1]):
                if p[0] != "pvar": self.bad("nested pattern")
                env2, v = env2.declare(p[1], self.gname(p[1]), pty); names.append(v.g)
            # `let (a, b) = f(..)` where f is a mutating call: merge with the binder emitted by the call
            last = B[-1] if B else None
            if last and last[1][0] == "tup" and last[1][1][-1] == t:
                B[-1] = (last[0], ("tup", last[1][1][:-1] + names), last[2])
            elif last and last[0] == "bind" and last[1] == ("v", t):
                B[-1] = ("bind", ("v", t), last[2]); B.append(("let", ("tup", names), g_raw(t)))
            else:
                B.append(("let", ("tup", names), g_raw(t)))
            return wrap(B, rest(env2))
        self.bad("let pattern")

    def let_match(self, s, env, rest):
        """let x = match <opt> { Ok(d) => d, Err(_) => { return e; } }"""
        pat, e = s[1], s[3]
        B = []
        sc, ts = self.ex(e[1], env, B)
        if not (isinstance(ts, tuple) and ts[0] == "opt") or pat[0] != "pvar": self.bad("`match` on a value of type %s" % (ts,))
        arms = e[2]
        okarm = [a for a in arms if a[0][0] == "pctor" and a[0][1] in ("Ok", "Some")]
        errarm = [a for a in arms if (a[0][0] == "pctor" and a[0][1] in ("Err",)) or (a[0][0] == "pvar" and a[0][1] in ("None", "_"))]
        if len(arms) != 2 or len(okarm) != 1 or len(errarm) != 1: self.bad("`match` arms other than Ok/Err (Some/None)")
        p_in = okarm[0][0][2]
        if p_in[0] != "pvar": self.bad("nested pattern in match arm")
        env_ok, dv = env.declare(p_in[1], self.gname(p_in[1]), ts[1])
        Bo = []
        val, tval = self.ex(okarm[0][1], env_ok, Bo)
        env2, xv = env_ok.declare(pat[1], self.gname(pat[1]), tval)
        Bo.append(("let", ("v", xv.g), g_raw(val)))
        ok_t = wrap(Bo, rest(env2))
        eb = errarm[0][1]
        eb = eb[1] if eb[0] == "block" else ("blk", [], eb)
        if not always_exits(eb): self.bad("`match` whose Err arm does not return")
        err_t = self.block(eb, env, lambda env3, v: self.bad("unreachable"))
        return wrap(B, ("match", sc, [("Some %s" % dv.g, ok_t), ("None", err_t)]))

    def assign_stmt(self, s, env, rest):
        op, place, rhs = s[1], s[2], s[3]
        B = []
        if op == "=":
            t, ty = self.ex(rhs, env, B)
            self.assign_place(place, t, ty, env, B)
            pl = strip(place)
            if pl[0] == "var" and env.lookup(pl[1]) is not None: env = env.init(env.lookup(pl[1]))
            return wrap(B, rest(env))
        # compound assignment: place first (read), then the right operand, then the write
        bop = op[0]
        p = strip(place)
        if p[0] in ("var", "field"):
            lt = self.place_type(p, env)
            Bp, saved_n = [], self.n
            rt = self.ex(rhs, env, Bp)[1]
            self.n = saved_n
            ent = self.tb.ASSIGNOPS.get((op, lt, rt))
            if ent is not None:                              # an overloaded `op=` between non-scalar operands
                cur, _ = self.ex(p, env, B)
                r, _ = self.ex(rhs, env, B)
                t, ty = self.apply_fn(ent, [cur, r], B)
                self.assign_place(p, t, ty, env, B)
                return wrap(B, rest(env))
        if p[0] == "var":
            e2 = ("bin", bop, p, rhs)
            t, ty = self.ex(e2, env, B)
            self.assign_place(p, t, ty, env, B)
            return wrap(B, rest(env))
        if p[0] == "index":
            base = strip(p[1])
            bty = self.place_type(base, env)
            # evaluate the index expressions once, bind them, and reuse them for the read and the write
            if bty in LISTS:
                i, ti = self.ex(p[2], env, B)
                idx_e = ("rawtext", i, "usize")
                place2 = ("index", base, idx_e)
            elif bty == "mat":
                idx = p[2][1] if p[2][0] == "paren" else p[2]
                if idx[0] != "tuple" or len(idx[1]) != 2: self.bad("matrix index that is not a literal pair (i, j)")
                i, ti = self.ex(idx[1][0], env, B); j, tj = self.ex(idx[1][1], env, B)
                place2 = ("index", base, ("tuple", [("rawtext", i, "usize"), ("rawtext", j, "usize")]))
            else: self.bad("compound assignment through an index into a %s" % (bty,))
            if bty in LISTS and LISTS[bty] in ("usize", "isize"):
                # primitive operands: the right operand is evaluated before the place is read (Rust reference, compound
                # assignment on primitive types)
                r, tr = self.ex(rhs, env, B)
                old, to = self.ex(place2, env, B)
            else:
                old, to = self.ex(place2, env, B)
                r, tr = self.ex(rhs, env, B)
            new, tn = self.binop(("bin", bop, ("rawtext", old, to), ("rawtext", r, tr)), env, B)
            self.assign_place(place2, new, tn, env, B)
            return wrap(B, rest(env))
        if p[0] == "field":
            e2 = ("bin", bop, p, rhs)
            t, ty = self.ex(e2, env, B)
            self.assign_place(p, t, ty, env, B)
            return wrap(B, rest(env))
        self.bad("compound assignment to an unsupported place")

    def if_stmt(self, e, env, rest):
        e0 = e
        e = self.canon_if(e, env)
        B = []
        c, tc = self.ex(e[1], env, B)
        if tc != "bool": self.bad("`if` condition of type %s" % (tc,))
        th = e[2]; el = e[3] if e[3] is not None else ("blk", [], None)
        if el[1] == [] and el[2] is not None and el[2][0] == "if": pass
        unreachable = lambda env2, v: self.bad("internal: continuation of a diverging block")
        tex, eex = always_exits(th), always_exits(el)
        if tex and eex:
            return wrap(B, ("if", c, self.block(th, env, unreachable), self.block(el, env, unreachable)))
        if tex:
            return wrap(B, ("if", c, self.block(th, env, unreachable), self.block(el, env, lambda env2, v: rest(env.merge(env2)))))
        if eex:
            return wrap(B, ("if", c, self.block(th, env, lambda env2, v: rest(env.merge(env2))), self.block(el, env, unreachable)))
        # both branches fall through: join on the variables they assign
        ends = []
        def run(rec):
            self.ctx = self.ctx.sub(record=rec)
            self.block(th, env, lambda env2, v: (ends.append(env2), g_ok(g_raw("tt")))[1])
            self.block(el, env, lambda env2, v: (ends.append(env2), g_ok(g_raw("tt")))[1])
        outer_ctx = self.ctx
        M = self.assigned_in(run, env); shape, order = self.last_shape, self.last_order
        # a variable declared without initialiser takes part in the join only if every path that falls through assigns it
        # (otherwise it is still unassigned afterwards and the assignments are local to their branch)
        M = [v for v in M if v not in env.uninit or all(v not in e2.uninit for e2 in ends)]
        M = self.state_order(M, order, e0)
        env_after = env
        for v in M: env_after = env_after.init(v)
        names = self.state_of(M)
        escape = lambda *a: self.bad("`return` / `continue` inside an `if` whose other paths fall through (join needed)")
        self.ctx = outer_ctx.sub(ret=escape, cont=escape)
        try:
            a = self.block(th, env, lambda env2, v: g_ok(g_raw(names_term(names))))
            b = self.block(el, env, lambda env2, v: g_ok(g_raw(names_term(names))))
        finally:
            self.ctx = outer_ctx
        for v in M: self.ctx.note(v, elem_only=(v not in shape))      # element writes stay element writes through a nested construct
        return wrap(B, mk_bind(names_pat(names), ("if", c, a, b), rest(env_after)))

    def for_stmt(self, s, env, rest, after=None, site=None):
        """site: the statement of the source this loop stands for, when s is a canonicalised copy (state_order)"""
        pat, it, body = s[1], strip(s[2]), s[3]
        cf = self.iter_for(pat, s[2], body, env)
        if cf is not None: return self.for_stmt(cf, env, rest, after, site if site is not None else s)
        if pat[0] != "pvar": self.bad("`for` with a tuple pattern")
        cd = self.countdown_for(pat, it, body, env)
        if cd is not None: return self.for_stmt(cd, env, rest, after, site if site is not None else s)
        if it[0] == "mcall" and it[2] == "drain" and len(it[3]) == 1 and strip(it[3][0])[0] == "range" \
           and strip(it[3][0])[1] is None and strip(it[3][0])[2] is None:
            return self.for_in_stmt(pat, it[1], body, env, rest, drain=True, site=site if site is not None else s)
        if it[0] == "var" and env.lookup(it[1]) is not None and env.lookup(it[1]).ty in LISTS:
            return self.for_in_stmt(pat, it, body, env, rest, drain=False, site=site if site is not None else s)
        rev = False
        if it[0] == "mcall" and it[2] == "rev" and not it[3]:
            rev = True; it = strip(it[1])
        if it[0] != "range" or it[1] is None or it[2] is None:
            self.bad("`for` over something that is not a range lo..hi / lo..=hi / (lo..hi).rev()")
        B = []
        lo, tl = self.ex(it[1], env, B); hi, th = self.ex(it[2], env, B)
        signed = "isize" in (tl, th)
        if signed:
            if rev or it[3]: self.bad("reversed / inclusive `for` over an isize range")
            lo, hi = self.lit(lo, tl, "isize"), self.lit(hi, th, "isize")
        elif tl not in ("usize", "lit") or th not in ("usize", "lit"): self.bad("`for` range over %s..%s" % (tl, th))
        if it[3]: hi = "(%s + 1)%%nat" % hi
        env_i, iv = env.declare(pat[1], self.gname(pat[1]), "isize" if signed else "usize")
        def run(rec):
            self.ctx = self.ctx.sub(record=rec, cont=lambda env2: g_ok(g_raw("tt")))
            self.block(body, env_i, lambda env2, v: g_ok(g_raw("tt")))
        outer_ctx = self.ctx
        M = self.assigned_in(run, env); shape, order = self.last_shape, self.last_order
        # a variable that is still unassigned at the loop head is assigned in every pass before it is read and is not read
        # after the loop (definite assignment): it is local to the body, not part of the loop state
        M = [v for v in M if v not in env.uninit]
        M = self.state_order(M, order, site if site is not None else s)
        names = self.state_of(M)
        early = contains_return(body)
        if early and (rev or signed): self.bad("`return` inside a reversed / isize `for` loop")
        st = g_ok(g_raw("(inl %s)" % names_term(names))) if early else g_ok(g_raw(names_term(names)))
        if early:
            inner_ret_raw = lambda t: g_ok(g_raw("(inr %s)" % t))
            self.ctx = outer_ctx.sub(ret=lambda env2, v: inner_ret_raw(self.assemble(env2, v)), cont=lambda env2: st, ret_raw=inner_ret_raw)
        else:
            noret = lambda *a: self.bad("`return` inside a `for` loop")
            self.ctx = outer_ctx.sub(ret=noret, cont=lambda env2: st)
        try:
            bt = self.block(body, env_i, lambda env2, v: st)
        finally:
            self.ctx = outer_ctx
        sty = gtype(("tuple", [v.ty for v in M])) if len(M) > 1 else (gtype(M[0].ty) if M else "unit")
        if len(M) > 1:
            sv = self.fresh("s")
            fun = ("fun", [(iv.g, None), (sv, sty)], mk_let(("tup", names), g_raw(sv), bt))
        elif len(M) == 1:
            fun = ("fun", [(iv.g, None), (names[0], sty)], bt)
        else:
            fun = ("fun", [(iv.g, None), ("_", "unit")], bt)
        loop = ("app", "for_z" if signed else ("for_rev" if rev else "for_"), [g_raw(lo), g_raw(hi), fun, g_raw(names_term(names))])
        for v in M: self.ctx.note(v, elem_only=(v not in shape))      # element writes stay element writes through a nested construct
        B2 = after(lo, hi) if after is not None else []          # a canonicalised counter loop: the final value of its counter
        if early:
            loop = ("app", "for_ret", loop[2])
            o, r = self.fresh("o"), self.fresh("r")
            pat_inl = "inl " + (names_term(names) if names else "_")
            return wrap(B, ("bind", ("v", o), loop, ("match", o, [(pat_inl, wrap(B2, rest(env))), ("inr %s" % r, outer_ctx.ret_raw(r))])))
        return wrap(B, mk_bind(names_pat(names), loop, wrap(B2, rest(env))))

    # ------------------------------------------------------------------ the order of the state tuple (see the header, C8)
    def number_sites(self, body):
        """loops and `if`s of the function body, numbered separately in source order: id(node) -> ('loop' | 'if', k)"""
        self.sites, counters = {}, {"loop": 0, "if": 0}
        def walk(n):
            if isinstance(n, tuple):
                if n and n[0] in ("for", "while", "if") and len(n) >= 3:
                    kind = "if" if n[0] == "if" else "loop"
                    self.sites[id(n)] = (kind, counters[kind]); counters[kind] += 1
                for x in n[1:]: walk(x)
            elif isinstance(n, list):
                for x in n: walk(x)
        walk(body)
        self.body_ast = body                      # keeps the nodes alive: the ids stay valid

    def state_order(self, M, order, node):
        """M: the variables a loop / a falling-through `if` threads, in DECLARATION order (what the translation used from the start).
        The canonical order is the order of their first assignment inside the construct, which does not depend on where and in
        which order the variables were declared; the table pins, per construct of the pristine source, the permutation from the
        canonical to the declaration order (driver/translate_src.py --pin-state-orders), so that moving a declaration (to the
        point of first use, or past another one) leaves the tuple as it was.  Without an entry: declaration order, as before.
        Any order is a correct translation (the same list is used for the initial state, the pattern and the result)."""
        if len(M) < 2: return M
        site = getattr(self, "sites", {}).get(id(node)) if node is not None else None
        C = [v for v in order if v in M]
        if site is None or len(C) != len(M): return M
        if getattr(self, "pins", None) is not None:
            self.pins["%s%d" % site] = [C.index(v) for v in M]
            return M
        perm = (self.spec.get("state_orders") or {}).get("%s%d" % site)
        if perm is None or sorted(perm) != list(range(len(C))): return M
        return [C[i] for i in perm]

    # ------------------------------------------------------------------ canonicalisation of counter loops (see the header)
    def dry(self, run):
        """run a piece of translation for its effects on a recorder only: returns the set of variables it assigns"""
        rec = Rec()
        saved = (self.n, self.ctx, set(getattr(self, "killed", ())), getattr(self, "nwhile", 0))
        try:
            self.ctx = self.ctx.sub(record=rec, cont=lambda env2: g_ok(g_raw("tt")))
            run()
        finally:
            self.n, self.ctx, self.killed, self.nwhile = saved
        return rec

    def loop_effects(self, var, body, env):
        """the outer variables a loop body assigns, `var` being its (usize) loop variable"""
        env_i, iv = env.declare(var, self.gname(var), "usize")
        rec = self.dry(lambda: self.block(body, env_i, lambda env2, v: g_ok(g_raw("tt"))))
        M = ModList(v for v in env.visible() if v in rec)
        M.shape = set(rec.shape)
        return M

    def shape_reads_only(self, e, name, env):
        """every occurrence of the variable in the expression is under .len() / .size() (a list, possibly through a transparent
        wrapper field such as Vector.vec) or .rows() / .cols() / .rows / .cols (a matrix)"""
        def count(n):
            if isinstance(n, tuple):
                return (1 if n[:1] == ("var",) and len(n) == 2 and n[1] == name else 0) + sum(count(x) for x in n[1:])
            if isinstance(n, list): return sum(count(x) for x in n)
            return 0
        def base_is_var(b):
            b = strip(b)
            while b[0] == "field" and (self.tb.FIELDS.get((self.type_of(b[1], env), b[2])) or ("", ""))[0] == "{0}": b = strip(b[1])
            return b == ("var", name)
        def shape(n):
            if isinstance(n, tuple):
                here = 0
                if n[:1] == ("mcall",) and not n[3] and base_is_var(n[1]):
                    t = self.type_of(n[1], env)
                    if (isinstance(t, str) and t in LISTS and n[2] in ("len", "size")) or (t == "mat" and n[2] in ("rows", "cols")): here = 1
                elif n[:1] == ("field",) and n[2] in ("rows", "cols") and strip(n[1]) == ("var", name) and self.type_of(n[1], env) == "mat": here = 1
                return here if here else sum(shape(x) for x in n[1:])
            if isinstance(n, list): return sum(shape(x) for x in n)
            return 0
        return count(e) == shape(e)

    def invariant_in(self, e, env, M):
        """the expression has the same value (or the same panic) whenever it is evaluated while only the variables M change: it reads
        none of them -- except the length of a list / the dimensions of a matrix that the code only changes by writing single
        elements in place (upd keeps the length, mset keeps rows and cols) -- and evaluating it assigns nothing"""
        for x in vars_of(e):
            v = env.lookup(x)
            if v is not None and v in M:
                if v in getattr(M, "shape", M) or not self.shape_reads_only(e, x, env): return False
        return not self.dry(lambda: self.ex(e, env, []))

    def type_of(self, e, env):
        out = []
        self.dry(lambda: out.append(self.ex(e, env, [])[1]))
        return out[0]

    def iter_for(self, pat, it, body, env):
        """(C9) loops over the elements of a list are index loops:
             for x in E.iter() | E.iter_mut() | &E | &mut E   { BODY }   ==>  for k in 0..E.len() { BODY[x := E[k]] }
             for (i, x) in E.iter().enumerate()               { BODY }   ==>  for i in 0..E.len() { BODY[x := E[i]] }
             for (a, b) in E.iter().zip(F.iter())             { BODY }   ==>  for k in 0..min(E.len(), F.len()) { BODY[a := E[k], b := F[k]] }
           E, F places (a variable or a field chain) of a list type.  The element variable is a reference into E: `*x`, `x.m()`,
           `x.clone()` read E[k], `*x = v` / `*x op= v` (iter_mut) write E[k]; while the iterator is alive the borrow rules forbid
           any other access to E that could change it (iter) resp. any other access at all (iter_mut), and an element write keeps
           the length, so the index reads and writes E[k], k < E.len(), are in range.  None when the loop is not of this shape."""
        def src_of(e):
            e = unparen(e)
            if e[0] == "mcall" and e[2] in ("iter", "iter_mut") and not e[3]: p = strip(e[1])
            elif e[0] == "un" and e[1] in ("&", "&mut"): p = strip(e[2])
            else: return None
            q = p
            while q[0] == "field": q = strip(q[1])
            if q[0] != "var" or env.lookup(q[1]) is None: return None
            ty = self.type_of(p, env)
            if not (isinstance(ty, str) and ty in LISTS): return None
            m = "len" if (ty, "len", 0) in self.tb.METHODS or (ty, "len", 0) in self.spec.get("methods", {}) else "size"
            return p, ("mcall", p, m, [])
        e = unparen(it)
        elems = []                                  # (element variable, source place)
        if pat[0] == "pvar":
            a = src_of(e)
            if a is None: return None
            k = pat[1] + "__k"; elems.append((pat[1], a[0])); bound = a[1]
        elif pat[0] == "ptuple" and len(pat[1]) == 2 and all(q[0] == "pvar" for q in pat[1]):
            if e[0] == "mcall" and e[2] == "enumerate" and not e[3]:
                a = src_of(e[1])
                if a is None: return None
                k = pat[1][0][1]; elems.append((pat[1][1][1], a[0])); bound = a[1]
            elif e[0] == "mcall" and e[2] == "zip" and len(e[3]) == 1:
                a, b = src_of(e[1]), src_of(e[3][0])
                if a is None or b is None: return None
                k = pat[1][0][1] + "__k"; elems += [(pat[1][0][1], a[0]), (pat[1][1][1], b[0])]
                bound = ("call", ("path", ["std", "cmp", "min"]), [a[1], b[1]])
            else: return None
        else: return None
        names = [x for x, _ in elems]
        if k in names or len(set(names)) != len(names): return None
        if k.endswith("__k") and mentions(body, k): return None          # the index variable we introduce must be fresh
        def rebinds(n):
            if isinstance(n, tuple):
                if n and n[0] == "pvar" and len(n) == 3 and n[1] in names: return True
                return any(rebinds(x) for x in n)
            if isinstance(n, list): return any(rebinds(x) for x in n)
            return False
        if rebinds(body): return None
        def subst(n):
            if isinstance(n, tuple):
                if n and n[0] == "var" and len(n) == 2:
                    for x, src in elems:
                        if n[1] == x: return ("index", src, ("var", k))
                    return n
                return tuple(subst(x) for x in n)
            if isinstance(n, list): return [subst(x) for x in n]
            return n
        return ("for", ("pvar", k, False), ("range", ("num", "0"), bound, False), subst(body))

    def countdown_for(self, pat, it, body, env):
        """for K in 0..N { let I = N - 1 - K; BODY }   ==>   for I in (0..N).rev() { BODY }
        when K does not occur in BODY, BODY does not assign I and N is invariant in BODY: in pass K (0 <= K < N) the two
        checked subtractions N - 1 and (N - 1) - K succeed and I takes the values N-1, .., 0 in this order."""
        if it[0] != "range" or it[1] is None or it[2] is None or it[3] or unparen(it[1]) not in (("num", "0"), ("num", "0usize")): return None
        if not body[1] or body[1][0][0] != "let": return None
        lt = body[1][0]
        if lt[1][0] != "pvar" or lt[3] is None: return None
        I, K, e = lt[1][1], pat[1], unparen(lt[3])
        if I == K or K == "_": return None
        if not (e[0] == "bin" and e[1] == "-" and unparen(e[3]) == ("var", K)): return None
        e1 = unparen(e[2])
        if not (e1[0] == "bin" and e1[1] == "-" and is_one(e1[3]) and ast_eq(e1[2], it[2])): return None
        body2 = ("blk", body[1][1:], body[2])
        if mentions(body2, K) or assigns(body2, I) or mentions(it[2], I) or mentions(it[2], K): return None
        if not self.invariant_in(it[2], env, self.loop_effects(I, body2, env)): return None
        return ("for", ("pvar", I, False), ("mcall", ("paren", it), "rev", []), body2)

    def counter_while(self, s, ss, idx, tail, env, rest):
        """`while` loops whose trip count is fixed by a counter are `for` loops (the fuel comes from the counter, not from the table):
             while i < H { BODY; i += 1; }      ==>  for i in i..H { BODY }        ; i = max(i, H)     (no `continue` in BODY)
             while i < H { i += 1; BODY }       ==>  for k in i..H { let i = k + 1; BODY }   ; i = max(i, H)
             while i > L { i -= 1; BODY }       ==>  for i in (L..i).rev() { BODY }  ; i = min(i, L)
           (`<=` as an inclusive range; `i != 0` as `i > 0`; the bound on either side) provided that BODY does not assign i and the
           bound is invariant in BODY.  Returns None when the loop is not of this shape (the table-driven translation applies)."""
        if (self.spec.get("while") or {}).get(getattr(self, "nwhile", 0) + 1) is not None: return None       # the table wins
        cond, body = unparen(s[1]), s[2]
        if body[2] is not None:                        # the body of a `while` has type (): a last expression without `;` is a statement
            body = ("blk", list(body[1]) + [("expr", body[2], False)], None)
        if cond[0] != "bin" or not body[1]: return None
        flip = {"<": ">", ">": "<", "<=": ">=", ">=": "<=", "!=": "!="}
        op, a, b = cond[1], unparen(cond[2]), unparen(cond[3])
        if op not in flip: return None
        def counter(x, other):
            return x[0] == "var" and not mentions(other, x[1]) and env.lookup(x[1]) is not None \
                   and env.lookup(x[1]).ty == "usize" and env.lookup(x[1]) not in env.uninit
        if counter(a, b): name, bound = a[1], b
        elif counter(b, a): name, bound, op = b[1], a, flip[op]
        else: return None
        v, st = env.lookup(name), body[1]
        if op in ("<", "<="):
            if is_step(st[-1], name, "+") and len(st) > 1: kind, inner = "up", st[:-1]
            elif is_step(st[0], name, "+"): kind, inner = "up1", st[1:]
            else: return None
        elif op == ">" or (op == "!=" and unparen(bound) in (("num", "0"), ("num", "0usize"))):
            if not is_step(st[0], name, "-"): return None
            kind, inner = "down", st[1:]
        else: return None
        if assigns(inner, name): return None
        if kind == "up" and continues_here(inner): return None
        loopvar = name
        if kind == "up1":
            loopvar = "_"
            if mentions(inner, name):
                loopvar = name + "__k"
                inner = [("let", ("pvar", name, False), None, ("bin", "+", ("var", loopvar), ("num", "1")))] + list(inner)
        inner_blk = ("blk", list(inner), None)
        M = self.loop_effects(loopvar, inner_blk, env)
        if v in M or not self.invariant_in(bound, env, M): return None
        # is the counter dead after the loop?  (declared in this very block and never mentioned again)
        dead = any(x[0] == "let" and pat_binds(x[1], name) for x in ss[:idx]) and not mentions(ss[idx + 1:], name) \
               and (tail is None or not mentions(tail, name))
        if kind == "down": it = ("mcall", ("paren", ("range", bound, ("var", name), False)), "rev", [])
        else: it = ("range", ("var", name), bound, op == "<=")
        def after(lo, hi):
            self.ctx.note(v)
            if dead: return []
            return [("let", ("v", v.g), g_raw("(Nat.min %s %s)" % (hi, lo) if kind == "down" else "(Nat.max %s %s)" % (lo, hi)))]
        return self.for_stmt(("for", ("pvar", loopvar, False), it, inner_blk), env, rest, after=after, site=s)

    def for_in_stmt(self, pat, src, body, env, rest, drain, site=None):
        """for x in v.drain(..) { body }: the elements in order (for_in, gen/SrcPrelude.v); v is empty afterwards"""
        B = []
        lst, tl = self.ex(src, env, B)
        if tl not in LISTS: self.bad("`for .. in` over a value of type %s" % (tl,))
        if contains_return(body): self.bad("`return` inside a `for` over the elements of a vector")
        env_i, iv = env.declare(pat[1], self.gname(pat[1]), LISTS[tl])
        def run(rec):
            self.ctx = self.ctx.sub(record=rec, cont=lambda env2: g_ok(g_raw("tt")))
            self.block(body, env_i, lambda env2, v: g_ok(g_raw("tt")))
        outer_ctx = self.ctx
        M = self.assigned_in(run, env); shape, order = self.last_shape, self.last_order
        M = [v for v in M if v not in env.uninit]
        M = self.state_order(M, order, site)
        owner = self.root_var(src, env)
        if owner in M: self.bad("the vector a `for` loop drains is assigned inside the loop")
        names = self.state_of(M)
        st = g_ok(g_raw(names_term(names)))
        noret = lambda *a: self.bad("`return` inside a `for` loop")
        self.ctx = outer_ctx.sub(ret=noret, cont=lambda env2: st)
        try:
            bt = self.block(body, env_i, lambda env2, v: st)
        finally:
            self.ctx = outer_ctx
        sty = gtype(("tuple", [v.ty for v in M])) if len(M) > 1 else (gtype(M[0].ty) if M else "unit")
        if len(M) > 1:
            sv = self.fresh("s")
            fun = ("fun", [(iv.g, None), (sv, sty)], mk_let(("tup", names), g_raw(sv), bt))
        elif len(M) == 1:
            fun = ("fun", [(iv.g, None), (names[0], sty)], bt)
        else:
            fun = ("fun", [(iv.g, None), ("_", "unit")], bt)
        loop = ("app", "for_in", [g_raw(lst), fun, g_raw(names_term(names))])
        for v in M: self.ctx.note(v, elem_only=(v not in shape))      # element writes stay element writes through a nested construct
        B2 = []
        if drain: self.assign_place(src, "(@nil %s)" % gtype(LISTS[tl]), tl, env, B2)
        else:                                               # `for x in v` moves v: it must not be read again
            if not hasattr(self, "killed"): self.killed = set()
            self.killed.add(owner)
        return wrap(B, mk_bind(names_pat(names), loop, wrap(B2, rest(env))))

    def while_stmt(self, s, env, rest):
        """while c { body }  with the fuel bound (and the out-of-fuel outcome) of the table entry of the function:
           while_ret fuel (fun state => <c>; if c then body; WNext state else WDone state) state"""
        self.nwhile = getattr(self, "nwhile", 0) + 1
        wt = (self.spec.get("while") or {}).get(self.nwhile)
        if wt is None: self.bad("`while` loop number %d: no fuel bound in the table" % self.nwhile)
        cond, body = s[1], s[2]
        def run(rec):
            self.ctx = self.ctx.sub(record=rec, cont=lambda env2: g_ok(g_raw("tt")))
            Bc = []; self.ex(cond, env, Bc)
            self.block(body, env, lambda env2, v: g_ok(g_raw("tt")))
        outer_ctx = self.ctx
        saved_w = self.nwhile
        M = self.assigned_in(run, env); shape, order = self.last_shape, self.last_order
        M = [v for v in M if v not in env.uninit]
        M = self.state_order(M, order, s)
        self.nwhile = saved_w
        names = self.state_of(M)
        nxt = g_ok(g_raw("(WNext %s)" % names_term(names)))
        done = g_ok(g_raw("(WDone %s)" % names_term(names)))
        inner_ret_raw = lambda t: g_ok(g_raw("(WRet %s)" % t))
        self.ctx = outer_ctx.sub(ret=lambda env2, v: inner_ret_raw(self.assemble(env2, v)), cont=lambda env2: nxt, ret_raw=inner_ret_raw)
        try:
            Bc = []
            c, tc = self.ex(cond, env, Bc)
            if tc != "bool": self.bad("`while` condition of type %s" % (tc,))
            bt = self.block(body, env, lambda env2, v: nxt)
            self.nwhile = saved_w
        finally:
            self.ctx = outer_ctx
        sty = gtype(("tuple", [v.ty for v in M])) if len(M) > 1 else (gtype(M[0].ty) if M else "unit")
        inner = wrap(Bc, ("if", c, bt, done))
        if len(M) > 1:
            sv = self.fresh("s"); fun = ("fun", [(sv, sty)], mk_let(("tup", names), g_raw(sv), inner))
        else:
            fun = ("fun", [(names[0] if M else "_", sty)], inner)
        fuel = wt["fuel"].format(**{v.name: v.g for v in env.visible()})
        loop = ("app", "while_ret", [g_raw(fuel), fun, g_raw(names_term(names))])
        for v in M: self.ctx.note(v, elem_only=(v not in shape))      # element writes stay element writes through a nested construct
        o, r = self.fresh("o"), self.fresh("r")
        exhaust = wt.get("on_exhaust", "Panic Guard")
        ex_term = ("panic", exhaust[6:]) if exhaust.startswith("Panic ") else outer_ctx.ret_raw(exhaust)
        return ("bind", ("v", o), loop,
                ("match", o, [("Some (inl %s)" % (names_term(names) if names else "_"), rest(env)),
                              ("Some (inr %s)" % r, outer_ctx.ret_raw(r)),
                              ("None", ex_term)]))

    # ------------------------------------------------------------------ functions
    def function(self, fn, impl_header):
        """fn = ('fn', name, params, ret, body) -> (signature text, body term, info)"""
        spec = self.spec
        self.impl_header = impl_header
        self.selfty = spec.get("selfty") or self.infer_selfty(impl_header)
        env = Env()
        gparams, mutparams = [], []
        for p in fn[2]:
            if p[0] == "self":
                env, v = env.declare("self", "self_", self.selfty)
                gparams.append((v.g, gtype(self.selfty)))
                if "mut" in p[1] and "&" in p[1]: mutparams.append("self")
                continue
            name, pty, mut = p
            ty = spec.get("params", {}).get(name) or rust_type(pty, self.selfty)
            if isinstance(ty, tuple) and ty[0] == "unknown": self.bad("parameter `%s` of unsupported type `%s`" % (name, ty[1]))
            env, v = env.declare(name, self.gname(name), ty)
            gparams.append((v.g, gtype(ty)))
            if re.match(r"^&\s*mut\b", pty.strip()) or pty.replace(" ", "").startswith("&mut"): mutparams.append(name)
        rty = rust_type(fn[3], self.selfty) if fn[3] else "unit"
        m = re.match(r"^Option<(.*)>$", (fn[3] or "").replace(" ", ""))
        if m: rty = ("opt", rust_type(m.group(1), self.selfty))
        result = spec.get("result")
        if result is None:
            result = list(mutparams) + ([] if rty == "unit" else ["ret"])
        if not result: self.bad("function with no result and no `&mut` parameter")
        params_env = env
        def assemble(env2, v):
            parts, tys = [], []
            for r in result:
                if r == "ret":
                    if v is None: self.bad("missing return value")
                    parts.append(self.lit(v[0], v[1], "usize"))
                    if isinstance(v[1], tuple) and v[1][0] == "sum":
                        if v[1][1] is not None: self.sum_left = v[1][1]
                        tys.append(("sumty",))
                    else:
                        tys.append(rty if v[1] == ("opt", "any") else ("usize" if v[1] == "lit" else v[1]))
                elif r.startswith("ret."):
                    comp = self.tuple_parts.get(v[0]) if v is not None else None
                    if comp is None: self.bad("the returned value is not a literal tuple (result component %s)" % r)
                    parts.append(comp[int(r[4:])][0]); tys.append(comp[int(r[4:])][1])
                else:
                    pv = params_env.lookup(r); parts.append(pv.g); tys.append(pv.ty)
            self.result_type = tys[0] if len(tys) == 1 else ("tuple", tys)
            return names_term(parts)
        self.assemble = assemble
        ret = lambda env2, v: g_ok(g_raw(assemble(env2, v)))
        self.ctx = Ctx(ret, lambda env2: self.bad("`continue` outside a loop"), [], ret_raw=lambda t: g_ok(g_raw(t)))
        body = fn_body_ast(fn, self.what)
        self.number_sites(body)
        term = self.block(body, env, lambda env2, v: ret(env2, v))
        return gparams, term, self.result_type

    def infer_selfty(self, header):
        toks = header.split(" ")
        if "for" in toks:
            toks = toks[len(toks) - toks[::-1].index("for"):]
        elif toks and toks[0] == "<":
            depth = 0
            for i, t in enumerate(toks):
                if t == "<": depth += 1
                if t == ">":
                    depth -= 1
                    if depth == 0: toks = toks[i + 1:]; break
        if "where" in toks: toks = toks[:toks.index("where")]
        h = "".join(toks)
        ty = rust_type(h, None)
        if isinstance(ty, str): return ty
        self.bad("cannot infer the Self type from `impl %s`" % header)
