# driver/iterlib.py -- shared by C08 / C09: the iterative sparse solvers (src/sparse.rs:303-616).
# Case builders for both sides (executor family it.*, Gallina model coq/Model/Iter.v), system
# generators, the model-trace cache (largest intermediate iterate, needed by the C08 oracle) and the
# numpy reference computations.
import math, json, os
from fractions import Fraction
import numpy as np
from common import *
from engine import Case

IMPORTS = "From OV Require Import Model.Vector Model.Matrix Model.Sparse Model.Iter."
MODEL_VO = ["Model/Iter.vo"]
EPS = 2.0 ** -53
SOLVERS = ["cg", "bicg1", "bicg2", "bicgstab", "qmr"]
COQ_SOLVER = {"cg": "CG", "bicg1": "(BiCG 1)", "bicg2": "(BiCG 2)", "bicgstab": "BiCGSTAB", "qmr": "QMR"}
TIE_MAX_N = 12          # systems up to this order are run through the engine's correspondence check
TIE_TOL = 1e-6
TIE_MAX_COND = 1e8     # beyond this condition number a run is not compared (still judged by the oracle)

def kind_of(solver):
    if solver.startswith("bicg") and solver != "bicgstab":
        return "it.bicg " + solver[4:]
    return "it." + solver

# ----------------------------------------------------------------------------- a system
class Sys:
    """rows x cols sparse matrix as a triplet list (in the order handed to from_triplets), b, x0."""
    def __init__(self, rows, cols, trip, b, x0, info=None):
        self.rows, self.cols, self.trip, self.b, self.x0 = rows, cols, trip, b, x0
        self.info = info or {}
    def dense(self):
        A = np.zeros((self.rows, self.cols))
        for (i, j, v) in self.trip:
            A[i, j] += v
        return A
    def to_json(self):
        return {"rows": self.rows, "cols": self.cols, "trip": [[i, j, v] for (i, j, v) in self.trip],
                "b": list(self.b), "x0": list(self.x0), "info": self.info}
    @staticmethod
    def from_json(j):
        return Sys(j["rows"], j["cols"], [(int(t[0]), int(t[1]), float(t[2])) for t in j["trip"]],
                   [float(v) for v in j["b"]], [float(v) for v in j["x0"]], j.get("info", {}))

def exec_line(solver, s, maxit, tol, brief=False):
    k = kind_of(solver)
    if brief:
        k = k.replace("it.bicg ", "it.bicg.t ") if k.startswith("it.bicg ") else k + ".t"
    return "%s %d %d [%s] [%s] %s %s %s %d %s" % (
        k, s.rows, s.cols,
        ",".join(str(i) for (i, _, _) in s.trip), ",".join(str(j) for (_, j, _) in s.trip),
        tok_vec('f64', [v for (_, _, v) in s.trip]), tok_vec('f64', s.b), tok_vec('f64', s.x0),
        maxit, tok_scalar('f64', tol))

def coq_run(solver, s, maxit, tol):
    ts = coq_list(["(%d, %d, %s)" % (i, j, coq_float(v)) for (i, j, v) in s.trip])
    return "(@run_trip SAF %s %d %d %s %s %s %d %s)" % (
        COQ_SOLVER[solver], s.rows, s.cols, ts, coq_vec('f64', s.b), coq_vec('f64', s.x0), maxit, coq_float(tol))

def term_tie(solver, s, maxit, tol):
    return "@it_flat SAF flat_f %d %s" % (maxit, coq_run(solver, s, maxit, tol))

def term_trace(solver, s, maxit, tol):
    return "@it_flat_tr SAF flat_f %d %s" % (maxit, coq_run(solver, s, maxit, tol))

def mk_cases(solver, s, maxit, tol, family, nontrivial=True, tie=None, want_trace=False, extra=None):
    """One run of one solver = an ORACLE case (full answer: Result, error value, x, budget; no model term) and, for
    small systems, a TIE case (kind .t: the stream of the correspondence check, with the model term).
    want_trace: the oracle needs the model's ghost trace (C08 drift allowance)."""
    if tie is None:
        tie = max(s.rows, s.cols) <= TIE_MAX_N
    meta = {"solver": solver, "sys": s.to_json(), "maxit": maxit, "tol": tol, "want_trace": bool(want_trace), "role": "oracle"}
    if extra: meta.update(extra)
    oc = Case('f64', exec_line(solver, s, maxit, tol), None, meta=meta, family=family, nontrivial=nontrivial, tol=TIE_TOL)
    out = [oc]
    if want_trace:
        PENDING.append(oc)
    if tie:
        tmeta = {"solver": solver, "sys": meta["sys"], "maxit": maxit, "tol": tol, "role": "tie", "oracle_line": oc.line}
        out.append(Case('f64', exec_line(solver, s, maxit, tol, brief=True), term_tie(solver, s, maxit, tol), meta=tmeta,
                        family=family + "/tie", nontrivial=False, tol=TIE_TOL))
    return out

def case_from_json(j):
    """corpus / replay files hold one oracle case (or one tie case, for a correspondence replay)"""
    m = j["meta"]
    s = Sys.from_json(m["sys"])
    if m.get("role") == "seq":
        extra = {k: v for k, v in m.items() if k not in ("role", "pre", "sys", "tol", "solvers", "budgets")}
        return mk_seq_case(m["pre"], s, float(m["tol"]), m["solvers"], [int(v) for v in m["budgets"]], "corpus", extra=extra)
    extra = {k: v for k, v in m.items() if k not in ("solver", "sys", "maxit", "tol", "want_trace", "role", "oracle_line")}
    cs = mk_cases(m["solver"], s, int(m["maxit"]), float(m["tol"]), "corpus", True,
                  want_trace=m.get("want_trace", False), extra=extra)
    if m.get("role") == "tie" and len(cs) > 1:
        return cs[1]
    return cs[0]

def finalize(cases, tag):
    """Evaluate the float model (full answer + ghost trace) on every tie case once: the answers feed the
    oracles (TRACE), and runs whose outcome is not a stable function of rounding are taken out of the
    correspondence check (counted; they are still judged by the oracle): a convergence decision within
    1e-9*tol of the tolerance, a recurrence drift (k+1)*eps*(||A|| X + ||b||)/||b||' above tol/100, or
    cond_2(A) > 1e8 (singular systems included).  On the unchanged tree model and implementation agree bit
    for bit on those too (measured during development); the exclusion keeps a harmless reassociation quiet."""
    ties = [c for c in cases if c.meta.get("role") == "tie"]
    if not ties:
        return cases
    terms = []
    for k, c in enumerate(ties):
        m = c.meta
        terms.append(("t%d" % k, term_trace(m["solver"], Sys.from_json(m["sys"]), m["maxit"], m["tol"])))
    rc, out = coq_make(" ".join(MODEL_VO))
    if rc != 0:
        raise CoqRunError("model files do not build:\n" + out[-2000:])
    res = run_coq(terms, tag + "_pre", IMPORTS, shard=max(4, (len(terms) + 2 * NPROC - 1) // (2 * NPROC)))
    drop = set()
    for k, c in enumerate(ties):
        a = Ans(decode_coq(res["t%d" % k]))
        TRACE[c.meta["oracle_line"]] = a
        TRACE_STATS["model_runs"] += 1
        if a.panic is not None:
            continue
        tol = abs(c.meta["tol"])
        if a.margin is not None and a.margin == a.margin and a.margin <= 1e-9 * tol:
            drop.add(id(c))
            TRACE_STATS["tie_excluded_borderline"] += 1
            continue
        # drift-sensitive runs: where the rounding drift of the residual recurrence (the C08 allowance, from the
        # model's own trace) is not negligible against tol, Ok-versus-Err is not a stable function of rounding
        sy = Sys.from_json(c.meta["sys"])
        nb = norm2(sy.b)
        if a.X is None or a.X != a.X or a.X == math.inf:
            unstable = True
        else:
            unit = EPS * (spec_norm(sy.dense()) * max(a.X, norm2(sy.x0)) + nb) / (nb if nb != 0.0 else 1.0)
            iters = a.k if a.ok else c.meta["maxit"]
            unstable = (iters + 1) * unit > 1e-2 * tol
            if not unstable and sy.rows > 0:
                # ill-conditioned systems: the trajectory itself (not only the stopping decision) is chaotic in the rounding
                try:
                    unstable = not (float(np.linalg.cond(sy.dense(), 2)) <= TIE_MAX_COND)
                except Exception:
                    unstable = True
        if unstable:
            drop.add(id(c))
            TRACE_STATS["tie_excluded_unstable"] += 1
    return [c for c in cases if id(c) not in drop]

# ----------------------------------------------------------------------------- answers
class Ans:
    """decoded answer stream: panic | (ok, k | err, x, budget[, X])"""
    def __init__(self, items):
        self.panic = None; self.ok = None; self.k = None; self.err = None; self.x = None; self.budget = None; self.X = None; self.exit = None; self.margin = None
        if items and items[-1][0] == 'P' and len(items) == 1:
            self.panic = items[-1][1]; return
        if not items or items[0][0] != 'i':
            raise ValueError("bad it.* answer %r" % (items[:6],))
        self.ok = (items[0][1] == 0)
        if self.ok: self.k = items[1][1]
        else: self.err = bits_f64(items[1][1])
        n = items[2][1]
        self.x = [bits_f64(it[1]) for it in items[3:3 + n]]
        self.budget = items[3 + n][1]
        self.exit = None; self.margin = None
        if len(items) > 4 + n:
            self.X = bits_f64(items[4 + n][1])
        if len(items) > 5 + n:
            self.exit = items[5 + n][1]
        if len(items) > 6 + n:
            self.margin = bits_f64(items[6 + n][1])
        self.pivot = bits_f64(items[7 + n][1]) if len(items) > 7 + n else None

# ----------------------------------------------------------------------------- model trace cache
PENDING = []        # cases whose oracle needs the model's ghost trace
TRACE = {}          # executor line -> Ans of the model (with X), or None if the model run failed
TRACE_STATS = {"prescreened": 0, "model_runs": 0, "tie_excluded_borderline": 0, "tie_excluded_unstable": 0}

def needs_trace(case, a):
    """the drift allowance (hence the model's trace) matters only for an Ok answer whose exact residual exceeds tol"""
    if a.panic or not a.ok or a.x is None or not all_finite(a.x):
        return False
    s = Sys.from_json(case.meta["sys"])
    if len(a.x) != s.rows:
        return False
    nb = norm2(s.b)
    return exact_residual_norm(s, a.x) / (nb if nb != 0.0 else 1.0) > case.meta["tol"]

def ensure_traces(tag, force=False):
    """one batch: run the executor on every pending case, keep those whose verdict depends on the
    allowance (all of them if force), evaluate the float model (with its ghost trace) on exactly those"""
    todo = [c for c in PENDING if TRACE.get(c.line) is None]
    del PENDING[:]
    if not todo:
        return
    need = []
    if force:
        need = todo
    else:
        exe = os.path.join(TARGET, "debug", "exec")
        ans = run_harness(exe, ["p%d f64 %s" % (k, c.line) for k, c in enumerate(todo)], tag + "_pre")
        for k, c in enumerate(todo):
            TRACE[c.line] = None
            try:
                if needs_trace(c, Ans(decode_harness(ans["p%d" % k]))):
                    need.append(c)
            except Exception:
                need.append(c)
        TRACE_STATS["prescreened"] += len(todo)
    if not need:
        return
    terms = []
    for k, c in enumerate(need):
        m = c.meta
        s = Sys.from_json(m["sys"])
        terms.append(("t%d" % k, term_trace(m["solver"], s, m["maxit"], m["tol"])))
    rc, out = coq_make(" ".join(MODEL_VO))
    if rc != 0:
        raise CoqRunError("model files do not build:\n" + out[-2000:])
    res = run_coq(terms, tag + "_trace", IMPORTS, shard=max(4, (len(terms) + 2 * NPROC - 1) // (2 * NPROC)))
    for k, c in enumerate(need):
        TRACE[c.line] = Ans(decode_coq(res["t%d" % k]))
        TRACE_STATS["model_runs"] += 1

def model_trace(case, tag, force=False):
    """the float model's answer (with ghost trace) on this case; force: evaluate it even if the
    C08 prescreen says the verdict does not depend on it"""
    if case.line not in TRACE or (force and TRACE.get(case.line) is None):
        if force:
            keep = list(PENDING); del PENDING[:]
            PENDING.append(case)
            ensure_traces(tag, force=True)
            PENDING.extend(keep)
        else:
            PENDING.append(case)
            ensure_traces(tag)
    return TRACE.get(case.line)

PIVOT_BREAKDOWN = 1e-10   # a scale-free pivot |<u,v>|/(||u|| ||v||) below this is a (near-)breakdown of the bi-Lanczos process
                          # (calibration: failing runs <= 1e-16, 98% of healthy runs >= 1e-7)

def breakdown_key(case, decoded, tag):
    """Cause of a failed / slow run as decided by the MODEL's trace, and only when the model reproduces the
    implementation's answer bit for bit (so a mutated implementation can never hide behind the entry): an exact
    breakdown (a `== 0` exit, or BiCG's 0/0 = NaN) or a near-breakdown (smallest pivot <= 1e-10) of the
    look-ahead-free bi-Lanczos process.  Keys of the `open:` entries of KNOWN_FINDINGS.txt."""
    a = Ans(decoded)
    tr = model_trace(case, tag, force=True)
    if tr is None or tr.panic or a.panic or tr.ok != a.ok:
        return None
    if a.ok:
        if tr.k != a.k or [f64_bits(v) for v in tr.x] != [f64_bits(v) for v in a.x]:
            return None
    elif f64_bits(tr.err) != f64_bits(a.err):
        return None
    sv = case.meta["solver"]
    near = tr.pivot is not None and tr.pivot <= PIVOT_BREAKDOWN
    if sv in ("bicg1", "bicg2") and (near or (not a.ok and tr.exit == 2 and tr.err != tr.err)):
        return "solve_bicg/breakdown"
    if sv == "qmr" and (near or (tr.exit is not None and 20 <= tr.exit <= 25)):
        return "solve_qmr/breakdown"
    if sv == "bicgstab" and (near or tr.exit in (10, 11)):
        return "solve_bicgstab/breakdown"
    return None

# ----------------------------------------------------------------------------- numerics (reference side)
def exact_residual_norm(s, x):
    """|| b - A x ||_2 with the residual vector formed in exact rational arithmetic"""
    r = [Fraction(v) for v in s.b]
    xs = [Fraction(v) for v in x]
    for (i, j, v) in s.trip:
        r[i] -= Fraction(v) * xs[j]
    m = max((abs(v) for v in r), default=Fraction(0))
    if m == 0:
        return 0.0
    # scale to avoid under/overflow in the float conversion
    return float(m) * math.sqrt(sum(float(v / m) ** 2 for v in r))

def norm2(v):
    """2-norm; the plain numpy value wherever it is trustworthy (bit-identical to what this function always returned),
    the scaled form max * sqrt(sum (v/max)^2) where the squares of the entries leave the f64 range (reference side of
    the recorded finding f64-square-range: the reference must not repeat the defect)"""
    if not len(v): return 0.0
    with np.errstate(all='ignore'):
        r = float(np.linalg.norm(np.array(v, dtype=float)))
    if r == 0.0 or r == math.inf or r < 2.0 ** -480 or r > 2.0 ** 480:
        a = [abs(float(t)) for t in v]
        if any(t != t for t in a): return float("nan")
        m = max(a)
        if m == 0.0 or m == math.inf: return m
        return m * math.sqrt(sum((t / m) ** 2 for t in a))
    return r

def all_finite(v):
    return all(math.isfinite(t) for t in v)

def spec_norm(A):
    return float(np.linalg.norm(A, 2)) if A.size else 0.0

# ----------------------------------------------------------------------------- generators
def sval(rng, ints=True):
    """a nonzero entry value"""
    if ints:
        v = rng.range(1, 4)
    else:
        v = rng.choice([1.0, 2.0, 0.5, 0.25, 3.0, 1.5]) if rng.chance(1, 2) else 0.1 + rng.unit() * 3.9
    return float(v) if rng.chance(1, 2) else -float(v)

def pattern(rng, n, per_row):
    """off-diagonal positions: about per_row per row"""
    pos = set()
    for i in range(n):
        for _ in range(per_row):
            j = rng.below(n)
            if j != i and rng.chance(3, 4):
                pos.add((i, j))
    return sorted(pos)

def spd_system(rng, n, ints=True):
    """Gram + shift: A = B^T B + shift*I with a sparse B (exactly representable when ints)"""
    per = 1 if n > 20 else 2
    B = {}
    for (i, j) in pattern(rng, n, per):
        B[(i, j)] = sval(rng, ints)
    for i in range(n):
        if rng.chance(2, 3): B[(i, i)] = sval(rng, ints)
    A = {}
    for (k, i), u in B.items():
        for (k2, j), w in B.items():
            if k2 == k:
                A[(i, j)] = A.get((i, j), 0.0) + u * w
    shift = float(rng.choice([1, 1, 2, 4])) if ints else 0.25 + rng.unit() * 4
    for i in range(n):
        A[(i, i)] = A.get((i, i), 0.0) + shift
    return {k: v for k, v in A.items() if v != 0.0}

def sdd_system(rng, n, ints=True, mixed_sign=False):
    """strictly (row) diagonally dominant, nonsymmetric"""
    per = 1 if n > 20 else (2 if n > 6 else 3)
    A = {}
    for (i, j) in pattern(rng, n, per):
        A[(i, j)] = sval(rng, ints)
    for i in range(n):
        R = sum(abs(v) for (a, _), v in A.items() if a == i)
        if ints:
            d = R + rng.range(1, 3) + (rng.range(0, int(R) + 1) if rng.chance(1, 3) else 0)
        else:
            d = R * (1.0 + 0.1 + rng.unit() * 2) + 0.05 + rng.unit()
        sg = -1.0 if (mixed_sign and rng.chance(1, 2)) else 1.0
        A[(i, i)] = sg * float(d)
    return A

def gershgorin_kappa(A, n):
    """condition proxy of a strictly diagonally dominant matrix: max(|a_ii|+R_i) / min(|a_ii|-R_i)"""
    R = [0.0] * n; D = [0.0] * n
    for (i, j), v in A.items():
        if i == j: D[i] = abs(v)
        else: R[i] += abs(v)
    lo = min(D[i] - R[i] for i in range(n))
    hi = max(D[i] + R[i] for i in range(n))
    return hi / lo if lo > 0 else float("inf")

def general_system(rng, n, kind, ints=True):
    """nonsymmetric / indefinite / ill-conditioned / singular systems (C08 only)"""
    A = {}
    per = 1 if n > 20 else 2
    if kind == "nonsym":
        for (i, j) in pattern(rng, n, per): A[(i, j)] = sval(rng, ints)
        for i in range(n): A[(i, i)] = sval(rng, ints) * rng.range(1, 4)
    elif kind == "indefinite":
        for (i, j) in pattern(rng, n, per):
            v = sval(rng, ints); A[(i, j)] = v; A[(j, i)] = v
        for i in range(n): A[(i, i)] = sval(rng, ints) * rng.range(1, 5)
    elif kind == "illcond":
        A = sdd_system(rng, n, ints) if rng.chance(1, 2) else spd_system(rng, n, ints)
        sc = [10.0 ** rng.range(-6, 6) for _ in range(n)]
        if rng.chance(1, 2):
            A = {(i, j): v * sc[i] for (i, j), v in A.items()}            # row scaling (keeps dominance, ruins conditioning)
        else:
            A = {(i, j): v * sc[i] * sc[j] for (i, j), v in A.items()}    # congruence (keeps symmetry)
    elif kind == "singular":
        A = sdd_system(rng, n, ints) if rng.chance(1, 2) else spd_system(rng, n, ints)
        k = rng.below(n)
        how = rng.below(3)
        if how == 0:   A = {(i, j): v for (i, j), v in A.items() if i != k}            # zero row
        elif how == 1: A = {(i, j): v for (i, j), v in A.items() if j != k}            # zero column
        else:                                                                           # two equal rows
            k2 = (k + 1) % n
            if n > 1:
                A = {(i, j): v for (i, j), v in A.items() if i != k2}
                for (i, j), v in list(A.items()):
                    if i == k: A[(k2, j)] = v
    return {k: v for k, v in A.items() if v != 0.0}

def triplets_of(rng, A, order=None):
    t = [(i, j, v) for (i, j), v in sorted(A.items())]
    order = order or rng.choice(["sorted", "shuffled", "reversed", "rowmajor"])
    if order == "shuffled": t = rng.shuffle(t)
    elif order == "reversed": t = t[::-1]
    elif order == "sorted": t = sorted(t, key=lambda q: (q[1], q[0]))
    return t

def csc_mul(trip, n, x):
    """A*x exactly as Sparse::multiply sums it (column order, stable in the triplet order)"""
    res = [0.0] * n
    for (i, j, v) in sorted(trip, key=lambda q: q[1]):
        res[i] += v * x[j]
    return res

def rhs_and_guess(rng, n, trip, guess_kind, rhs_kind, ints=True):
    """returns (b, x0, xtrue)"""
    if ints:
        xt = [float(rng.range(-4, 4)) for _ in range(n)]
    else:
        xt = [(rng.unit() * 2 - 1) * 4 for _ in range(n)]
    sc = 1.0
    if rhs_kind == "zero":
        xt = [0.0] * n
    elif rhs_kind == "scaled":
        sc = 2.0 ** rng.range(-30, 30)          # power of two: keeps exactness
        xt = [v * sc for v in xt]
    elif rhs_kind == "tiny":
        # ||b|| below machine epsilon (or far above 1/epsilon): the tests are RELATIVE to ||b||, so nothing may change
        # but the scale (a zero-rhs guard written as `normb < EPSILON` is wrong here: seeded mutation C08-6)
        e = rng.range(55, 200)
        sc = 2.0 ** (-e if rng.chance(3, 4) else e)
        xt = [v * sc for v in xt]
    b = csc_mul(trip, n, xt)
    if guess_kind == "zero": x0 = [0.0] * n
    elif guess_kind == "exact": x0 = list(xt)
    else:
        x0 = [float(rng.range(-3, 3)) * sc if ints else (rng.unit() * 2 - 1) * 3 * sc for _ in range(n)]
    return b, x0, xt

def pick_tol(rng, lo=2, hi=12):
    return 10.0 ** (-rng.range(lo, hi))

# ============================================================================= structured systems (special-values audit)
# The random families above never draw the special STRUCTURE a fast path, a guard or a helper may key on.  The catalogue
# below is a principled enumeration (not tied to any one patch) of:
#   matrix structure : identity / scaled identity / negative identity, diagonal (arithmetic progression = exact zeros in
#                      the residual after a step; two distinct eigenvalues; mixed signs), tridiagonal (symmetric,
#                      Laplacian, nonsymmetric), dense upper / lower triangular, dense with EQUAL entries (ties) and with
#                      alternating signs, arrow, decoupled blocks (1x1 + 2x2), explicitly stored zeros (+0.0 and -0.0);
#                      C08 only: cyclic permutation and anti-diagonal (empty main diagonal), the zero matrix, a single
#                      stored entry (first / last), an empty column, strictly upper (nilpotent)
#   scale            : A * 2^sa, b * 2^sb  (powers of two: exactness is kept; every product of the iterations stays
#                      inside the binary64 range), so that any ABSOLUTE threshold on a quantity that scales with A
#                      (step length, omega, p.Ap, ...) or with b shows
#   right-hand side  : A*xt (known solution), ones (equal entries), e_first / e_last / e_mid (one non-zero entry: unit
#                      norm, rho = 1 exactly), alternating +-1 (equal magnitude, opposite sign), unit norm off the axes
#                      (0.6, 0.8), zero, -0.0
#   guess            : zero, -0.0, ones, far (2^20 * (+-1)), and with a known solution: exact, exact except in the
#                      first / last / middle component (residual localised in one column), 2*xt (r0 = -b), -xt
#   budget-0 guesses : in addition NaN, +-inf, 1e300, subnormal (x must come back bit for bit)
STRUCT_BOTH = ["identity", "identity-2", "identity-half", "diag-ap", "diag-pairs", "tridiag-41", "dense-equal", "dense-alt",
               "arrow", "block", "explicit-zeros"]                                    # SPD and strictly diagonally dominant
STRUCT_SPD_ONLY = ["tridiag-lap"]
STRUCT_SDD_ONLY = ["tridiag-nonsym", "upper-ones", "lower-ones"]
STRUCT_SDD_MIXED = ["neg-identity", "diag-mixed"]
STRUCT_C08_ONLY = ["perm-cyclic", "antidiag", "zero", "single-first", "single-last", "empty-col", "nilpotent"]
STRUCT_ALL = STRUCT_BOTH + STRUCT_SPD_ONLY + STRUCT_SDD_ONLY + STRUCT_SDD_MIXED + STRUCT_C08_ONLY
STRUCT_N = [1, 2, 3, 4, 5, 8]

def struct_matrix(name, n):
    """entry dictionary of the named structure at order n (all entries small integers or halves: exact)"""
    A = {}
    if name in ("identity", "identity-2", "identity-half", "neg-identity"):
        c = {"identity": 1.0, "identity-2": 2.0, "identity-half": 0.5, "neg-identity": -1.0}[name]
        for i in range(n): A[(i, i)] = c
    elif name == "diag-ap":
        for i in range(n): A[(i, i)] = float(i + 1)
    elif name == "diag-pairs":
        for i in range(n): A[(i, i)] = [2.0, 5.0][(i // 2) % 2]
    elif name == "diag-mixed":
        for i in range(n): A[(i, i)] = float(i + 1) * (-1.0) ** i
    elif name in ("tridiag-41", "tridiag-lap", "tridiag-nonsym", "explicit-zeros", "empty-col"):
        d, up, lo = {"tridiag-41": (4.0, -1.0, -1.0), "tridiag-lap": (2.0, -1.0, -1.0), "tridiag-nonsym": (4.0, -1.0, 2.0),
                     "explicit-zeros": (4.0, -1.0, -1.0), "empty-col": (4.0, -1.0, -1.0)}[name]
        for i in range(n):
            A[(i, i)] = d
            if i + 1 < n: A[(i, i + 1)] = up; A[(i + 1, i)] = lo
        if name == "explicit-zeros":
            for i in range(n):
                for j in range(n):
                    if abs(i - j) == 2: A[(i, j)] = 0.0 if (i + j) % 4 == 0 else -0.0
            if n <= 2: A[(0, n - 1)] = A.get((0, n - 1), 0.0)
        if name == "empty-col":
            k = n // 2
            A = {(i, j): v for (i, j), v in A.items() if j != k}
    elif name == "upper-ones":
        for i in range(n):
            A[(i, i)] = float(n + 1)
            for j in range(i + 1, n): A[(i, j)] = 1.0
    elif name == "lower-ones":
        for i in range(n):
            A[(i, i)] = float(n + 1)
            for j in range(i): A[(i, j)] = 1.0
    elif name in ("dense-equal", "dense-alt"):
        for i in range(n):
            for j in range(n):
                A[(i, j)] = float(2 * n) if i == j else (1.0 if name == "dense-equal" else (-1.0) ** (i + j))
    elif name == "arrow":
        for i in range(n):
            A[(i, i)] = float(2 * n)
            if i > 0: A[(0, i)] = 1.0; A[(i, 0)] = 1.0
    elif name == "block":
        i = 0
        while i < n:
            if i % 3 == 0 or i + 1 >= n:
                A[(i, i)] = 3.0; i += 1
            else:
                A[(i, i)] = 4.0; A[(i + 1, i + 1)] = 3.0; A[(i, i + 1)] = 1.0; A[(i + 1, i)] = 1.0; i += 2
    elif name == "perm-cyclic":
        for i in range(n): A[(i, (i + 1) % n)] = 1.0
    elif name == "antidiag":
        for i in range(n): A[(i, n - 1 - i)] = float(i + 1)
    elif name == "zero":
        pass
    elif name == "single-first":
        A[(0, 0)] = 2.0
    elif name == "single-last":
        A[(n - 1, n - 1)] = 2.0
    elif name == "nilpotent":
        for i in range(n):
            for j in range(i + 1, n): A[(i, j)] = 1.0
    else:
        raise ValueError(name)
    return A

def struct_class(name):
    """problem class of a structure for C09: 'spd' (CG), 'sdd', 'sdd-mixed' (BiCG, BiCGSTAB, QMR), or None"""
    r = []
    if name in STRUCT_BOTH or name in STRUCT_SPD_ONLY: r.append("spd")
    if name in STRUCT_BOTH or name in STRUCT_SDD_ONLY: r.append("sdd")
    if name in STRUCT_SDD_MIXED: r.append("sdd-mixed")
    return r

RHS_KINDS = ["Axt", "Axt", "ones", "e-first", "e-last", "e-mid", "alt", "unit", "zero", "negzero"]
GUESS_ANY = ["zero", "negzero", "ones", "far"]
GUESS_XT = ["exact", "but-first", "but-last", "but-mid", "double", "neg"]
GUESS_NONFINITE = ["nan", "inf", "neginf-mixed", "huge", "subnormal"]
# non-zero guesses that a CHEAP zero test takes for zero: entries summing to exactly 0 (+a, -a pairs), a zero first / last
# component (seeded mutation C08-11: `x.sum() == 0.0` as the "guess is zero" shortcut); used by c08 block (2b) only
GUESS_CHEAPZERO = ["sumzero", "first-zero", "last-zero"]
SCALES = [(0, 0), (0, 0), (0, 0), (60, 0), (-60, 0), (0, 200), (0, -200), (60, -200), (-60, 200), (120, 120), (-120, -120)]

def struct_rhs_guess(n, trip, rhs_kind, guess_kind, sa=0, sb=0):
    """b, x0 (and xt or None) for a structured system whose matrix entries carry the factor 2^sa; b carries 2^sb"""
    xs = 2.0 ** (sb - sa)                    # scale of the solution
    xt = None
    if rhs_kind == "Axt":
        xt = [float(i + 1) * (-1.0) ** i * xs for i in range(n)]
        b = csc_mul(trip, n, xt)
    elif rhs_kind == "ones": b = [2.0 ** sb] * n
    elif rhs_kind in ("e-first", "e-last", "e-mid"):
        k = {"e-first": 0, "e-last": n - 1, "e-mid": n // 2}[rhs_kind]
        b = [0.0] * n; b[k] = 2.0 ** sb
    elif rhs_kind == "alt": b = [(-1.0) ** i * 2.0 ** sb for i in range(n)]
    elif rhs_kind == "unit":
        b = [0.0] * n; b[0] = 0.6 * 2.0 ** sb
        if n > 1: b[n - 1] = 0.8 * 2.0 ** sb
    elif rhs_kind == "zero": b = [0.0] * n; xt = [0.0] * n
    elif rhs_kind == "negzero": b = [-0.0] * n; xt = [0.0] * n
    else: raise ValueError(rhs_kind)
    g = guess_kind
    if g in GUESS_XT and (xt is None or rhs_kind in ("zero", "negzero")):
        g = "zero" if g == "exact" else "ones"
    if g == "zero": x0 = [0.0] * n
    elif g == "negzero": x0 = [-0.0] * n
    elif g == "ones": x0 = [xs] * n
    elif g == "far": x0 = [(-1.0) ** i * xs * 2.0 ** 20 for i in range(n)]
    elif g == "exact": x0 = list(xt)
    elif g in ("but-first", "but-last", "but-mid"):
        k = {"but-first": 0, "but-last": n - 1, "but-mid": n // 2}[g]
        x0 = list(xt); x0[k] = xt[k] + 3.0 * xs
    elif g == "sumzero":
        x0 = [(-1.0) ** i * float(i // 2 + 1) * xs for i in range(n)]
        if n % 2 == 1: x0[n - 1] = 0.0
    elif g == "first-zero": x0 = [xs] * n; x0[0] = 0.0
    elif g == "last-zero": x0 = [xs] * n; x0[n - 1] = 0.0
    elif g == "double": x0 = [2.0 * v for v in xt]
    elif g == "neg": x0 = [-v for v in xt]
    elif g == "nan": x0 = [xs] * n; x0[n // 2] = float("nan")
    elif g == "inf": x0 = [float("inf")] * n
    elif g == "neginf-mixed": x0 = [xs] * n; x0[0] = float("-inf")
    elif g == "huge": x0 = [1e300 * (-1.0) ** i for i in range(n)]
    elif g == "subnormal": x0 = [5e-324 if i % 2 == 0 else -2.0 ** -1060 for i in range(n)]
    else: raise ValueError(g)
    return b, x0, xt, g

def struct_system(name, n, rhs_kind, guess_kind, sa=0, sb=0, order="sorted", rng=None):
    A = struct_matrix(name, n)
    if sa: A = {k: v * 2.0 ** sa for k, v in A.items()}
    trip = triplets_of(rng, A, order)
    b, x0, xt, g = struct_rhs_guess(n, trip, rhs_kind, guess_kind, sa, sb)
    return Sys(n, n, trip, b, x0, {"fam": "struct", "struct": name, "rhs": rhs_kind, "guess": g, "sa": sa, "sb": sb})

def scale_system(A, sa):
    """every entry times 2^sa (exact)"""
    return {k: v * 2.0 ** sa for k, v in A.items()}

TOLS_SPECIAL = [1e-2, 1e-3, 1e-6, 1e-9, 1e-12, 2.0 ** -20, 2.0 ** -33, 3.7e-5, 6.1e-11]

# ----------------------------------------------------------------------------- histories (executor kind it.seq)
SOLVER_CODE = {"cg": 0, "bicg1": 1, "bicg2": 2, "bicgstab": 3, "qmr": 4}
PRE_OPS = ["none", "tt", "vecs", "insert", "clone-x", ["scale", 2.0], ["scale", 0.5], ["scale", -1.0]]

def mk_seq_case(pre, s, tol, solvers, budgets, family, nontrivial=True, extra=None):
    """One matrix object, one x: the operation `pre` on the matrix, then the solvers one after the other, each
    starting from what the previous call left in x.  Oracle only (no model term): every call is judged by the
    property predicate against the reference matrix (the entries after `pre`), with the previous x as its guess."""
    pw = pre if isinstance(pre, str) else "%s:%s" % (pre[0], tok_scalar('f64', pre[1]))
    line = "it.seq %s %d %d [%s] [%s] %s %s %s %s [%s] [%s]" % (
        pw, s.rows, s.cols,
        ",".join(str(i) for (i, _, _) in s.trip), ",".join(str(j) for (_, j, _) in s.trip),
        tok_vec('f64', [v for (_, _, v) in s.trip]), tok_vec('f64', s.b), tok_vec('f64', s.x0), tok_scalar('f64', tol),
        ",".join(str(SOLVER_CODE[sv]) for sv in solvers), ",".join(str(int(m)) for m in budgets))
    meta = {"role": "seq", "pre": pre, "sys": s.to_json(), "tol": tol, "solvers": list(solvers), "budgets": [int(m) for m in budgets]}
    if extra: meta.update(extra)
    return Case('f64', line, None, meta=meta, family=family, nontrivial=nontrivial, tol=TIE_TOL)

def seq_reference(s, pre):
    """the system the solvers must have seen: the triplets after the pre-operation (scale multiplies every stored entry)"""
    if isinstance(pre, (list, tuple)) and pre[0] == "scale":
        c = float(pre[1])
        return Sys(s.rows, s.cols, [(i, j, v * c) for (i, j, v) in s.trip], s.b, s.x0, s.info)
    return s

def split_seq(items, nsteps):
    """the answers of the successive calls (None: the executor panicked somewhere)"""
    if items and items[-1][0] == 'P':
        return None
    out = []; pos = 0
    for _ in range(nsteps):
        n = items[pos + 2][1]
        out.append(Ans(items[pos:pos + 4 + n]))
        pos += 4 + n
    if pos != len(items):
        raise ValueError("bad it.seq answer")
    return out

# ----------------------------------------------------------------------------- recorded finding f64-square-range (C08, C09)
# Vector<f64>::norm_2 squares its entries without scaling (the C15 finding of the same key); the solvers measure ||b|| and
# ||r|| with it, so a right-hand side with ||b|| < 2^-511 is taken for zero (Ok(0) with x untouched), one with
# ||b|| > 2^512 gives inf / NaN, and the dot products of the recurrences leave the range likewise.  The key is decided
# from the INPUT alone.
F64_MIN_NORMAL_Q = Fraction(1, 2 ** 1022)
F64_RANGE_END_Q = Fraction(2 ** 1024)
KEY_SQUARE_RANGE = "f64-square-range"

def _leaves_range(q):
    """q: exact non-negative rational; non-zero and outside the normal f64 range [2^-1022, 2^1024)"""
    return q != 0 and not (F64_MIN_NORMAL_Q <= q < F64_RANGE_END_Q)

def exact_solution(s):
    """the exact solution of A x = b over the rationals (list of Fractions), or None (non-square, singular, non-finite)"""
    n = s.rows
    if s.rows != s.cols or len(s.b) != n or n == 0: return None
    vals = [v for (_, _, v) in s.trip] + list(s.b)
    if not all(math.isfinite(v) for v in vals): return None
    M = [[Fraction(0)] * (n + 1) for _ in range(n)]
    for (i, j, v) in s.trip: M[i][j] += Fraction(v)
    for i in range(n): M[i][n] = Fraction(s.b[i])
    for c in range(n):
        p = next((r for r in range(c, n) if M[r][c] != 0), None)
        if p is None: return None
        M[c], M[p] = M[p], M[c]
        for r in range(c + 1, n):
            if M[r][c] != 0:
                f = M[r][c] / M[c][c]
                for k in range(c, n + 1): M[r][k] -= f * M[c][k]
    x = [Fraction(0)] * n
    for i in range(n - 1, -1, -1):
        x[i] = (M[i][n] - sum(M[i][k] * x[k] for k in range(i + 1, n))) / M[i][i]
    return x

def scale_out_of_range(s):
    """True exactly when the INPUT has ||b||^2 (exact sum of squares), or the square of an entry of b / x0 / A, or a
    product A_ij * x_j of the EXACT solution, non-zero and outside the normal f64 range [2^-1022, 2^1024).
    Inputs with a non-finite entry are outside the quantifier: never."""
    vals = [v for (_, _, v) in s.trip]
    if not all(math.isfinite(v) for v in vals + list(s.b) + list(s.x0)): return False
    if _leaves_range(sum(Fraction(v) ** 2 for v in s.b)): return True
    if any(_leaves_range(Fraction(v) ** 2) for v in list(s.b) + list(s.x0) + vals): return True
    x = exact_solution(s)
    if x is not None and any(_leaves_range(abs(Fraction(v) * x[j])) for (i, j, v) in s.trip): return True
    return False

def extreme_systems(g, tier, budget_of_n):
    """Adversarial family for the recorded finding: small well-posed systems (SPD for CG, strictly diagonally dominant for
    the others; all five entry points over the run) with the right-hand side or the matrix scaled by 2^+-(520..700), or a
    solution beyond the f64 range.  Yields (solver, Sys, budget, tol, kappa, fam)."""
    kinds = ["b-tiny", "b-huge", "A-tiny", "A-huge", "x-overflow"]
    out = []
    for t in range(5 if tier == "quick" else 40):
        sv = SOLVERS[t % len(SOLVERS)]
        fam = "spd" if sv == "cg" else "sdd"
        n = g.range(2, 5)
        A = spd_system(g, n, True) if fam == "spd" else sdd_system(g, n, True)
        if fam == "spd":
            D = np.zeros((n, n))
            for (i, j), v in A.items(): D[i, j] = v
            kap = float(np.linalg.cond(D, 2))
        else:
            kap = gershgorin_kappa(A, n)
        kind = kinds[(t + t // len(SOLVERS) + g.below(len(kinds))) % len(kinds)]
        e = g.range(520, 700)
        sa, sb = {"b-tiny": (0, -e), "b-huge": (0, e), "A-tiny": (-e, 0), "A-huge": (e, 0),
                  "x-overflow": (-e, min(505, 1030 - e + g.range(0, 60)))}[kind]
        xt = [float(g.range(1, 4)) * (1.0 if g.chance(1, 2) else -1.0) for _ in range(n)]
        b0 = csc_mul(triplets_of(g, A, "sorted"), n, xt)             # small integers: exact
        trip = triplets_of(g, scale_system(A, sa))
        b = [v * 2.0 ** sb for v in b0]
        x0 = [0.0] * n if (kind != "b-tiny" or g.chance(1, 2)) else [float(g.range(-3, 3)) for _ in range(n)]
        s = Sys(n, n, trip, b, x0, {"fam": fam, "extreme": kind, "sa": sa, "sb": sb})
        out.append((sv, s, budget_of_n(n), pick_tol(g, 3, 10), kap, fam))
    return out
