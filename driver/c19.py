# C19 -- meshes return what was stored through every access path; interpolation / quadrature are exact
# on (bi)linear data on any increasing non-uniform grid; a written 1-D mesh reads back to the printed precision.
import copy
from fractions import Fraction
from common import *
from engine import Case
from meshlib import *

PID = "C19"
IMPORTS = "From OV Require Import Base.FnAst Model.Vector Model.Matrix Model.Mesh Model.MeshOps.\nFrom OV Require gen.Params."
MODEL_VO = ["Model/MeshOps.vo"]
EXHAUSTIVE = False
RULE = ("mesh.hist1 / mesh.hist2 cases = one mesh + a history of operations, the whole state read back after every operation: "
        "(a) random histories of per-node set/get, index reads/writes, coord on Mesh1D<T,T> and Mesh2D<T> (T = Rat exact tier, f64), "
        "grids with 2..12 nodes per direction (plus a few 0/1-node grids), non-uniform dyadic spacing >= 1/512, 1..4 variables, integer data, "
        "deliberately out-of-range arguments in 1 of 6 guarded calls; (b) index-map sweeps on non-square grids: an injective function applied "
        "to the nodes, then every cross-section in both directions, var_as_matrix, assign; (c) f64: interpolation at every node, at mid-cells, "
        "at interior points >= 1e-6 from the nodes (and a few inside the snapping window / outside the grid, tie only), trapezium of "
        "integer and linear data, 2-D trapezium / square_trapezium of integer and bilinear data, output + read round trips at precisions 0..9; "
        "(c2) interp-exactdiv: cells of width q/64 with fl(q*fl(1/q)) != 1 and nodal differences multiples of q, queried at the quarter points -- wherever the difference, the slope, its product with x - x_k and the sum are binary64 numbers the interpolant is demanded bit for bit; (d) added by the special-values audit (findings/special-values-specB/C19-table.md): interpolation INSIDE the 1e-7 snapping window on both "
        "sides of an interior node, right of the first and left of the last node (2^-24..2^-40 away; C19 states nothing exact there -- the "
        "neighbouring line MAY be used -- so the oracle accepts any value in the hull of the nodal value and the lines of the two cells "
        "sharing the node, plus rounding, and rejects everything outside it), mid-cells of the first / last cell; file round trips of values with 7..17 significant digits (large "
        "integer data, nodes shifted by 2^20..2^30); `fileinto` (search-only): output, then read() into a mesh that already HOLDS non-zero data on "
        "fewer / as many / more nodes (file data with zeros, equal neighbours, alternating signs), then the index path, the guarded path, coord and "
        "the quadrature of every variable on the mesh read, and the writer again; `paths1` / `paths2`: every ordered pair of write paths on one node "
        "followed by every read path at first / last / interior (corner / edge / interior) nodes of 2 x N, N x 2, wide and tall grids, first and last "
        "variable index (10 of the 25 2-D pairs per quick run, rotating with the seed; all in the thorough tier); "
        "distinct = distinct executor line; non-trivial = at least 2 nodes per direction and at least one write")
TRUSTED = ["Coq 8.16.1 kernel + vm_compute (primitive floats: bit-exact IEEE-754)",
           "Rust executor /verif/harness (Rat = i128 rationals; f64 nodes of Mesh2D carried as exact dyadic rationals in the exact tier)",
           "python driver: generators, dictionary-of-nodes reference model with Fraction arithmetic, stream comparators, "
           "'%.*f' formatting assumed equal to Rust's {:.prec$} (both correctly rounded; checked by the tie on every file case)",
           "hand-written Gallina model coq/Model/Mesh.v tied to src/mesh1d.rs, src/mesh2d.rs by differential execution",
           "gen/Params.v MESH_SNAP regenerated from src/mesh1d.rs by driver/translate.py"]
ASSUMPTIONS = ["Rust semantics of Vec/usize as modelled (checked indexing, debug overflow checks on nx-1 / size()-1)",
               "number formatting / parsing is abstract in the model (Section variables; run with the table of formatted values)",
               "f64::powf(|v|, 2.0) modelled as |v|*|v| (tie by tolerance 1e-12, not bit identity)",
               "the sampled cases are where model and code were compared; the theorems are about the model"]
UNPROVED = ["floating-point accuracy of interpolation / quadrature (theorems are over R; the float instance is tied bit-for-bit and searched)",
            "file formatting: the round trip is proved for every formatter/parser pair with parse (fmt x) = Ok (rnd x) (read_layout_roundtrip_rounded: the mesh comes back rounded entry by entry, nothing else changed; idempotent after one trip), and for concrete fixed-point `{:.N}` (what src/mesh1d.rs uses) and scientific formatters over Qc with round-half-even (fix_formatter_laws, sci_formatter_laws, file_roundtrip_fix*, with the parser's second rounding as an arbitrary fl); read on ANY token list is characterised (read1_ok_iff, read1_any_length: a truncated file is read silently into the old values). NOT proved: that Rust's std formatter IS fmt_fix (240 recorded outputs agree, MeshIO3Sample.v; differences: -0.00 for negative values rounding to zero, NaN/inf) and that f64::from_str is nearest-onto-the-floats (Section hypothesis); the executor's file round trip checks both at run time, writing onto an existing longer file"]

MANIFEST = dict(
    text=("%d theorems about" % ntheorems("C19") + " the Gallina model of src/mesh1d.rs / src/mesh2d.rs (storage as the code stores it: node (i,j) at i*ny+j; every "
          "Vec access and usize subtraction checked; all sizes, all values). Any arithmetic, any coordinate type, closed under the global "
          "context: get-after-set for the guarded accessors and the index operators through the i*ny+j bijection (injective and onto), "
          "cross-sections in both directions, var_as_matrix, assign, apply, out-of-range rejection, and refinement of ANY sequence of valid "
          "writes to a function-update specification - also stated for the very step function the correspondence check executes. Over R on "
          "grids whose spacing exceeds twice the snapping window (the window is the constant regenerated from the source on every run): the "
          "interpolation loop (all cells tested, later cells overwriting) returns the nodal values at nodes, the cell's linear interpolant "
          "inside a cell, the right-hand neighbour's line inside a window (with the error bound |slope|*window), zeros outside - an exhaustive "
          "case analysis - and reproduces linear data at every point of the grid range; trapezium and square_trapezium = sum of cell contributions, exact for linear / bilinear data on ANY nodes. Token "
          "level: output writes nvars+1 tokens per node line (2-D: x y vars, blank line per y); read(output(m)) = m for any receiving mesh "
          "given parse(fmt x) = x; the reader on an arbitrary complete token stream; an unparsable token never yields a mesh. The same "
          "definitions run on primitive floats / Qc against the implementation on every check (operation histories with state read-backs, "
          "bit-identical expected and observed), and a dictionary-of-nodes reference in exact rational arithmetic searches for a failing input "
          "(also inside the snapping window on both sides of a node, on values with many digits, after read() into a mesh that already holds data, "
          "and after every ordered pair of write paths at corner / edge / interior nodes). "
          "Five Appendix-D variants (i*nx+j, swapped cross-section, weight 1/2, nvars-token reader, dropped right-node clause) are refuted "
          "against the theorems' conclusions in Legacy/meshRefuted.v."),
    note=("PARTIAL: floating-point accuracy is not proved (interpolation / quadrature theorems are over R; the f64 instance is tied "
          "bit-for-bit and searched with the tolerances of DESIGN 7: exact at nodes, 4 ulp at the last node, rounding-bound tolerance for "
          "quadrature); number formatting is outside the model (token layout and parse-after-format only; the tie runs the table of "
          "formatted values); powf(|v|,2) is modelled as |v|*|v|; raw (i,j) index operators are checked up to the flat-storage bounds only."),
    technique="Coq proof (generic Arith / R) + model/implementation differential execution (vm_compute vs Rust executor) + reference-model search",
    design="7 (C19)")

STEPS = [Fraction(1, 512), Fraction(1, 64), Fraction(3, 64), Fraction(1, 8), Fraction(1, 4), Fraction(3, 8), Fraction(1, 2),
         Fraction(3, 4), Fraction(1), Fraction(5, 4), Fraction(2), Fraction(3)]

def cv(elt, x):
    return Fraction(x) if elt == 'rat' else float(x)

def grid(rng, elt, n):
    if n == 0: return []
    x = Fraction(rng.range(-16, 16), 8)
    xs = [x]
    hs = []
    for k in range(n - 1):
        h = rng.choice(STEPS)
        if k == 1 and h == hs[0]:
            h = STEPS[(STEPS.index(h) + 1 + rng.below(len(STEPS) - 1)) % len(STEPS)]   # non-uniform
        hs.append(h)
        x += h
        xs.append(x)
    return [cv(elt, t) for t in xs]

def ival(rng, elt):
    return cv(elt, 0 if rng.chance(1, 8) else rng.range(-9, 9))

def ivec(rng, elt, n):
    return [ival(rng, elt) for _ in range(n)]

# ----------------------------------------------------------------------------- cases
def hist1_line(elt, nvars, nodes, ops):
    return "mesh.hist1 %d %s " % (nvars, tok_vec(elt, nodes)) + " ".join(op_line(elt, OPS1, o) for o in ops)

def hist2_line(elt, nvars, xs, ys, ops):
    return "mesh.hist2 %d %s %s " % (nvars, tok_vec(elt, xs), tok_vec(elt, ys)) + " ".join(op_line(elt, OPS2, o) for o in ops)

def hist1_term(elt, nvars, nodes, ops):
    m = Ref1(nvars, nodes, cv(elt, 0))
    cops = []
    for o in ops:
        tbl = fmt_table(m.values(), o[1]) if o[0] in ("file", "reread") else None
        cops.append(op_coq(elt, OPS1, o, tbl))
        try: ref_step1(m, o)
        except RefPanic:
            if o[0] in ENDS1: break
        if o[0] == "reread": break
    return "@mesh_hist1 %s %s %s %d %s %s" % (ARITH[elt], consts(elt), FLAT[elt], nvars, coq_vec(elt, nodes), coq_list(cops))

def hist2_term(elt, nvars, xs, ys, ops):
    m = Ref2(nvars, xs, ys, cv(elt, 0))
    cops = []
    for o in ops:
        tbl = fmt_table(m.values(), o[1]) if o[0] in ("file", "filevar") else None
        cops.append(op_coq(elt, OPS2, o, tbl))
        try: ref_step2(m, o, elt)
        except RefPanic:
            if o[0] in ENDS2: break
    return "@mesh_hist2 %s %s %s %d %s %s %s" % (ARITH[elt], consts(elt), FLAT[elt], nvars, coq_vec(elt, xs), coq_vec(elt, ys), coq_list(cops))

WRITES = {"set", "idxset", "idxelem", "assign", "apply"}

# The model side is dominated by coqc printing the answer (about 0.3 ms per small Z, 2 ms per 64-bit float
# pattern), so a case is run through the model only while the family's budget lasts; every case is run on the
# implementation and searched.
BUDGET = {}
def _cost(elt, exp):
    w = 8 if elt == 'f64' else 3
    return sum(1 if e[0] in ('i', 'P') else w for e in exp)

def _tie(family, n_items, force):
    left = BUDGET.get(family, 0)
    if force or n_items <= left:
        BUDGET[family] = left - n_items
        return True
    return False

def mk1(elt, nvars, nodes, ops, family, tol=1e-12, force=False):
    nt = len(nodes) >= 2 and any(o[0] in WRITES for o in ops)
    n_items = _cost(elt, ref_hist1(elt, nvars, copy.deepcopy(nodes), copy.deepcopy(ops)))
    # ops without a model constructor (OPS1[..][0] is None) are judged by the reference alone
    tied = all(OPS1[o[0]][0] for o in ops) and _tie(family, n_items, force)
    term = hist1_term(elt, nvars, nodes, ops) if tied else None
    return Case(elt, hist1_line(elt, nvars, nodes, ops), term,
                meta={"kind": "hist1", "nvars": nvars, "nodes": nodes, "ops": ops}, family=family + ("" if tied else "/search-only"), nontrivial=nt, tol=tol)

def mk2(elt, nvars, xs, ys, ops, family, tol=1e-12, force=False):
    nt = len(xs) >= 2 and len(ys) >= 2 and any(o[0] in WRITES for o in ops)
    n_items = _cost(elt, ref_hist2(elt, nvars, xs, ys, copy.deepcopy(ops)))
    tied = _tie(family, n_items, force)
    term = hist2_term(elt, nvars, xs, ys, ops) if tied else None
    return Case(elt, hist2_line(elt, nvars, xs, ys, ops), term,
                meta={"kind": "hist2", "nvars": nvars, "xs": xs, "ys": ys, "ops": ops}, family=family + ("" if tied else "/search-only"), nontrivial=nt, tol=tol)

def with_dumps(rng, ops, every):
    out = []
    for k, o in enumerate(ops):
        out.append(o)
        if (k + 1) % every == 0: out.append(("dump",))
    if not out or out[-1] != ("dump",): out.append(("dump",))
    return out

# ----------------------------------------------------------------------------- generators
def rand_op1(rng, elt, n, nvars, allow_bad=True):
    bad = allow_bad and rng.chance(1, 6)
    def node():
        if bad or n == 0: return rng.range(0, n + 1)
        return rng.below(n)
    name = rng.choice(["set", "set", "set", "get", "get", "idx", "idxset", "idxelem", "idxelem", "coord", "nnodes"])
    if name == "set": return (name, node(), ivec(rng, elt, nvars if not bad else rng.range(0, nvars + 1)))
    if name in ("get", "idx", "coord"): return (name, node())
    if name == "idxset": return (name, node(), ivec(rng, elt, nvars))
    if name == "idxelem":
        if n == 0 or nvars == 0: return ("nnodes",)
        return (name, rng.below(n), rng.below(nvars), ival(rng, elt))     # in range: a failing idxelem ends the history
    return (name,)

def fill1(rng, elt, n, nvars, lin=None):
    """writes that give every node data: integers, or (variable 0) the linear function a*x+b of the node"""
    ops = []
    for k in range(n):
        v = ivec(rng, elt, nvars)
        ops.append(("set", k, v) if rng.chance(2, 3) else ("idxset", k, v))
    return ops

def interior_points(rng, nodes):
    """mid-cells and interior positions at least 1e-6 from every node"""
    pts = []
    for k in range(len(nodes) - 1):
        a, b = Fraction(nodes[k]), Fraction(nodes[k + 1])
        pts.append(float((a + b) / 2))
        t = Fraction(rng.range(1, 1023), 1024)
        x = float(a + (b - a) * t)
        if min(Fraction(x) - a, b - Fraction(x)) >= Fraction(1, 10 ** 6): pts.append(x)
        # just outside the window, on either side
        e = Fraction(1, 2 ** 19)       # 1.9e-6
        pts.append(float(a + e) if rng.chance(1, 2) else float(b - e))
    return pts

def gen_hist1(rng, tier, cases):
    N = 160 if tier == "quick" else 1000
    g = rng.fork("hist1-rat")
    for h in range(N):
        n = g.range(2, 12) if h % 8 else g.range(0, 1)
        nvars = g.range(1, 4) if h % 11 else 0
        nodes = grid(g, 'rat', n)
        ops = with_dumps(g, [rand_op1(g, 'rat', n, nvars) for _ in range(g.range(4, 16))], 8)
        cases.append(mk1('rat', nvars, nodes, ops, "hist1-rat"))
    g = rng.fork("hist1-f64")
    for h in range(N // 2):
        n = g.range(2, 12); nvars = g.range(1, 4)
        nodes = grid(g, 'f64', n)
        ops = fill1(g, 'f64', n, nvars)
        ops += [("dump",)] + [rand_op1(g, 'f64', n, nvars) for _ in range(g.range(0, 8))] + [("dump",)]
        cases.append(mk1('f64', nvars, nodes, ops, "hist1-f64"))
    # interpolation: at every node, mid-cells, interior points; integer data and linear data
    g = rng.fork("interp")
    for h in range(N + N // 4):
        n = g.range(2, 12); nvars = g.range(1, 4)
        nodes = grid(g, 'f64', n)
        a, b = g.range(-5, 5), g.range(-9, 9)
        ops = []
        for k in range(n):
            v = ivec(g, 'f64', nvars)
            if h % 3 == 0: v[0] = a * nodes[k] + b          # exact: dyadic node, integer coefficients
            ops.append(("set", k, v))
        qs = [("interp", x) for x in nodes] + [("interp", x) for x in interior_points(g, nodes)]
        if h % 5 == 0:   # tie only: inside the snapping window, outside the grid
            qs += [("interp", nodes[g.below(n)] + 2.0 ** -26), ("interp", nodes[0] - 0.5), ("interp", nodes[-1] + 2.0 ** -25)]
        qs = g.shuffle(qs)[:8] + [("interp", nodes[-1]), ("interp", nodes[0])]
        if h % 5 in (1, 3):
            # INSIDE the 1e-7 snapping window, on BOTH sides of a node and inside the grid (left of an interior node, right of it, right
            # of the first node, left of the last one) at distances 2^-24 .. 2^-40: the property allows the nodal value, the line of
            # either cell that shares the node and anything between them there (meshlib.interp_expected), nothing outside that hull
            k = g.range(1, n - 2) if n >= 3 else 0
            for node, sides in ((k, (-1, 1) if n >= 3 else (1,)), (0, (1,)), (n - 1, (-1,))):
                for sg in sides:
                    qs.append(("interp", nodes[node] + sg * 2.0 ** -g.choice([24, 25, 26, 30, 40])))
            qs += [("interp", 0.5 * (nodes[0] + nodes[1])), ("interp", 0.5 * (nodes[-2] + nodes[-1]))]   # mid-cell of the first / last cell
        ops += qs
        ops += [("trap", v) for v in range(nvars)]
        cases.append(mk1('f64', nvars, nodes, ops, "interp-trap1" + ("-linear" if h % 3 == 0 else "")))
    # interp-exactdiv (own rng stream): cells whose width q/64 has an odd part q with fl(q * fl(1/q)) != 1 (49, 103, 107, 161, 187, 197:
    # the divisors on which "multiply by the reciprocal" is NOT the division) and nodal differences that are multiples of q, so that
    # the slope (right-left)/dx and every later intermediate is a binary64 number and the interpolant must come out exactly
    # (meshlib.interp_expected demands it bit for bit); queries at the mid-cell and the quarter points
    g = rng.fork("interp-exactdiv")
    for h in range(max(2, N // 8)):
        n = g.range(2, 6); nvars = g.range(1, 3)
        qs_odd = [g.choice([49, 103, 107, 161, 187, 197]) for _ in range(n - 1)]
        xs = [Fraction(g.range(-16, 16), 8)]
        for q in qs_odd: xs.append(xs[-1] + Fraction(q, 64))
        nodes = [float(x) for x in xs]
        vals = [[float(g.range(-9, 9)) for _ in range(nvars)]]
        for q in qs_odd:
            vals.append([v + float(q * g.choice([-3, -2, -1, 1, 2, 3])) for v in vals[-1]])
        ops = [("set", k, vals[k]) for k in range(n)]
        for k in range(n - 1):
            for num in (1, 2, 3):
                ops.append(("interp", float(xs[k] + (xs[k + 1] - xs[k]) * Fraction(num, 4))))
        ops += [("interp", x) for x in nodes]
        cases.append(mk1('f64', nvars, nodes, ops, "interp-exactdiv"))
    # file round trips
    g = rng.fork("file1")
    for h in range(N // 2):
        n = g.range(2, 12); nvars = g.range(1, 4)
        nodes = grid(g, 'f64', n)
        if h % 3 == 1:
            # values with MANY significant digits (more than a float32 / a 9-digit field holds): large integer data, and every
            # node shifted by a large dyadic offset (the spacing stays >= 1/512)
            off = g.choice([2.0 ** 20, -2.0 ** 20, 3.0 * 2.0 ** 22, 2.0 ** 30])
            if h % 2: nodes = [x + off for x in nodes]
            ops = [("set", k, [big_int(g) for _ in range(nvars)]) for k in range(n)]
        else:
            ops = [("set", k, ivec(g, 'f64', nvars)) for k in range(n)]
        prec = g.range(0, 9)
        if h % 4 == 3:
            ops.append(("reread", prec))
        else:
            nv2 = nvars if h % 4 != 2 else g.range(0, 4)
            n2 = g.choice([n, 0, 1, n + 2, g.range(0, 12)])
            ops.append(("file", prec, nv2, grid(g, 'f64', n2)))
        cases.append(mk1('f64', nvars, nodes, ops, "file1"))

def big_int(rng):
    """integer-valued, exactly representable, 7..13 significant decimal digits (or 0)"""
    if rng.chance(1, 8): return 0.0
    v = rng.choice([10 ** 6, 2 ** 24, 10 ** 9, 2 ** 31, 2 ** 40]) + rng.range(1, 99999)
    return float(-v if rng.chance(1, 2) else v)

def gen_fileinto(rng, tier, cases):
    """output, then read() into a mesh that already HOLDS non-zero data: fewer / as many / more nodes than the file, every stored value
    different from the file's (two-digit values against the file's one-digit ones, so a value that survives the read is visible at every
    precision), file data with zeros, equal neighbours and sign changes; then every read path and the quadrature on the mesh read"""
    N = 40 if tier == "quick" else 250
    g = rng.fork("fileinto")
    for h in range(N):
        n = g.range(2, 12); nvars = g.range(1, 4)
        nodes = grid(g, 'f64', n)
        rows = [ivec(g, 'f64', nvars) for _ in range(n)]
        rows[g.below(n)][g.below(nvars)] = 0.0                     # a stored zero
        if h % 4 == 1: rows = [[float((-1) ** k * (1 + k % 3))] * nvars for k in range(n)]      # alternating sign
        if h % 4 == 2: rows = [[float(g.range(-9, 9))] * nvars] * n                             # all nodes equal
        ops = [("set", k, list(rows[k])) for k in range(n)]
        n2 = [n, n, max(n - g.range(1, 3), 0), n + g.range(1, 3), 1, 0][h % 6]
        nodes2 = grid(g, 'f64', n2)
        data2 = [float(g.range(11, 99) * g.choice([1, -1])) for _ in range(n2 * nvars)]
        ops.append(("fileinto", g.range(0, 9), nodes2, data2))
        cases.append(mk1('f64', nvars, nodes, ops, "file1-into"))

def gen_paths(rng, tier, cases):
    """every ORDERED PAIR of write paths on the same node, then every read path, at the first / last / an interior node (1-D) and at a
    corner / an edge / an interior node (2-D) of wide, tall, 2 x N and N x 2 grids; every variable index is written and read"""
    g = rng.fork("paths")
    # ---- 1-D: writes set / idxset / idxelem; reads get, idx, interp at the node, trap of every variable, dump
    W1 = ["set", "idxset", "idxelem"]
    pairs = [(a, b) for a in W1 for b in W1]
    for h, (wa, wb) in enumerate(pairs):
        n = [2, 3, 5, 12][h % 4]; nvars = [1, 4, 2, 3][(h // 2) % 4]
        nodes = grid(g, 'f64', n)
        ops = fill1(g, 'f64', n, nvars)
        for node in dict.fromkeys([0, n - 1, n // 2]):
            for w in (wa, wb):
                var = g.choice([0, nvars - 1])                       # first / last variable
                if w == "idxelem": ops.append((w, node, var, float(g.range(10, 99))))
                else: ops.append((w, node, [float(g.range(10, 99)) for _ in range(nvars)]))
            ops += [("get", node), ("idx", node), ("coord", node), ("interp", nodes[node])]
        ops += [("trap", v) for v in range(nvars)] + [("dump",)]
        cases.append(mk1('f64', nvars, nodes, ops, "paths1"))
    # ---- 2-D: writes set / idxset / idxelem / assign / apply; reads get, idx, both cross-sections through the node, var_as_matrix of
    # every variable, dump
    W2 = ["set", "idxset", "idxelem", "assign", "apply"]
    pairs = [(a, b) for a in W2 for b in W2]
    if tier == "quick": pairs = g.shuffle(pairs)[:10]
    shapes = [(2, 5), (5, 2), (3, 4), (4, 3), (2, 2), (3, 3), (2, 7), (6, 2)]
    for h, (wa, wb) in enumerate(pairs):
        nx, ny = shapes[h % len(shapes)]; nvars = [1, 4, 2, 3][h % 4]
        elt = 'rat' if h % 3 else 'f64'
        xs, ys = grid(g, elt, nx), grid(g, elt, ny)
        f = ("bin", "+", ("bin", "*", ("v", 0), ("lit", cv(elt, 1000))), ("v", 1))
        ops = [("apply", f, v) for v in range(nvars)]
        corner = [(0, 0), (0, ny - 1), (nx - 1, 0), (nx - 1, ny - 1)][h % 4]
        edge = (nx - 1, ny // 2) if h % 2 else (nx // 2, 0)
        inner = (nx // 2, ny // 2)
        for (i, j) in dict.fromkeys([corner, edge, inner]):
            for w in (wa, wb):
                var = g.choice([0, nvars - 1])
                val = cv(elt, g.range(10, 99))
                if w == "set" or w == "idxset": ops.append((w, i, j, [cv(elt, g.range(10, 99)) for _ in range(nvars)]))
                elif w == "idxelem": ops.append((w, i, j, var, val))
                elif w == "assign": ops.append((w, val))
                else: ops.append((w, rand_ast(g, elt), var))
            ops += [("get", i, j), ("idx", i, j), ("coord", i, j), ("xsec", i), ("ysec", j)] + [("varmat", v) for v in range(nvars)]
        ops.append(("dump",))
        cases.append(mk2(elt, nvars, xs, ys, ops, "paths2"))

def rand_ast(rng, elt, depth=2):
    k = rng.below(6) if depth > 0 else rng.below(2)
    if k == 0: return ("v", rng.below(2))
    if k == 1: return ("lit", cv(elt, rng.range(-6, 6)))
    if k == 5: return ("neg", rand_ast(rng, elt, depth - 1))
    return ("bin", rng.choice("+-*"), rand_ast(rng, elt, depth - 1), rand_ast(rng, elt, depth - 1))

def bilinear_ast(elt, a, b, c, d):
    L = lambda x: ("lit", cv(elt, x))
    return ("bin", "+", ("bin", "+", ("bin", "+", L(a), ("bin", "*", L(b), ("v", 0))), ("bin", "*", L(c), ("v", 1))),
            ("bin", "*", ("bin", "*", L(d), ("v", 0)), ("v", 1)))

def rand_op2(rng, elt, nx, ny, nvars, allow_bad=True):
    bad = allow_bad and rng.chance(1, 6)
    def ii():
        return rng.range(0, nx + 1) if (bad or nx == 0) else rng.below(nx)
    def jj():
        return rng.range(0, ny + 1) if (bad or ny == 0) else rng.below(ny)
    name = rng.choice(["set", "set", "set", "get", "get", "idx", "idxset", "idxelem", "idxelem", "coord", "nnodes",
                       "xsec", "ysec", "varmat", "assign", "apply"])
    if name == "set": return (name, ii(), jj(), ivec(rng, elt, nvars if not bad else rng.range(0, nvars + 1)))
    if name in ("get", "coord"): return (name, ii(), jj())
    if nx * ny == 0 or nvars == 0:
        if name in ("idx", "idxset", "idxelem"): return ("nnodes",)
    if name == "idx": return (name, rng.below(nx), rng.below(ny))
    if name == "idxset": return (name, rng.below(nx), rng.below(ny), ivec(rng, elt, nvars))
    if name == "idxelem": return (name, rng.below(nx), rng.below(ny), rng.below(nvars), ival(rng, elt))
    if name == "xsec": return (name, ii())
    if name == "ysec": return (name, jj())
    if name == "varmat": return (name, rng.range(0, nvars) if bad or nvars == 0 else rng.below(nvars))
    if name == "assign": return (name, ival(rng, elt))
    if name == "apply":
        if nvars == 0: return ("nnodes",)
        return (name, rand_ast(rng, elt), rng.below(nvars))
    return (name,)

def shape(rng, h):
    if h % 3 == 0: nx, ny = rng.range(2, 12), rng.range(2, 12)
    else: nx, ny = rng.range(2, 5), rng.range(2, 6)         # small grids carry the long histories
    if nx == ny and h % 2: ny = 2 + (ny - 1) % 11           # mostly non-square
    return nx, ny

def gen_hist2(rng, tier, cases):
    N = 160 if tier == "quick" else 1000
    for elt in ('rat', 'f64'):
        g = rng.fork("hist2-" + elt)
        for h in range(N):
            nx, ny = shape(g, h)
            if h % 10 == 9: nx, ny = g.range(0, 2), g.range(0, 3)
            nvars = g.range(1, 4) if h % 13 else 0
            xs, ys = grid(g, elt, nx), grid(g, elt, ny)
            big = nx * ny * max(nvars, 1) > 40
            ops = with_dumps(g, [rand_op2(g, elt, nx, ny, nvars) for _ in range(g.range(3, 6 if big else 16))], 100 if big else 6)
            cases.append(mk2(elt, nvars, xs, ys, ops, "hist2-" + elt))
    # index-map sweeps on (mostly) non-square grids
    g = rng.fork("imap")
    shapes = [(nx, ny) for nx in range(2, 13) for ny in range(2, 13)]
    if tier == "quick": shapes = g.shuffle(shapes)[:36]
    for k, (nx, ny) in enumerate(shapes):
        elt = 'rat' if k % 4 else 'f64'
        nvars = 1 + k % 3
        # distinct integer nodes scaled so that x*1000 + y is injective over the grid
        xs = [cv(elt, t) for t in range(1, nx + 1)]; ys = [cv(elt, Fraction(t, 2)) for t in range(1, ny + 1)]
        var = k % nvars
        f = ("bin", "+", ("bin", "*", ("v", 0), ("lit", cv(elt, 1000))), ("v", 1))
        ops = [("apply", f, var), ("dump",)]
        ii = list(range(nx)) if tier == "thorough" else g.shuffle(range(nx))[:3]
        jj = list(range(ny)) if tier == "thorough" else g.shuffle(range(ny))[:3]
        ops += [("xsec", i) for i in ii] + [("ysec", j) for j in jj] + [("varmat", var)]
        ops += [("get", g.below(nx), g.below(ny)), ("idx", g.below(nx), g.below(ny)), ("coord", g.below(nx), g.below(ny))]
        if k % 4 == 0: ops += [("assign", ival(g, elt)), ("dump",)]
        cases.append(mk2(elt, nvars, xs, ys, ops, "index-map"))
    # quadrature: integer data and bilinear data (exact in f64 on dyadic nodes), files
    g = rng.fork("quad2")
    for h in range(N):
        nx, ny = shape(g, h); nvars = g.range(1, 3)
        xs, ys = grid(g, 'f64', nx), grid(g, 'f64', ny)
        ops = []
        for v in range(nvars):
            if (h + v) % 2 == 0:
                ops.append(("apply", bilinear_ast('f64', g.range(-4, 4), g.range(-4, 4), g.range(-4, 4), g.range(-3, 3)), v))
            else:
                for _ in range(min(nx * ny, 12)):
                    ops.append(("idxelem", g.below(nx), g.below(ny), v, ival(g, 'f64')))
        ops += [("get", g.below(nx), g.below(ny)) for _ in range(3)]
        for v in range(nvars): ops += [("trap", v), ("sqtrap", v)]
        if h % 5 == 0 and nx * ny <= 36: ops.append(("file", g.range(0, 9)))
        if h % 5 == 1 and nx * ny <= 36: ops.append(("filevar", g.range(0, 9), g.below(nvars)))
        cases.append(mk2('f64', nvars, xs, ys, ops, "quad2" + ("-bilinear" if h % 2 == 0 else "")))

def generate(rng, tier):
    cases = []
    per = 1 if tier == "quick" else 5
    for f, b in (("hist1-rat", 30000), ("hist1-f64", 12000), ("interp-trap1", 30000), ("interp-trap1-linear", 15000), ("interp-exactdiv", 15000), ("file1", 18000),
                 ("hist2-rat", 45000), ("hist2-f64", 18000), ("index-map", 30000), ("quad2", 14000), ("quad2-bilinear", 14000), ("paths1", 6000), ("paths2", 12000)):
        BUDGET[f] = per * b
    gen_hist1(rng, tier, cases)
    gen_fileinto(rng, tier, cases)
    gen_paths(rng, tier, cases)
    gen_hist2(rng, tier, cases)
    return rng.fork("order").shuffle(cases)      # the model side is sharded in order: spread the heavy families

# ----------------------------------------------------------------------------- corpus / replay
def _ser(x):
    if isinstance(x, Fraction): return "%d/%d" % (x.numerator, x.denominator)
    if isinstance(x, (list, tuple)): return [_ser(y) for y in x]
    if isinstance(x, dict): return {k: _ser(v) for k, v in x.items()}
    return x

def _conv(elt, x):
    if isinstance(x, str) and "/" in x: return Fraction(x)
    return x

def _conv_op(elt, table, o):
    out = [o[0]]
    for k, a in zip(table[o[0]][1], o[1:]):
        if k == "s": out.append(cv(elt, _conv(elt, a)))
        elif k == "v": out.append([cv(elt, _conv(elt, x)) for x in a])
        elif k == "e": out.append(ast_conv(_tup(a), lambda c: cv(elt, _conv(elt, c))))
        else: out.append(a)
    return tuple(out)

def _tup(e):
    return tuple(_tup(x) if isinstance(x, list) else x for x in e)

def case_from_json(j):
    elt, m = j["elt"], j["meta"]
    if m["kind"] == "hist1":
        ops = [_conv_op(elt, OPS1, o) for o in m["ops"]]
        return mk1(elt, m["nvars"], [cv(elt, _conv(elt, x)) for x in m["nodes"]], ops, "corpus", force=True)
    ops = [_conv_op(elt, OPS2, o) for o in m["ops"]]
    return mk2(elt, m["nvars"], [cv(elt, _conv(elt, x)) for x in m["xs"]], [cv(elt, _conv(elt, x)) for x in m["ys"]], ops, "corpus", force=True)

# ----------------------------------------------------------------------------- the property as a predicate
def oracle(case, items):
    m = case.meta
    if m["kind"] == "hist1":
        exp = ref_hist1(case.elt, m["nvars"], m["nodes"], m["ops"])
        what = "1-D mesh history"
    else:
        exp = ref_hist2(case.elt, m["nvars"], m["xs"], m["ys"], m["ops"])
        what = "2-D mesh history"
    d = compare_expected(case.elt, exp, items)
    if d:
        return "%s disagrees with the node-dictionary reference (stored values / interpolant / cell sums / printed precision): %s" % (what, d)
    return None
