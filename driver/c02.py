# C02 -- determinant and inverse agree with exact linear algebra; matrix left intact.
from fractions import Fraction
from common import *
from engine import Case
from linalg import *
import c01

PID = "C02"
IMPORTS = "From OV Require Import Model.Vector Model.Matrix Model.MatOps Model.Solve."
MODEL_VO = ["Model/Solve.vo"]
RULE = ("square matrices of order 1..8 over Rat/f64/Complex: dense, sparse-patterned, permutation-like (odd and even numbers of exchanges), "
        "triangular, singular (rank n-1, rank <= n-2, zero rows/columns, all-ones); kinds det, inverse, lu; round four: 18 special structures "
        "(identity, scalar, diagonal, unit triangular, anti-diagonal, cyclic shift, Toeplitz, arrow, all entries +-1, columns of equal magnitude, symmetric, "
        "gapped band, diagonal plus corners) at Rat / f64 / Complex (columns times 1, +-i, 0.6+0.8i, 1+i), Complex matrices of special values only, signed zeros, "
        "matrices scaled by 2^+-k (inverse k <= 900, determinant k*n <= 900), orders 9..12 (Rat) and 9..24 (f64; ..32 thorough), lower-triangular and "
        "sparse-patterned float families, sparse-patterned Rat (singular patterns included); adversarial family cplx-extreme-scale "
        "(well-conditioned Complex<f64> matrices with |z| in 1e-200..1e-155 and 1e155..1e200: recorded finding cplx-sqmod-range); "
        "distinct = distinct executor line; non-trivial = order >= 2")
TRUSTED = c01.TRUSTED
ASSUMPTIONS = ["Rust semantics of Vec/usize as modelled", "float accuracy of det/inverse is searched, not proved",
               "nonsingular (inverse half) is decided exactly (Fraction elimination; over Q(i) for Complex<f64>); exactly singular Complex draws are redrawn; "
               "a float matrix with numpy cond_inf(A) > 1e15 is excused ONLY a non-finite inverse (counted in measured); finite answers are judged in full",
               "'matrix unchanged' is observed by the executor (snapshot before/after); a value model satisfies it vacuously",
               "the theorems assume FieldLaws + PivLaws of the element arithmetic; both are proved for Qc, R, C = R[i] and mathcomp's rat (not for floats, which are no field)"]
UNPROVED = ["round two: determinant_product_error (computed det = +-prod u_ii (1+theta), |theta| <= gamma_n) and inverse_backward_error (each column of the computed inverse is an exact column of (A+dA_j)^-1) in the standard rounding model; the growth factor is not bounded -- f64/Complex accuracy itself is tie + search",
            "determinant = \\det is proved for arithmetics built from a mathcomp fieldType (ArithOf F); at the Qc instance used by the exact tier the "
            "same generic function is covered by lu_spec/determinant_sign_rule (abstract field) and by the Fraction oracle, not by a \\det statement"]

MANIFEST = dict(
    text=("Theorems (every order n, every entry value, singular input included; Coq, closed under the global context) about the Gallina model "
          "of src/matrix/solve.rs over any field with a magnitude (FieldLaws + PivLaws, both proved for Qc, R and C=R[i]): lu_decomp_in_place "
          "always returns and P*M = unit_lower(LU)*upper(LU) with P the identity permuted by `pivots` genuine row transpositions (lu_spec); "
          "determinant never panics and is (+/-) the product of U's diagonal with the sign given by the parity of the exchanges "
          "(determinant_sign_rule, determinant_total); for every mathcomp fieldType the code's determinant IS \\det (determinant_is_det), hence "
          "0 on every singular matrix, sign flip under a row exchange, multiplicativity (determinant_singular_zero/_row_swap/_mul); for every "
          "nonsingular matrix (one with a left inverse Nf) over any such field -- Qc, R, C included -- inverse returns Nf and it is a two-sided "
          "inverse, and the determinant is a nonzero value (inverse_nonsingular, determinant_nonsingular); inverse, when it returns, is a right "
          "inverse (inverse_right), two-sided and unique over a fieldType (inverse_two_sided, inverse_unique); it returns exactly on "
          "nonsingular input and panics with DivZero exactly on singular input (inverse_complete, inverse_returns_iff_nonsingular, "
          "inverse_panics_iff_singular, inverse_result); solve_lu is sound and complete (the LU half of C01). The pre-repair determinant is "
          "refuted on the committed witnesses (Legacy/C02Refuted.v). The same Gallina functions are run against the implementation on every "
          "check (Rat vs Qc exact; f64/Complex<f64> vs primitive floats, bit-compared) on orders 1..8 of dense, zero-leading, permutation-like, "
          "triangular and singular (rank n-1, rank <= n-2, zero rows/columns, all-ones) matrices with odd and even numbers of exchanges; an "
          "independent exact determinant (Fraction elimination, real and complex), the two-sided inverse identity and P*A = L*U itself are "
          "evaluated on the implementation's answers to search for a failing input; the operand is compared with a clone taken before the call. "
          "Structured families (round four): special structures, Complex entries on the axes / of unit modulus / with |re| = |im|, signed zeros, "
          "scaling by 2^+-k, orders above 8, sparse patterns."),
    note=("Partial: rounding accuracy of det/inverse over f64/Complex<f64> is tied (bitwise against the float model) and searched (1e-10/1e-9 "
          "scaled tolerances), not proved. 'Matrix left intact' is true by typing in a value model; in Rust it is a run-time observation of the "
          "executor (snapshot before/after). PivLaws (abs x = 0 <-> x = 0; x <> 0 -> 0 < |x|; not |x| < 0) is an auxiliary hypothesis the code "
          "genuinely needs (the skip of a zero pivot column is decided by Signed::abs and PartialOrd); it is proved for Qc, R, C and mathcomp's rat. "
          "Recorded finding (open, key cplx-sqmod-range, decided from the input): over Complex<f64> the modulus and the division square the "
          "components unscaled, so for entries/pivots with re^2+im^2 outside the normal f64 range inverse/determinant fail on well-conditioned "
          "input (witnesses corpus/C02/kf_cplx_scale_*.json run on every check and print one KNOWN-FINDING line); the float instance simply does "
          "not meet PivLaws there."),
    technique=("Coq 8.16 proof over an abstract field (loop invariants of the in-place LU, substitution loops as written, checked indexing) + "
               "mathcomp 1.15 bridge for \\det / mulmx1C + model/implementation differential execution (vm_compute vs Rust executor) + exact python oracle"),
    design="7 (C02), Appendix E (statements gain PivLaws; see Props/C02.v header)")

def singular(rng, n, kind):
    one = Fraction(1)
    A = [c01.rval(rng) for _ in range(n * n)]
    if kind == "ones": return [one] * (n * n)
    if kind == "zeros": return [0 * one] * (n * n)
    if kind == "zero-row":
        r = rng.below(n)
        for j in range(n): A[r*n+j] = 0 * one
    elif kind == "zero-col":
        c = rng.below(n)
        for i in range(n): A[i*n+c] = 0 * one
    elif kind == "rank-1":
        u = [c01.rval(rng) for _ in range(n)]; v = [c01.rval(rng) for _ in range(n)]
        A = [u[i] * v[j] for i in range(n) for j in range(n)]
    elif kind == "dup-row" and n >= 2:
        r1, r2 = rng.below(n), rng.below(n)
        if r1 == r2: r2 = (r1 + 1) % n
        for j in range(n): A[r2*n+j] = A[r1*n+j] * 2
    elif kind == "rank-n-2" and n >= 3:
        for j in range(n):
            A[(n-1)*n+j] = A[0*n+j] + A[1*n+j]
            A[(n-2)*n+j] = A[0*n+j] - A[1*n+j]
    return A

def pivot_ties(A, n):
    """does the maximum-magnitude pivot rule have a choice at some step (two candidates of equal, nonzero, maximal magnitude)?
    If not, the factors (LU, P, pivots) are determined by 'partial pivoting by magnitude' and are compared with the model exactly;
    if so, another valid tie-break gives other factors, and the case is checked by the oracle only (P*A = L*U, parity)."""
    M = [[Fraction(A[i*n+j]) for j in range(n)] for i in range(n)]
    for i in range(n):
        col = [abs(M[k][i]) for k in range(i, n)]
        mx = max(col)
        if mx == 0: continue
        if col.count(mx) > 1: return True
        p = i + col.index(mx)
        M[i], M[p] = M[p], M[i]
        for j in range(i + 1, n):
            f = M[j][i] / M[i][i]
            for k in range(i, n): M[j][k] -= f * M[i][k]
    return False

def mk(elt, kind, n, A, family, nontrivial=True):
    M = (n, n, A)
    ar, fl = ARITH[elt], FLAT[elt]
    if kind == "det":
        term = "fl_res %s (@determinant %s %s)" % (fl, ar, coq_mat(elt, M))
    elif kind == "inverse":
        term = "fl_res (@fl_mat %s %s) (@inverse %s %s)" % (ar, fl, ar, coq_mat(elt, M))
    elif kind == "lu":
        term = ("fl_res (fun r : matrix %s * nat * matrix %s => let '(lu, piv, perm) := r in fl_nat piv ++ @fl_mat %s %s perm ++ @fl_mat %s %s lu) (@lu_decomp %s %s)"
                % (ar, ar, ar, fl, ar, fl, ar, coq_mat(elt, M)))
        if pivot_ties(A, n):
            term = None; family = family + "(pivot-tie: oracle only)"
    return Case(elt, "mat.%s %s" % (kind, tok_mat(elt, M)), term, meta={"kind": kind, "n": n, "A": A}, family=family, nontrivial=nontrivial)

def generate(rng, tier):
    cases = []
    N = 24 if tier == "quick" else 240
    g = rng.fork("ns")
    for fam in ["dense", "zero-lead", "perm", "upper", "lower", "neg-dominant"]:
        for t in range(N):
            n = 1 + (t % 8)
            A = c01.gen_matrix(g, n, fam, 'rat')
            for kind in ("det", "inverse", "lu"):
                cases.append(mk('rat', kind, n, A, "rat-%s-%s" % (fam, kind), n >= 2))
    g = rng.fork("sing")
    for sk in ["ones", "zeros", "zero-row", "zero-col", "rank-1", "dup-row", "rank-n-2"]:
        for t in range(max(8, N // 2)):
            n = 1 + (t % 8)
            A = singular(g, n, sk)
            cases.append(mk('rat', "det", n, A, "rat-singular-" + sk, n >= 2))
            cases.append(mk('f64', "det", n, [float(x) for x in A], "f64-singular-" + sk, n >= 2))
    g = rng.fork("flt")
    for elt in ('f64', 'cplx'):
        for fam in ["dense", "zero-lead", "perm", "upper", "neg-dominant"]:
            for t in range(max(6, N // 3)):
                n = 1 + (t % 8)
                for _ in range(20):
                    A = c01.gen_matrix(g, n, fam, 'f64')
                    if c01.nonsingular(A, n): break
                if elt == 'cplx':
                    # imaginary parts added to a nonsingular real matrix can make it exactly singular over C: redraw them
                    A = c01.cplx_nonsingular_draw(lambda: [complex(x, c01.fval(g) if g.chance(1, 2) else 0.0) for x in A], n)
                    if A is None: continue
                for kind in ("det", "inverse"):
                    cases.append(mk(elt, kind, n, A, "%s-%s-%s" % (elt, fam, kind), n >= 2))
    # Complex<f64> entries on the axes (columns of a real nonsingular matrix times units 1, -1, i, -i): see driver/c01.py
    g = rng.fork("cplx-axes")
    for fam in ["dense", "zero-lead", "perm", "upper", "neg-dominant"]:
        for t in range(5 if tier == "quick" else 30):
            n = 1 + (t % 6)
            for _ in range(20):
                A = c01.gen_matrix(g, n, fam, 'f64')
                if c01.nonsingular(A, n): break
            if not c01.nonsingular(A, n): continue
            us = [g.choice([1, -1, 1j, -1j]) for _ in range(n)]
            if t % 3 == 0: us = [g.choice([1j, -1j])] * n
            Ac = [complex(A[i * n + j]) * us[j] for i in range(n) for j in range(n)]
            for kind in ("det", "inverse"):
                cases.append(mk('cplx', kind, n, Ac, "cplx-axes-%s-%s" % (fam, kind), n >= 2))
    # adversarial: Complex<f64> at magnitudes where re^2 + im^2 leaves the f64 range (recorded finding cplx-sqmod-range);
    # well-conditioned patterns, so the exact answer is representable and the property's float half applies
    g = rng.fork("cplx-extreme-scale")
    for t in range(max(12, N // 2)):
        n = 1 + (t % 6)
        k = g.range(-200, -155) if t % 2 == 0 else g.range(155, 200)
        sc = 10.0 ** k
        pat = ("diag", "dominant", "dominant-rowperm")[t % 3]
        A = [complex(0.0, 0.0)] * (n * n)
        for i in range(n):
            for j in range(n):
                if i == j:
                    A[i*n+j] = complex((n + 2 + g.below(5)) * (1 if g.chance(1, 2) else -1), g.range(-1, 1))
                elif pat != "diag":
                    A[i*n+j] = complex(g.range(-1, 1), g.range(-1, 1))
        if pat == "dominant-rowperm":
            p = g.shuffle(range(n))
            A = [A[p[i]*n+j] for i in range(n) for j in range(n)]
        A = [z * sc for z in A]
        cases.append(mk('cplx', "inverse", n, A, "cplx-extreme-scale-inverse", n >= 2))
    for t in range(max(6, N // 4)):          # one tiny column, the rest O(1): the determinant itself is representable
        n = 2 + (t % 4)
        tcol = 10.0 ** g.range(-200, -163)
        A = [complex(g.range(1, 4) * (1 if g.chance(1, 2) else -1), g.range(-2, 2)) for _ in range(n * n)]
        for i in range(n): A[i*n+i] += complex(n + 3, 0)
        for i in range(n): A[i*n+0] = A[i*n+0] * tcol
        cases.append(mk('cplx', "det", n, A, "cplx-extreme-scale-det", True))
    cases += gen_special(rng, tier)
    # non-square: rejected
    g = rng.fork("bad")
    for r in range(0, 4):
        for c in range(0, 4):
            if r == c: continue
            M = (r, c, [c01.rval(g) for _ in range(r * c)])
            for kind in ("det", "inverse"):
                ar, fl = "AQ", "flat_q"
                term = ("fl_res %s (@determinant %s %s)" % (fl, ar, coq_mat('rat', M))) if kind == "det" else \
                       ("fl_res (@fl_mat %s %s) (@inverse %s %s)" % (ar, fl, ar, coq_mat('rat', M)))
                cases.append(Case('rat', "mat.%s %s" % (kind, tok_mat('rat', M)), term, meta={"bad": True, "kind": kind}, family="rejects"))
    return cases

# ---- round four (package specA): special structure, special values, magnitudes, orders above 8 (findings/special-values-specA.md)
def gen_special(rng, tier):
    cases = []
    quick = tier == "quick"
    rot = c01.rot
    # (s1) special STRUCTURE (identity, scalar, diagonal, unit triangular, anti-diagonal, cyclic shift, all entries +-1, columns of
    # equal magnitude, symmetric, arrow, ...) at all three element kinds; det, inverse and (Rat) the factorisation
    g = rng.fork("special-structure")
    for n in (range(1, 7) if quick else range(1, 9)):
        for name, A in special_matrices(g, n):
            for kind in ("det", "inverse", "lu"):
                cases.append(mk('rat', kind, n, A, "special-rat-%s-%s" % (name, kind), n >= 2))
            Af = [float(x) for x in A]
            us = [g.choice([1, 1j, -1j, complex(0.6, 0.8), complex(-0.8, 0.6), 1 + 1j]) for _ in range(n)]
            Ac = [complex(Af[i*n+j]) * us[j] for i in range(n) for j in range(n)]
            for kind in (("det", "inverse") if not quick else rot(g, ["det", "inverse"], 1)):
                cases.append(mk('f64', kind, n, Af, "special-f64-%s-%s" % (name, kind), n >= 2))
            for kind in ("det", "inverse"):
                cases.append(mk('cplx', kind, n, Ac, "special-cplx-%s-%s" % (name, kind), n >= 2))
    # (s2) Complex<f64> matrices whose entries are ALL special values (+-1, +-i, 0.6+0.8i, 1+-i, 2, 1/2, 3+4i, 0)
    g = rng.fork("special-cplx-values")
    for t in range(18 if quick else 150):
        n = 1 + (t % 6)
        A = special_cplx_matrix(g, n)
        if A is None: continue
        for kind in ("det", "inverse"):
            cases.append(mk('cplx', kind, n, A, "special-cplx-values-" + kind, n >= 2))
    # (s3) signed zeros
    g = rng.fork("neg-zero")
    for t in range(12 if quick else 80):
        n = 1 + (t % 6)
        fam = ["zero-lead", "perm", "upper", "lower"][t % 4]
        for _ in range(20):
            A = c01.gen_matrix(g, n, fam, 'f64')
            if c01.nonsingular(A, n): break
        if not c01.nonsingular(A, n): continue
        A = [(-0.0 if (x == 0 and g.chance(1, 2)) else x) for x in A]
        for kind in ("det", "inverse"):
            cases.append(mk('f64', kind, n, A, "f64-neg-zero-" + kind, n >= 2))
    # (s4) magnitudes: the whole matrix scaled by 2^+-k.  inverse: k = 200..900 (f64, half of them beyond 2^+-512 where the square of an entry leaves the range), 100..300 (Complex, inside the range where
    # re^2+im^2 is normal); determinant: k*n <= 900 (Complex: 450) so that the exact determinant (scaled by 2^(+-k n)) is a normal number
    g = rng.fork("extreme-scale")
    for t in range(36 if quick else 240):
        n = 1 + (t % 6)
        fam = ["dense", "zero-lead", "perm", "neg-dominant", "upper", "lower"][(t // 6) % 6]
        for _ in range(20):
            A = c01.gen_matrix(g, n, fam, 'f64')
            if c01.nonsingular(A, n): break
        if not c01.nonsingular(A, n): continue
        cplx = t % 3 == 2
        sg = 1 if g.chance(1, 2) else -1
        ki = g.range(100, 300) if cplx else (g.range(520, 900) if t % 2 == 0 else g.range(200, 519))   # beyond 2^+-512 squares leave the range
        kd = min(ki, 900 // n) if not cplx else min(ki, 450 // n)
        if cplx:
            A = c01.cplx_nonsingular_draw(lambda: [complex(x, c01.fval(g) if g.chance(1, 2) else 0.0) for x in A], n)
            if A is None: continue
        elt = 'cplx' if cplx else 'f64'
        cases.append(mk(elt, "inverse", n, [x * 2.0 ** (sg * ki) for x in A], "%s-scaled-2^k-inverse" % elt, n >= 2))
        cases.append(mk(elt, "det", n, [x * 2.0 ** (sg * kd) for x in A], "%s-scaled-2^k-det" % elt, n >= 2))
    # (s5) orders above 8: Rat 9..12, f64 9..24 (thorough: ..32)
    g = rng.fork("large-order")
    for n in (rot(g, [9, 10, 11, 12], 2) if quick else [9, 10, 11, 12]):
        for fam in ["dense", "perm"]:
            A = c01.int_matrix(g, n, fam)
            if A is None: continue
            for kind in ("det", "inverse", "lu"):
                cases.append(mk('rat', kind, n, [Fraction(int(x)) for x in A], "rat-order-9..12-%s-%s" % (fam, kind), True))
    for n in (sorted(set([9, 16, 17] + rot(g, list(range(9, 25)), 3))) if quick else list(range(9, 33))):
        for fam in (["dense", "zero-lead", "perm"] if not quick else rot(g, ["dense", "zero-lead", "perm"], 2)):
            A = c01.int_matrix(g, n, fam)
            if A is None: continue
            for kind in ("det", "inverse"):
                cases.append(mk('f64', kind, n, A, "f64-order-9..32-%s-%s" % (fam, kind), True))
    # (s6) the float families the first version lacked: lower triangular, sparse-patterned (the quantifier names both)
    g = rng.fork("flt-extra")
    for elt in ('f64', 'cplx'):
        for fam in ["lower", "sparse"]:
            for t in range(6 if quick else 40):
                n = 1 + (t % 8)
                A = None
                for _ in range(30):
                    A = c01.gen_matrix(g, n, "lower" if fam == "lower" else "dense", 'f64')
                    if fam == "sparse": A = [(x if g.chance(1, 3) else 0.0) for x in A]
                    if c01.nonsingular(A, n): break
                if A is None or not c01.nonsingular(A, n): continue
                if elt == 'cplx':
                    A = c01.cplx_nonsingular_draw(lambda: [complex(x, (c01.fval(g) if g.chance(1, 2) else 0.0) if x != 0 else 0.0) for x in A], n)
                    if A is None: continue
                for kind in ("det", "inverse"):
                    cases.append(mk(elt, kind, n, A, "%s-%s-%s" % (elt, fam, kind), n >= 2))
    # sparse-patterned exact: includes singular patterns (zero determinant must be reported as exactly zero)
    for t in range(16 if quick else 120):
        n = 1 + (t % 8)
        A = [(c01.rval(g) if g.chance(1, 3) else Fraction(0)) for _ in range(n * n)]
        for kind in ("det", "inverse", "lu"):
            cases.append(mk('rat', kind, n, A, "rat-sparse-" + kind, n >= 2))
    return cases

def case_from_json(j):
    m = j["meta"]; elt = j["elt"]
    conv = {'rat': Fraction, 'f64': float, 'cplx': complex}[elt]
    return mk(elt, m["kind"], m["n"], [conv(x) for x in m["A"]], "corpus")

STATS = {"exchanges": {}, "det_zero": 0, "det_nonzero": 0, "inverse_identity_checked": 0, "inverse_singular_skipped": 0,
         "lu_factorisations_checked": 0, "order": {}}

def cdet_exact(A, n):
    """exact determinant of a complex matrix with binary-float parts: elimination over (Fraction, Fraction) pairs"""
    def mul(a, b): return (a[0]*b[0] - a[1]*b[1], a[0]*b[1] + a[1]*b[0])
    def sub(a, b): return (a[0]-b[0], a[1]-b[1])
    def div(a, b):
        d = b[0]*b[0] + b[1]*b[1]
        return ((a[0]*b[0] + a[1]*b[1]) / d, (a[1]*b[0] - a[0]*b[1]) / d)
    M = [[(Fraction(A[i*n+j].real), Fraction(A[i*n+j].imag)) for j in range(n)] for i in range(n)]
    det = (Fraction(1), Fraction(0))
    for k in range(n):
        p = next((i for i in range(k, n) if M[i][k] != (0, 0)), None)
        if p is None: return (Fraction(0), Fraction(0))
        if p != k:
            M[p], M[k] = M[k], M[p]; det = (-det[0], -det[1])
        det = mul(det, M[k][k])
        for i in range(k + 1, n):
            f = div(M[i][k], M[k][k])
            if f != (0, 0):
                for j in range(k, n): M[i][j] = sub(M[i][j], mul(f, M[k][j]))
    return det

def det_scale(absA, n):
    """error scale of a determinant computed by elimination with partial pivoting: the smaller of the products of the row sums and of
    the column sums of |A| (both bound every term of the Leibniz expansion; pivoting by magnitude commutes with column scaling, so the
    column form is the natural one; exact, so that it neither under- nor overflows)"""
    pr = Fraction(1); pc = Fraction(1)
    for i in range(n): pr *= sum(absA[i*n+j] for j in range(n))
    for j in range(n): pc *= sum(absA[i*n+j] for i in range(n))
    return min(pr, pc)

def ffmt(x):
    try: return "%.6g" % float(x)
    except OverflowError: return "~1e%d" % (len(str(abs(x.numerator))) - len(str(x.denominator)))

# ---- recorded finding (KNOWN_FINDINGS.txt, key cplx-sqmod-range): Complex<f64> modulus and division square the components unscaled
MIN_NORMAL = Fraction(2) ** -1022
MAX_F64 = Fraction(2) ** 1024
def sqmod_out_of_range(re, im):
    s = Fraction(re) ** 2 + Fraction(im) ** 2
    return s != 0 and (s < MIN_NORMAL or s >= MAX_F64)

def cplx_exact_pivots(A, n):
    """the pivots of exact elimination with partial pivoting by true modulus (what the divisions of inverse/backsolve divide by)"""
    def mul(a, b): return (a[0]*b[0] - a[1]*b[1], a[0]*b[1] + a[1]*b[0])
    def sub(a, b): return (a[0]-b[0], a[1]-b[1])
    def div(a, b):
        d = b[0]*b[0] + b[1]*b[1]
        return ((a[0]*b[0] + a[1]*b[1]) / d, (a[1]*b[0] - a[0]*b[1]) / d)
    M = [[(Fraction(A[i*n+j].real), Fraction(A[i*n+j].imag)) for j in range(n)] for i in range(n)]
    piv = []
    for k in range(n):
        p = max(range(k, n), key=lambda i: M[i][k][0]**2 + M[i][k][1]**2)
        if M[p][k] == (0, 0): continue
        M[p], M[k] = M[k], M[p]
        piv.append(M[k][k])
        for i in range(k + 1, n):
            f = div(M[i][k], M[k][k])
            if f != (0, 0):
                for j in range(k, n): M[i][j] = sub(M[i][j], mul(f, M[k][j]))
    return piv

def finding_key(case, desc, items):
    """cause key of a failure, decided from the INPUT (and the exact pivots it leads to), never from the mere fact of failing:
    `cplx-sqmod-range` iff the element type is Complex<f64> and some input entry or some exact pivot z has re^2 + im^2 outside the
    normal f64 range (underflows to 0/subnormal, or overflows) AND the failure is one of the documented symptoms of that cause: a
    non-finite or inaccurate determinant, non-finite or inaccurate entries of the inverse (A*inv / inv*A off the identity).  A panic
    or an inverse of the wrong shape is not explained by unscaled squares and stays a violation."""
    m = case.meta
    if case.elt != 'cplx' or m.get("bad") or "A" not in m: return None
    if not ("differs from the identity" in desc or "complex determinant" in desc): return None
    A, n = m["A"], m["n"]
    try:
        if any(sqmod_out_of_range(z.real, z.imag) for z in A): return "cplx-sqmod-range"
        if any(sqmod_out_of_range(p[0], p[1]) for p in cplx_exact_pivots(A, n)): return "cplx-sqmod-range"
    except (OverflowError, ValueError):      # non-finite input entries: not this class
        return None
    return None

def lu_oracle(items, n, A):
    """the statement of lu_spec on the implementation's answer (exact): P is a permutation matrix whose sign is (-1)^pivots and
    P*A = unit_lower(LU)*upper(LU)"""
    if items[-1][0] == 'P': return "lu_decomp_in_place panicked (%s) on a square %dx%d matrix" % (items[-1][1], n, n)
    piv = items[0][1]
    (r, c, P), pos = parse_items_mat(items, 1, 'rat')
    (r2, c2, LU), pos = parse_items_mat(items, pos, 'rat')
    if (r, c, r2, c2) != (n, n, n, n): return "LU/permutation have the wrong shape"
    sigma = []
    for i in range(n):
        row = P[i*n:(i+1)*n]
        if sorted(row) != [0] * (n - 1) + [1]: return "row %d of the permutation matrix is not a unit vector" % i
        sigma.append(row.index(1))
    if sorted(sigma) != list(range(n)): return "the permutation matrix is not a permutation"
    inv = sum(1 for i in range(n) for j in range(i + 1, n) if sigma[i] > sigma[j])
    if inv % 2 != piv % 2: return "pivots=%d but the permutation has parity %d" % (piv, inv % 2)
    # partial pivoting by magnitude: every multiplier is a quotient by the largest entry of its sub-column, whatever the tie-break
    # (exact here: the factorisation is judged at Rat only; a zero sub-column is skipped and leaves zeros below the diagonal)
    for i in range(n):
        for j in range(i):
            if abs(LU[i*n+j]) > 1: return "multiplier L[%d][%d] = %s has magnitude > 1: the pivot was not the largest entry of its sub-column" % (i, j, LU[i*n+j])
    STATS["multipliers_checked"] = STATS.get("multipliers_checked", 0) + n * (n - 1) // 2
    L = [(LU[i*n+j] if j < i else (Fraction(1) if i == j else Fraction(0))) for i in range(n) for j in range(n)]
    U = [(LU[i*n+j] if j >= i else Fraction(0)) for i in range(n) for j in range(n)]
    PA = [A[sigma[i]*n+j] for i in range(n) for j in range(n)]
    if matmul(L, U, n, n, n) != PA: return "P*A differs from unit_lower(LU)*upper(LU)"
    STATS["exchanges"][piv] = STATS["exchanges"].get(piv, 0) + 1
    STATS["lu_factorisations_checked"] += 1
    return None

def oracle(case, items):
    m = case.meta; elt = case.elt
    if m.get("bad"):
        if not (len(items) == 1 and items[0][0] == 'P'): return "non-square matrix was answered by %s instead of rejected" % m["kind"]
        return None
    n, A, kind = m["n"], m["A"], m["kind"]
    exact = elt != 'cplx'
    STATS["order"][n] = STATS["order"].get(n, 0) + 1
    if kind == "lu":
        return lu_oracle(items, n, A) if elt == 'rat' else None
    d = det_exact([Fraction(x) for x in A], n) if exact else None
    if kind == "det":
        if items[-1][0] == 'P': return "determinant panicked (%s) on a %dx%d matrix (exact determinant %s)" % (items[-1][1], n, n, d)
        v, _ = parse_items_scalar(items, 0, elt)
        if exact: STATS["det_zero" if d == 0 else "det_nonzero"] += 1
        if elt == 'rat':
            if v != d: return "determinant %s differs from the exact determinant %s" % (v, d)
        elif elt == 'f64':
            if not math.isfinite(v): return "determinant is %r; exact determinant is %s" % (v, d)
            scale = det_scale([abs(Fraction(x)) for x in A], n)
            if abs(Fraction(v) - d) > Fraction(1, 10**10) * scale: return "determinant %r differs from exact %r beyond 1e-10*min(prod row sums, prod column sums)=%g" % (v, float(d), 1e-10 * float(scale))
        else:
            if not isfinite(v): return "complex determinant is not finite"
            dr, di = cdet_exact(A, n)
            scale = det_scale([abs(Fraction(x.real)) + abs(Fraction(x.imag)) for x in A], n)
            er, ei = Fraction(v.real) - dr, Fraction(v.imag) - di
            if max(abs(er), abs(ei)) > Fraction(1, 10**10) * scale:
                return "complex determinant %r differs from exact (%s, %s) beyond 1e-10*min(prod row sums, prod column sums)=%s" % (v, ffmt(dr), ffmt(di), ffmt(scale))
        return None
    if kind == "inverse":
        # singular input (exact test; over Q(i) for Complex<f64>: a nonsingular real matrix plus imaginary parts can be exactly
        # singular) is outside the quantifier of the inverse half
        if (d == 0) if exact else c01.cplx_singular(A, n):
            STATS["inverse_singular_skipped"] += 1
            return None
        if items[-1][0] == 'P':
            if exact: return "inverse panicked (%s) on a nonsingular matrix" % items[-1][1]
            # float division never panics; an index or guard panic on a nonsingular matrix is not "singular input"
            return "inverse panicked (%s) on a Complex matrix whose exact determinant is non-zero" % items[-1][1]
        (r, c, X), _ = parse_items_mat(items, 0, elt)
        if (r, c) != (n, n): return "inverse has shape %dx%d" % (r, c)
        if elt != 'rat' and not all(isfinite(v) for v in X) and c01.cond_inf(A, n) > 1e15:
            # singular to working precision (numpy cond_inf(A) > 1e15) although the exact determinant is not 0: a pivot may cancel to
            # exactly 0 in binary64 and the inverse is then inf/nan for any LU code.  Only a NON-FINITE answer is excused (counted);
            # a finite inverse of such a matrix is judged below like any other.
            STATS["inverse_numerically_singular_skipped"] = STATS.get("inverse_numerically_singular_skipped", 0) + 1
            return None
        STATS["inverse_identity_checked"] += 1
        I1 = matmul(A, X, n, n, n); I2 = matmul(X, A, n, n, n)
        for P, nm in ((I1, "A*inv"), (I2, "inv*A")):
            for i in range(n):
                for j in range(n):
                    e = P[i*n+j] - (1 if i == j else 0)
                    if elt == 'rat':
                        if e != 0: return "%s differs from the identity at (%d,%d): %s" % (nm, i, j, P[i*n+j])
                    else:
                        tolr = 1e-9 * max(1.0, norm_inf_mat([abs(x) for x in A], n, n) * norm_inf_mat([abs(x) for x in X], n, n))
                        if not isfinite(P[i*n+j]) or abs(e) > tolr: return "%s differs from the identity at (%d,%d) by %g (tol %g)" % (nm, i, j, abs(e), tolr)
        return None
    return None


# ---- the forbidden-construct audit over the real dependency closure of Props/C02.v (engine's vfile_deps only sees single-module
# Require lines; this one follows every `From OV Require [Import|Export] A.B C.D ...` list, multi-line included)
import re as _re
def _deps(vfile, seen):
    if vfile in seen or not os.path.exists(vfile): return seen
    seen.add(vfile)
    src = strip_comments(open(vfile).read())
    for mm in _re.finditer(r"From\s+OV\s+Require\s+(?:Import\s+|Export\s+)?((?:[A-Za-z_][\w']*(?:\.[A-Za-z_][\w']*)*\s*)+)\.", src):
        for mod in mm.group(1).split():
            _deps(os.path.join(COQDIR, mod.replace(".", "/") + ".v"), seen)
    return seen

AUDITED = []
def extra_checks(exe, rng, tier):
    ev = []
    deps = sorted(_deps(os.path.join(COQDIR, "Props", "C02.v"), set()))
    del AUDITED[:]
    AUDITED.extend(os.path.relpath(d, COQDIR) for d in deps)
    need = ["Proofs/LU.v", "Proofs/LUSolve.v", "Proofs/LUInv.v", "Bridge/Det.v", "Legacy/C02Refuted.v", "Model/Solve.v"]
    missing = [f for f in need if f not in AUDITED]
    if missing:
        ev.append(("tie", "dependency audit did not reach %s" % missing, {"audit": "deps", "missing": missing}))
    outside = _re.compile(r"(?m)^\s*(Variable|Variables|Hypothesis|Hypotheses|Context)\b")
    for d in deps:
        src = strip_comments(open(d).read())
        mm = FORBIDDEN.search(src)
        if mm:
            ev.append(("tie", "forbidden construct %r in %s" % (mm.group(0), os.path.relpath(d, COQDIR)), {"audit": "forbidden", "file": d}))
        depth = 0                       # Variable/Hypothesis only inside a Section
        for ln in src.splitlines():
            if _re.match(r"\s*Section\b", ln): depth += 1
            elif _re.match(r"\s*End\b", ln) and depth > 0: depth -= 1
            elif depth == 0 and outside.match(ln):
                ev.append(("tie", "assumption outside a Section in %s: %s" % (os.path.relpath(d, COQDIR), ln.strip()[:80]), {"audit": "section", "file": d}))
    return ev, {}

def extra_coverage():
    return {"audited_dependency_files": list(AUDITED),
            "measured": {"row_exchanges_histogram(lu cases)": {str(k): v for k, v in sorted(STATS["exchanges"].items())},
                         "odd_exchange_cases": sum(v for k, v in STATS["exchanges"].items() if k % 2 == 1),
                         "even_exchange_cases": sum(v for k, v in STATS["exchanges"].items() if k % 2 == 0),
                         "exact_determinants_zero(singular)": STATS["det_zero"], "exact_determinants_nonzero": STATS["det_nonzero"],
                         "two_sided_inverse_identities_checked": STATS["inverse_identity_checked"],
                         "inverse_on_singular_input(outside quantifier)": STATS["inverse_singular_skipped"],
                         "inverse_non_finite_on_cond_inf>1e15(numerically singular, skipped)": STATS.get("inverse_numerically_singular_skipped", 0),
                         "lu_multipliers_checked(|l_ij|<=1)": STATS.get("multipliers_checked", 0),
                         "P*A=L*U_checked_on_implementation": STATS["lu_factorisations_checked"],
                         "cases_by_order": {str(k): v for k, v in sorted(STATS["order"].items())}}}
