# C02 -- determinant and inverse agree with exact linear algebra; matrix left intact.
from fractions import Fraction
from common import *
from engine import Case
from linalg import *
import c01

PID = "C02"
IMPORTS = "From OV Require Import Model.Vector Model.Matrix Model.MatOps Model.Solve."
MODEL_VO = ["Model/Solve.vo"]
RULE = ("square matrices of order 1..8 over Rat/f64/Complex: dense, sparse-patterned, permutation-like (odd and even numbers of exchanges), "
        "triangular, singular (rank n-1, rank <= n-2, zero rows/columns, all-ones); kinds det, inverse, lu; distinct = distinct executor line; "
        "non-trivial = order >= 2")
TRUSTED = c01.TRUSTED
ASSUMPTIONS = ["Rust semantics of Vec/usize as modelled", "float accuracy of det/inverse is searched, not proved",
               "'matrix unchanged' is observed by the executor (snapshot before/after); a value model satisfies it vacuously"]
UNPROVED = ["rounding accuracy of det/inverse over f64/Complex (covered by tie + search)"]

MANIFEST = dict(
    text=("Theorems over any field with a sane magnitude/order (all orders n, all entry values, singular input included) about the Gallina model "
          "of src/matrix/solve.rs: lu_decomp always succeeds with P*M = unit_lower(LU)*upper(LU), P reached by `pivots` genuine row transpositions; "
          "solve_lu and inverse, when they return, satisfy M*x = b and M*N = I; (mathcomp bridge) determinant = \\det for every fieldType. "
          "The model is run against the implementation (Rat vs Qc exact; f64/Complex vs primitive floats) on orders 1..8 of dense, permutation-like, "
          "triangular and singular (rank n-1, rank <= n-2, zero rows/columns) matrices, and an independent exact determinant / two-sided inverse "
          "identity searches for a failing input; the operand is compared with a clone taken before the call."),
    note=("Rounding accuracy over f64/Complex<f64> is tied and searched, not proved. 'Matrix unchanged' is a run-time observation of the executor "
          "(a value model satisfies it vacuously). The theorems need PivLaws (abs x = 0 <-> x = 0, 0 < |x| for x <> 0, not |x| < 0): the code's "
          "skip of a zero pivot column is decided by abs and >."),
    technique="Coq proof over an abstract field (loop invariants of the in-place LU) + mathcomp bridge for \\det + model/implementation differential execution",
    design="7 (C02)")

def singular(rng, n, kind):
    one = Fraction(1)
    A = [c01.rval(rng) for _ in range(n * n)]
    if kind == "ones": return [one] * (n * n)
    if kind == "zeros": return [0 * one] * (n * n)
    if kind == "zero-row":
        r = rng.below(n)
        for j in range(n): A[r*n+j] = 0 * one
    elif kind == "zero-col":
        c = rng.below(n)
        for i in range(n): A[i*n+c] = 0 * one
    elif kind == "rank-1":
        u = [c01.rval(rng) for _ in range(n)]; v = [c01.rval(rng) for _ in range(n)]
        A = [u[i] * v[j] for i in range(n) for j in range(n)]
    elif kind == "dup-row" and n >= 2:
        r1, r2 = rng.below(n), rng.below(n)
        if r1 == r2: r2 = (r1 + 1) % n
        for j in range(n): A[r2*n+j] = A[r1*n+j] * 2
    elif kind == "rank-n-2" and n >= 3:
        for j in range(n):
            A[(n-1)*n+j] = A[0*n+j] + A[1*n+j]
            A[(n-2)*n+j] = A[0*n+j] - A[1*n+j]
    return A

def mk(elt, kind, n, A, family, nontrivial=True):
    M = (n, n, A)
    ar, fl = ARITH[elt], FLAT[elt]
    if kind == "det":
        term = "fl_res %s (@determinant %s %s)" % (fl, ar, coq_mat(elt, M))
    elif kind == "inverse":
        term = "fl_res (@fl_mat %s %s) (@inverse %s %s)" % (ar, fl, ar, coq_mat(elt, M))
    elif kind == "lu":
        term = ("fl_res (fun r : matrix %s * nat * matrix %s => let '(lu, piv, perm) := r in fl_nat piv ++ @fl_mat %s %s perm ++ @fl_mat %s %s lu) (@lu_decomp %s %s)"
                % (ar, ar, ar, fl, ar, fl, ar, coq_mat(elt, M)))
    return Case(elt, "mat.%s %s" % (kind, tok_mat(elt, M)), term, meta={"kind": kind, "n": n, "A": A}, family=family, nontrivial=nontrivial)

def generate(rng, tier):
    cases = []
    N = 24 if tier == "quick" else 240
    g = rng.fork("ns")
    for fam in ["dense", "zero-lead", "perm", "upper", "lower", "neg-dominant"]:
        for t in range(N):
            n = 1 + (t % 8)
            A = c01.gen_matrix(g, n, fam, 'rat')
            for kind in ("det", "inverse", "lu"):
                cases.append(mk('rat', kind, n, A, "rat-%s-%s" % (fam, kind), n >= 2))
    g = rng.fork("sing")
    for sk in ["ones", "zeros", "zero-row", "zero-col", "rank-1", "dup-row", "rank-n-2"]:
        for t in range(max(8, N // 2)):
            n = 1 + (t % 8)
            A = singular(g, n, sk)
            cases.append(mk('rat', "det", n, A, "rat-singular-" + sk, n >= 2))
            cases.append(mk('f64', "det", n, [float(x) for x in A], "f64-singular-" + sk, n >= 2))
    g = rng.fork("flt")
    for elt in ('f64', 'cplx'):
        for fam in ["dense", "zero-lead", "perm", "upper", "neg-dominant"]:
            for t in range(max(6, N // 3)):
                n = 1 + (t % 8)
                for _ in range(20):
                    A = c01.gen_matrix(g, n, fam, 'f64')
                    if c01.nonsingular(A, n): break
                if elt == 'cplx': A = [complex(x, c01.fval(g) if g.chance(1, 2) else 0.0) for x in A]
                for kind in ("det", "inverse"):
                    cases.append(mk(elt, kind, n, A, "%s-%s-%s" % (elt, fam, kind), n >= 2))
    # non-square: rejected
    g = rng.fork("bad")
    for r in range(0, 4):
        for c in range(0, 4):
            if r == c: continue
            M = (r, c, [c01.rval(g) for _ in range(r * c)])
            for kind in ("det", "inverse"):
                ar, fl = "AQ", "flat_q"
                term = ("fl_res %s (@determinant %s %s)" % (fl, ar, coq_mat('rat', M))) if kind == "det" else \
                       ("fl_res (@fl_mat %s %s) (@inverse %s %s)" % (ar, fl, ar, coq_mat('rat', M)))
                cases.append(Case('rat', "mat.%s %s" % (kind, tok_mat('rat', M)), term, meta={"bad": True, "kind": kind}, family="rejects"))
    return cases

def case_from_json(j):
    m = j["meta"]; elt = j["elt"]
    conv = {'rat': Fraction, 'f64': float, 'cplx': complex}[elt]
    return mk(elt, m["kind"], m["n"], [conv(x) for x in m["A"]], "corpus")

def oracle(case, items):
    m = case.meta; elt = case.elt
    if m.get("bad"):
        if not (len(items) == 1 and items[0][0] == 'P'): return "non-square matrix was answered by %s instead of rejected" % m["kind"]
        return None
    n, A, kind = m["n"], m["A"], m["kind"]
    exact = elt != 'cplx'
    d = det_exact([Fraction(x) for x in A], n) if exact else None
    if kind == "det":
        if items[-1][0] == 'P': return "determinant panicked (%s) on a %dx%d matrix (exact determinant %s)" % (items[-1][1], n, n, d)
        v, _ = parse_items_scalar(items, 0, elt)
        if elt == 'rat':
            if v != d: return "determinant %s differs from the exact determinant %s" % (v, d)
        elif elt == 'f64':
            if not math.isfinite(v): return "determinant is %r; exact determinant is %s" % (v, d)
            scale = 1.0
            for i in range(n): scale *= max(1e-300, sum(abs(float(A[i*n+j])) for j in range(n)))
            if abs(v - float(d)) > 1e-10 * scale: return "determinant %r differs from exact %r beyond 1e-10*prod(row sums)=%g" % (v, float(d), 1e-10 * scale)
        else:
            if not isfinite(v): return "complex determinant is not finite"
        return None
    if kind == "inverse":
        if exact and d == 0: return None       # singular: outside the quantifier
        if items[-1][0] == 'P':
            return "inverse panicked (%s) on a nonsingular matrix" % items[-1][1] if exact else None
        (r, c, X), _ = parse_items_mat(items, 0, elt)
        if (r, c) != (n, n): return "inverse has shape %dx%d" % (r, c)
        I1 = matmul(A, X, n, n, n); I2 = matmul(X, A, n, n, n)
        for P, nm in ((I1, "A*inv"), (I2, "inv*A")):
            for i in range(n):
                for j in range(n):
                    e = P[i*n+j] - (1 if i == j else 0)
                    if elt == 'rat':
                        if e != 0: return "%s differs from the identity at (%d,%d): %s" % (nm, i, j, P[i*n+j])
                    else:
                        tolr = 1e-9 * max(1.0, norm_inf_mat([abs(x) for x in A], n, n) * norm_inf_mat([abs(x) for x in X], n, n))
                        if not isfinite(P[i*n+j]) or abs(e) > tolr: return "%s differs from the identity at (%d,%d) by %g (tol %g)" % (nm, i, j, abs(e), tolr)
        return None
    return None
