# C14 -- complex elementary / trigonometric / hyperbolic functions match their definitions, invert correctly,
#        use principal branches.
#   proof : coq/Props/C14.v (theorems over R about the model coq/Model/CFun.v)
#   tie   : Interval certificates (extra_checks): |model value over R - implementation's f64 value| <= 1e-9 max(1,|v|)
#           at every structured point, kernel-checked, one verdict per component
#   search: mpmath (50 digits) + the identities themselves on a denser sample (generate / oracle)
import os, math, json
from fractions import Fraction as F
import mpmath as mp
from common import *
from engine import Case
from cfunlib import *

PID = "C14"
IMPORTS = "From OV Require Import Model.CFun."
MODEL_VO = ["Model/CFun.vo", "Proofs/CFunCert.vo"]
RULE = ("certificates: every public function (31 one-argument + pow/powf/log/polar) at structured dyadic points (all four quadrants, "
        "both axes, 2^-10 / 2^-20-adjacent to the branch points 0, +-1, +-i, both sides of every cut at distances 2^-10, 2^-20, 2^-30, 33/32768 <= |z| <= 10 (the smallest modulus of the structured set is 33/32768 = 1.007e-3, the lower end of the property's range 1e-3 rounded up to a dyadic), |w| <= 3), one "
        "kernel-checked Interval certificate per component of the implementation's answer against the R-model "
        "(tol 1e-9*max(1,|v|)); points exactly on a cut of the function are excluded from value comparison. "
        "search cases: cf.all / cf.seq / cf.powid / cf.polar* lines on the structured set plus seeded random dyadic points, "
        "compared with mpmath at 50 digits and with each other (round trips, reciprocals, Pythagorean, principal ranges); a NaN or infinite "
        "value is a failure at every point of the domain, points on a cut included (only the poles of atan/acot at +-i and atanh/acoth at +-1 "
        "have no finite value), and the executor's helper values -z (exact) and 1/z (16 ulp of mpmath) of the cf.all stream are judged too; the "
        "structured set also holds z = +-1, +-i and both ends of the range of moduli (|z| = 10, |z| = 33/32768) on the axes and in "
        "every quadrant (certified too); search-only special-structure families (special_cases): |z| = 1 off the axes; the zeros and "
        "poles fl(k pi/2), k = +-1..+-6, of the direct functions on both axes, exactly and displaced by 2^-20 / 2^-30 along and by "
        "2^-20, 1/2 across the axis; exponents 0, +-1, +-2, +-3, +-1/2, 3/2, +-i, 1+-i, 2i, 2+2^-20 i on unit, negative/positive real, "
        "quadrant and cut points, and z^z; log bases -1, +-i, 2, 1/2, 10, e, 0.6+0.8i, -2, 1+2^-10, 1+2^-10 i, -3-4i incl. z = b; "
        "polar at theta = 0, +-fl(pi/2), +-fl(pi), pi/4, -3pi/4, +-2^-30, +-(pi-2^-20) and r = 33/32768 .. 10 in both directions; "
        "distinct = distinct executor line; non-trivial = every case (no empty inputs exist for this property)")
TRUSTED = ["Coq 8.16.1 kernel + vm_compute (inside Interval 4.6.1: kernel-checked enclosures of exp/ln/sin/cos/atan/sqrt)",
           "Rust executor /verif/harness (cf.* kinds call the public Complex<f64> methods only)",
           "python driver: point generator, f64 -> exact dyadic literal printer, verdict parser, mpmath 50-digit reference",
           "hand-written Gallina model coq/Model/CFun.v over R x R tied to src/complex/{elementary,trigonometric,hyperbolic}.rs "
           "by the certificates; f64::atan2 modelled as the piecewise-atan function atan2 (zero of positive sign)"]
ASSUMPTIONS = ["libm (sqrt, exp, ln, sin, cos, sinh, cosh, atan2, powf) returns values within the certificate tolerance of the real "
               "functions at the sampled points (this is what each certificate checks end to end, not an assumption of the theorems)",
               "the theorems are about real-number formulae; rounding error of the f64 evaluation is certified pointwise, not proved",
               "exactly on a branch cut the implementation follows the sign of its computed zero; the property does not constrain it"]
UNPROVED = ["accuracy of the f64 evaluation between the certified points (tie + search only)",
            "the series half is proved for exp, sin, cos, sinh, cosh (exp_series, trig_series, hyperbolic_series, power_series_forms, exp_series_absolute with the truncation bound |z|^(N+1)/(N+1)! exp|z|); the remaining functions are defined in the source by closed forms, for which no series statement is made (e.g. the Mercator series of ln)"]

MANIFEST = dict(
    text=("%d theorems over R" % ntheorems("C14") + " (coq/Props/C14.v) about the formula-by-formula Gallina model of the 35 public Complex<f64> functions "
          "(31 one-argument incl. abs/arg/abs_sqr/conj, pow, powf, log, polar): z = |z|(cos arg z, sin arg z) with arg in (-pi,pi]; "
          "exp(ln z)=z; sqrt(z)^2=z; Re sqrt z>=0; Im ln z in (-pi,pi]; z^w=exp(w ln z) and powf=pow; polar round trip both ways; "
          "sin/cos/sinh/cosh = their exponential forms, exp(a+b)=exp a exp b; both Pythagorean identities; reduction to the real "
          "functions on the real axis (direct functions, ln/sqrt/powf, asin/acos/atan/asinh/atanh/acosh); reciprocal functions are "
          "reciprocals; all twelve right inverses f(f^-1 z)=z (tan/atan z<>+-i, tanh/atanh z<>+-1, reciprocal-argument ones z<>0); "
          "Re asin z in [-pi/2,pi/2], Re acos z in [0,pi], asin z+acos z=pi/2; ln(exp z)=z on the principal strip, b^(log_b z)=z. "
          "Tie: kernel-checked Interval certificates -- at every structured dyadic point (all quadrants, both axes, 2^-10/2^-20 next "
          "to 0,+-1,+-i, both sides of every cut at distances 2^-10, 2^-20, 2^-30) each component returned by the Rust code is proved "
          "to lie within 1e-9*max(1,|v|) of the model's real value (about 1 400 certificates quick -- 1 409 to 1 420 in the recorded runs, the count is written to the evidence --, 10 500 thorough; the constant "
          "PI_2 is certified against PI/2). Search: mpmath at 50 digits and the identities themselves on the structured set plus "
          "seeded random points (8 800 cases quick, 53 000 thorough), including special-structure families: z = +-1, +-i and unit modulus "
          "off the axes, both ends of the range of moduli, the zeros and poles k pi/2 of the direct functions on both axes (exactly and "
          "2^-20 / 2^-30 next to them), structured exponents (0, +-1, +-2, +-3, +-1/2, +-i, ...) on unit / negative real / cut points, "
          "structured log bases (-1, +-i, 2, 10, e, unit modulus, next to 1) and polar angles 0, +-fl(pi/2), +-fl(pi)."),
    note=("libm accuracy and f64 rounding are certified pointwise (tie) and searched, not proved; points exactly on a cut are excluded "
          "from value comparison (the code follows the sign of its computed zero, the R-model has no signed zero); agreement with "
          "the defining power series is proved for exp, sin, cos, sinh, cosh over all of C."),
    technique="Coq proof over R (Reals, field structure on R x R) + certified real evaluation (Interval) of the model against the Rust executor + mpmath/identity search",
    design="4.2, 7 (C14), Appendix E")

PI = math.pi
_cov = {}

# ----------------------------------------------------------------------------- search cases (generate / oracle)
def zt(z):
    return tok_scalar('cplx', complex(z[0], z[1]))

def mk_all(z, fam):
    return Case("cplx", "cf.all %s" % zt(z), None, meta={"kind": "all", "z": list(z)}, family=fam)

def mk_rt(z, fam):
    cs = []
    for finv, f in INVERSE_PAIRS:
        if inverse_singular(finv, z): continue
        cs.append(Case("cplx", "cf.seq %s,%s %s" % (finv, f, zt(z)), None, meta={"kind": "rt", "finv": finv, "f": f, "z": list(z)}, family=fam + ":rt"))
    return cs

def mk_pow(z, w, fam):
    return Case("cplx", "cf.powid %s %s" % (zt(z), zt(w)), None, meta={"kind": "pow", "z": list(z), "w": list(w)}, family=fam)

def mk_polar(z, fam):
    return Case("cplx", "cf.polarid %s" % zt(z), None, meta={"kind": "polarid", "z": list(z)}, family=fam)

def mk_polarinv(r, t, fam):
    return Case("cplx", "cf.polarinv %s %s" % (tok_scalar('f64', r), tok_scalar('f64', t)), None, meta={"kind": "polarinv", "r": r, "t": t}, family=fam)

def rand_point(g):
    """random dyadic point (multiples of 2^-10) with 1e-3 <= |z| <= 10, log-uniform modulus, sometimes on an axis / near a cut"""
    while True:
        r = 10 ** (-3 + 4 * g.unit())
        th = 2 * PI * g.unit()
        x, y = r * math.cos(th), r * math.sin(th)
        k = g.below(10)
        if k == 0: y = 0.0
        elif k == 1: x = 0.0
        q = 2.0 ** 20 if r < 0.1 else 2.0 ** 10
        x, y = round(x * q) / q, round(y * q) / q
        if k == 2: y = (1 if g.chance(1, 2) else -1) * 2.0 ** -g.choice([10, 15, 20, 25, 30, 35, 40])     # next to the real axis, either side
        elif k == 3: x = (1 if g.chance(1, 2) else -1) * 2.0 ** -g.choice([10, 15, 20, 25, 30, 35, 40])   # next to the imaginary axis
        m = math.hypot(x, y)
        if 1e-3 <= m <= 10: return (x, y)

def rand_w(g):
    while True:
        x = g.range(-3 * 64, 3 * 64) / 64.0
        y = g.range(-3 * 64, 3 * 64) / 64.0
        if g.chance(1, 4): y = 0.0
        if 1e-3 <= math.hypot(x, y) <= 3: return (x, y)

def generate(rng, tier):
    cases = []
    sp = [(c, fl(x), fl(y)) for (c, x, y) in structured_points()]
    for (c, x, y) in sp:
        cases.append(mk_all((x, y), "structured:" + c.split("@")[0]))
        cases += mk_rt((x, y), "structured")
        cases.append(mk_polar((x, y), "polar"))
    g = rng.fork("rand")
    n = 3000 if tier == "thorough" else 300
    for _ in range(n):
        z = rand_point(g)
        cases.append(mk_all(z, "random"))
        cases += mk_rt(z, "random")
    g = rng.fork("pow")
    zs = [(x, y) for (_, x, y) in sp]
    for i in range(len(zs) if tier == "thorough" else 60):
        z = zs[i] if tier == "thorough" else zs[g.below(len(zs))]
        cases.append(mk_pow(z, rand_w(g), "pow"))
    for _ in range(2000 if tier == "thorough" else 200):
        cases.append(mk_pow(rand_point(g), rand_w(g), "pow"))
    g = rng.fork("polar")
    for _ in range(1000 if tier == "thorough" else 100):
        cases.append(mk_polar(rand_point(g), "polar"))
        r = round((10 ** (-3 + 4 * g.unit())) * 1024 + 2) / 1024.0
        t = g.range(-3216, 3216) / 1024.0            # |t| < pi
        cases.append(mk_polarinv(r, t, "polar"))
    if SPECIAL:
        cases += special_cases(rng.fork("special"), tier)
    return cases

SPECIAL = True         # the special-structure families (special-values audit); search only

def special_cases(g, tier):
    """unit modulus, zeros/poles of the direct functions, structured exponents and bases, structured polar arguments"""
    cases = []
    thorough = tier == "thorough"
    sp = [(c, fl(x), fl(y)) for (c, x, y) in structured_points()]
    # ---- |z| = 1 off the axes (the axis points +-1, +-i are in the structured set, category `unit`)
    for z in unit_off_axis():
        cases.append(mk_all(z, "special:unit-modulus"))
        cases += mk_rt(z, "special:unit-modulus")
        cases.append(mk_polar(z, "special:unit-modulus"))
    # ---- zeros and poles of the direct functions on both axes
    for (c, x, y) in zero_pole_points(g.fork("zp"), thorough):
        cases.append(mk_all((x, y), "special:" + c))
        if c == "zp-exact" and (thorough or g.chance(1, 4)):
            cases += mk_rt((x, y), "special:" + c)
            cases.append(mk_polar((x, y), "special:" + c))
    # ---- structured exponents: every one on the unit points, the real axis on both sides of 0, one point per quadrant,
    #      the ends of the range; z^z as well (base and exponent the same number)
    h = g.fork("pow")
    axis = [(x, y) for (c, x, y) in sp if c in ("axis+x", "axis-x")]
    quads = {q: [(x, y) for (c, x, y) in sp if c == q] for q in ("q1", "q2", "q3", "q4")}
    other = [(x, y) for (c, x, y) in sp if c in ("axis+y", "axis-y", "end", "bp0") or c.startswith(("bp-1", "cut-real"))]
    for w in SPECIAL_W:
        zs = UNIT_AXIS + [(0.6, 0.8), (-0.8, 0.6)]
        if thorough: zs = zs + axis + [z for q in quads.values() for z in q] + other
        else:
            zs = zs + h.shuffle([z for z in axis if z[0] < 0])[:2] + h.shuffle([z for z in axis if z[0] > 0])[:1] \
                    + [h.choice(quads[h.choice(["q1", "q2", "q3", "q4"])]), h.choice(other)]
        for z in zs:
            cases.append(mk_pow(z, w, "special:exponents"))
    for z in UNIT_AXIS + unit_off_axis() + [z for z in axis if abs(z[0]) <= 3] + ([z for q in quads.values() for z in q if math.hypot(*z) <= 3] if thorough else []):
        cases.append(mk_pow(z, z, "special:exponents"))
    # ---- structured bases of log, with z = b (log_b b = 1), z = 1/b-like and ordinary z
    h = g.fork("log")
    for b in LOG_BASES:
        zs = [b, (b[0], -b[1]), (-b[0], b[1])] + UNIT_AXIS[1:] + [h.choice(quads[q]) for q in (("q1", "q2", "q3", "q4") if thorough else (h.choice(["q1", "q2"]), h.choice(["q3", "q4"])))]
        for z in zs:
            if 1e-3 <= math.hypot(*z) <= 10:
                cases.append(mk_single("log", [['c', list(z)], ['c', list(b)]], "special:log-bases"))
    # ---- structured polar arguments: both directions
    h = g.fork("polar")
    for t in POLAR_T:
        for r in (POLAR_R if thorough else [1.0] + h.shuffle([r for r in POLAR_R if r != 1.0])[:2]):
            cases.append(mk_polarinv(r, t, "special:polar"))
            cases.append(mk_single("polar", [['r', r], ['r', t]], "special:polar"))
    return cases

def mk_single(name, args, fam):
    """one function at one point (replay of a certificate event): args = [['c', [x, y]] | ['r', x]] with exact values as strings"""
    a = [(k, tuple(F(c) for c in v) if k == 'c' else F(v)) for k, v in args]
    return Case("cplx", harness_line(name, a), None,
                meta={"kind": "single", "function": name, "args": [[k, [str(c) for c in v] if k == 'c' else str(v)] for k, v in a]}, family=fam)

def case_from_json(j):
    m = j["meta"]
    if "extra" in m:                      # replay of a certificate event: re-evaluate that function at that point
        e = m["extra"]
        if "function" not in e or not e.get("args"): raise ValueError("nothing to replay in %r" % (e,))
        return mk_single(e["function"], e["args"], "replay")
    k = m["kind"]
    if k == "all": return mk_all(tuple(m["z"]), "corpus")
    if k == "rt":
        return Case("cplx", "cf.seq %s,%s %s" % (m["finv"], m["f"], zt(m["z"])), None, meta=m, family="corpus")
    if k == "pow": return mk_pow(tuple(m["z"]), tuple(m["w"]), "corpus")
    if k == "polarid": return mk_polar(tuple(m["z"]), "corpus")
    if k == "polarinv": return mk_polarinv(m["r"], m["t"], "corpus")
    if k == "single": return mk_single(m["function"], m["args"], "corpus")
    raise ValueError(k)

def _floats(items):
    return [bits_f64(it[1]) for it in items if it[0] == 'f']

def _close(a, ref, rel=1e-9):
    """|a - ref| <= rel * max(1, |ref|) with ref an mpmath number, a python complex/float"""
    if isinstance(a, complex):
        if not (math.isfinite(a.real) and math.isfinite(a.imag)): return False
        d = abs(mp.mpc(a.real, a.imag) - ref)
    else:
        if not math.isfinite(a): return False
        d = abs(mp.mpf(a) - ref)
    return d <= rel * max(1, abs(ref))

RANGE_SLACK = 1e-12

def _finite(a):
    return (math.isfinite(a.real) and math.isfinite(a.imag)) if isinstance(a, complex) else math.isfinite(a)

def oracle_all(z, items):
    vals = {}
    cur = None
    for it in items:
        if it[0] == 't': cur = it[1]; vals[cur] = []
        elif it[0] == 'f': vals[cur].append(bits_f64(it[1]))
        elif it[0] == 'P': return "panic in a complex function at z=%r: %r" % (z, it)
    zz = mp.mpc(z[0], z[1])
    V = {}
    for name in UNARY:
        v = vals.get(name)
        if v is None: return "no value for %s" % name
        V[name] = v[0] if name in REAL_VALUED else complex(v[0], v[1])
    _cov["functions_searched"] = len(UNARY) + 4
    # every value is finite on the non-overflowing domain, on the cuts as well (there only the SIDE the code takes is free);
    # the poles of the inverse functions (atan/acot at +-i, atanh/acoth at +-1) and z = 0 are the only points with no finite value
    for name in UNARY:
        if not _finite(V[name]) and not (inverse_singular(name, z) or (z[0] == 0 and z[1] == 0)):
            return "%s(%r) = %r is not finite" % (name, z, V[name])
    for name in UNARY:
        if on_cut(name, z):
            _cov["on_cut_skipped"] = _cov.get("on_cut_skipped", 0) + 1
            continue
        ref = MPREF[name](zz)
        _cov["mpmath_compared"] = _cov.get("mpmath_compared", 0) + 1
        if not _close(V[name], ref):
            return "%s(%r) = %r but the function value is %s (mpmath, 50 digits)" % (name, z, V[name], mp.nstr(ref, 17))
    # principal branches (also on the cuts).  For a binary64 v, v in (-pi, pi] holds exactly when
    # -fl(pi) <= v <= fl(pi), because fl(pi) < pi < succ(fl(pi)): no slack for ln and arg.
    if not (V["sqrt"].real >= 0): return "Re sqrt(%r) = %r < 0" % (z, V["sqrt"].real)
    if not (-PI <= V["ln"].imag <= PI): return "Im ln(%r) = %r outside (-pi, pi]" % (z, V["ln"].imag)
    if not (-PI <= V["arg"] <= PI): return "arg(%r) = %r outside (-pi, pi]" % (z, V["arg"])
    if not (abs(V["asin"].real) <= PI / 2 + RANGE_SLACK): return "Re asin(%r) = %r outside [-pi/2, pi/2]" % (z, V["asin"].real)
    if not (-RANGE_SLACK <= V["acos"].real <= PI + RANGE_SLACK): return "Re acos(%r) = %r outside [0, pi]" % (z, V["acos"].real)
    # reciprocals
    for a, b in RECIPROCALS:
        if on_cut(a, z): continue
        p = V[a] * V[b]
        if not (abs(p - 1) <= 1e-9): return "%s(z)*%s(z) = %r, not 1, at z=%r" % (a, b, p, z)
    # Pythagorean identities (relative to the size of the cancelling terms)
    s, c = V["sin"], V["cos"]
    if not (abs(s * s + c * c - 1) <= 1e-9 * max(1, abs(s) ** 2 + abs(c) ** 2)): return "sin^2+cos^2 = %r at z=%r" % (s * s + c * c, z)
    s, c = V["sinh"], V["cosh"]
    if not (abs(c * c - s * s - 1) <= 1e-9 * max(1, abs(s) ** 2 + abs(c) ** 2)): return "cosh^2-sinh^2 = %r at z=%r" % (c * c - s * s, z)
    # sqrt(z)^2 = z, |z|^2, conj
    q = V["sqrt"]
    if not (abs(q * q - complex(*z)) <= 1e-9 * max(1, abs(complex(*z)))): return "sqrt(z)^2 = %r at z=%r" % (q * q, z)
    # the two helper values of the stream (the code's own negation and reciprocal, used by the identity search): -z exactly,
    # 1/z to within the rounding of one complex division
    for name in ("neg", "inv"):
        v = vals.get(name)
        if v is None or len(v) != 2: return "no value for %s" % name
    ng = complex(*vals["neg"])
    if not (ng.real == -z[0] and ng.imag == -z[1]): return "-z = %r at z=%r: negation is exact" % (ng, z)
    if not (z[0] == 0 and z[1] == 0):
        iv = complex(*vals["inv"]); ref = 1 / zz
        if not _finite(iv) or not (abs(mp.mpc(iv.real, iv.imag) - ref) <= 16 * 2.0 ** -52 * abs(ref)):
            return "1/z = %r at z=%r but the quotient is %s (mpmath, 50 digits)" % (iv, z, mp.nstr(ref, 17))
    # reduction to the real functions on the real axis
    if z[1] == 0:
        x = mp.mpf(z[0])
        for name, rf in (("exp", mp.exp), ("sin", mp.sin), ("cos", mp.cos), ("sinh", mp.sinh), ("cosh", mp.cosh), ("tan", mp.tan), ("tanh", mp.tanh)):
            if not _close(V[name], mp.mpc(rf(x), 0)): return "%s on the real axis: %r at x=%r, real function gives %s" % (name, V[name], z[0], mp.nstr(rf(x), 17))
        if z[0] > 0:
            for name, rf in (("ln", mp.log), ("sqrt", mp.sqrt)):
                if not _close(V[name], mp.mpc(rf(x), 0)):
                    return "%s on the positive real axis: %r at x=%r" % (name, V[name], z[0])
    return None

def oracle(case, items):
    m = case.meta
    k = m["kind"]
    for it in items:
        if it[0] == 'P': return "panic: %r on %s" % (it, case.line)
    if k == "all":
        return oracle_all(tuple(m["z"]), items)
    fs = _floats(items)
    if k == "rt":
        z = complex(*m["z"])
        w = complex(fs[0], fs[1]); back = complex(fs[2], fs[3])
        _cov["round_trips"] = _cov.get("round_trips", 0) + 1
        if not _finite(back) or not (abs(back - z) <= 1e-9 * max(1, abs(z))):
            return "%s(%s(z)) = %r, not z = %r  (inverse value %r)" % (m["f"], m["finv"], back, z, w)
        return None
    if k == "pow":
        z = tuple(m["z"]); w = tuple(m["w"])
        p, e, pf, lg = complex(fs[0], fs[1]), complex(fs[2], fs[3]), complex(fs[4], fs[5]), complex(fs[6], fs[7])
        _cov["pow_cases"] = _cov.get("pow_cases", 0) + 1
        if not _finite(p): return "pow(%r, %r) = %r" % (z, w, p)
        if not (abs(p - e) <= 1e-9 * max(1, abs(p))): return "z^w = %r but exp(w ln z) = %r at z=%r w=%r" % (p, e, z, w)
        if not on_cut("pow", z):
            zz, ww = mp.mpc(*z), mp.mpc(*w)
            if not _close(p, mp.exp(ww * mp.log(zz))): return "pow(%r, %r) = %r, principal power is %s" % (z, w, p, mp.nstr(mp.exp(ww * mp.log(zz)), 17))
            if not _close(pf, mp.exp(mp.mpf(w[0]) * mp.log(zz))): return "powf(%r, %r) = %r, principal power is %s" % (z, w[0], pf, mp.nstr(mp.exp(mp.mpf(w[0]) * mp.log(zz)), 17))
            if not on_cut("log", w) and abs(mp.log(ww)) > 1e-4:
                ref = mp.log(zz) / mp.log(ww)
                if not _close(lg, ref): return "log(%r, base %r) = %r, ln z / ln b is %s" % (z, w, lg, mp.nstr(ref, 17))
        return None
    if k == "polarid":
        z = complex(*m["z"]); p = complex(fs[0], fs[1])
        if not _finite(p) or not (abs(p - z) <= 1e-9 * max(1, abs(z))): return "polar(|z|, arg z) = %r, not z = %r" % (p, z)
        return None
    if k == "single":
        name = m["function"]
        a = [(kk, tuple(F(c) for c in v) if kk == 'c' else F(v)) for kk, v in m["args"]]
        if any(not math.isfinite(v) for v in fs): return "%s%r = %r is not finite" % (name, m["args"], fs)
        q = lambda x: mp.mpf(x.numerator) / x.denominator
        if name in MPREF:
            z = a[0][1]
            if on_cut(name, z): return None
            ref = MPREF[name](mp.mpc(q(z[0]), q(z[1])))
            got = fs[0] if name in REAL_VALUED else complex(fs[0], fs[1])
        else:
            a0, a1 = a[0][1], a[1][1]
            if name == "polar": ref = q(a0) * mp.expj(q(a1))
            elif on_cut(name, a0): return None
            elif name == "powf": ref = mp.exp(q(a1) * mp.log(mp.mpc(q(a0[0]), q(a0[1]))))
            elif name == "pow": ref = mp.exp(mp.mpc(q(a1[0]), q(a1[1])) * mp.log(mp.mpc(q(a0[0]), q(a0[1]))))
            else: ref = mp.log(mp.mpc(q(a0[0]), q(a0[1]))) / mp.log(mp.mpc(q(a1[0]), q(a1[1])))
            got = complex(fs[0], fs[1])
        if not _close(got, ref): return "%s%r = %r but the function value is %s (mpmath, 50 digits)" % (name, m["args"], got, mp.nstr(ref, 17))
        return None
    if k == "polarinv":
        r, t = m["r"], m["t"]
        if not (abs(fs[0] - r) <= 1e-9 * max(1, r)) or not (abs(fs[1] - t) <= 1e-9): return "polar(%r, %r) has modulus %r, argument %r" % (r, t, fs[0], fs[1])
        return None
    return None

# ----------------------------------------------------------------------------- certificates (extra_checks)
def cert_points(rng, tier):
    """{function: [args]}: the structured points at which the function is certified (off its own cuts)."""
    sp = structured_points()
    g = rng.fork("certpoints")
    plan = {}
    cats = {}
    for p in sp: cats.setdefault(p[0], []).append(p)
    def pick(name):
        if tier == "thorough":
            # every structured point; the 2^-20 / 2^-30 offsets only next to the axis that carries the function's cuts
            ax = CUT_AXIS.get(name, "")
            def keep(c):
                if "@" not in c or c.endswith("@10"): return True
                if c.startswith("cut-real"): return ax == "real"
                if c.startswith("cut-imag"): return ax == "imag"
                return ax != ""                       # branch points at 2^-20: functions with cuts
            return [p for p in sp if keep(p[0]) and not on_cut(name, (p[1], p[2]))]
        chosen = []
        def take(c, k):
            pool = g.shuffle([p for p in cats[c] if not on_cut(name, (p[1], p[2]))])
            return pool[:k]
        heavy = CUT_AXIS.get(name, "") != ""
        for c in ("q1", "q2", "q3", "q4"): chosen += take(c, 1)                     # every quadrant
        if heavy: chosen += take(g.choice(["q1", "q2", "q3", "q4"]), 2)[:1]         # functions with cuts: one more
        for c in ("axis+x", "axis-x", "axis+y", "axis-y", "bp0"): chosen += take(c, 1)
        chosen += take("unit", 1) + take("end", 1)                                    # |z| = 1 on an axis; an end of the range of moduli
        for c in ("bp+1", "bp-1", "bp+i", "bp-i"): chosen += take("%s@%d" % (c, g.choice(BP_SCALES)), 1)
        # both sides of the axis that carries the function's cuts, at every distance 2^-10, 2^-20, 2^-30 (same abscissa on
        # both sides); one pair next to the other axis
        ax = CUT_AXIS.get(name, "")
        pairs = {"real": ("cut-real-above", "cut-real-below"), "imag": ("cut-imag-right", "cut-imag-left")}
        for a in ("real", "imag"):
            ca, cb = pairs[a]
            if ax == "" and a == "imag" and g.chance(1, 2): continue     # functions without cuts: near-axis points are ordinary points
            scales = CUT_SCALES if a == ax else (g.choice(CUT_SCALES),)
            for k in scales:
                i = g.below(len(cats["%s@%d" % (ca, k)]))
                chosen += [cats["%s@%d" % (ca, k)][i], cats["%s@%d" % (cb, k)][i]]
        return chosen
    for name in UNARY:
        plan[name] = [[('c', (p[1], p[2]))] for p in pick(name)]
    # two-argument functions: z from the structured set, exponent / base w dyadic with |w| <= 3
    ws = [(F(1, 2), F(0)), (F(-3, 2), F(1, 4)), (F(2), F(-1)), (F(0), F(1)), (F(-1, 4), F(-5, 2)), (F(5, 2), F(3, 2)), (F(-2), F(0)), (F(1, 8), F(3, 4))]
    for name in ("pow", "powf", "log"):
        zs = pick(name)
        out = []
        for i, p in enumerate(zs):
            w = ws[(i + g.below(len(ws))) % len(ws)]
            if name == "powf": out.append([('c', (p[1], p[2])), ('r', w[0] if w[0] != 0 else F(3, 2))])
            elif name == "log":
                b = w if not on_cut("log", w) and w != (F(1), F(0)) else (F(3, 2), F(1, 2))
                out.append([('c', (p[1], p[2])), ('c', b)])
            else: out.append([('c', (p[1], p[2])), ('c', w)])
        plan[name] = out
    rs = [F(1, 512), F(1, 4), F(3, 4), F(5, 4), F(3), F(19, 2)]
    ts = [F(0), F(1, 2), F(-1, 2), F(3, 2), F(-3, 2), F(5, 2), F(-5, 2), F(3), F(-3), F(25, 8), F(-25, 8), F(7, 4)]
    pol = [[('r', r), ('r', t)] for r in rs for t in ts]
    plan["polar"] = pol if tier == "thorough" else g.shuffle(pol)[:20]
    return plan

def extra_checks(exe, rng, tier):
    events = []
    plan = cert_points(rng, tier)
    # 1. the implementation's answers
    lines, keys = [], []
    for name in ALLF:
        for args in plan[name]:
            keys.append((name, args))
            lines.append("k%d cplx %s" % (len(keys) - 1, harness_line(name, args)))
    ans = run_harness(exe, lines, "C14cert")
    lines2 = ["c0 cplx cf.const PI_2", "c1 cplx cf.const I_re", "c2 cplx cf.const I_im"]
    cst = run_harness(exe, lines2, "C14const")
    # 2. certificate goals
    goals, idinfo = [], {}
    nid = 0
    for k, (name, args) in enumerate(keys):
        toks = ans.get("k%d" % k)
        items = decode_harness(toks) if toks else []
        vals = [bits_f64(it[1]) for it in items if it[0] == 'f']
        want = 1 if name in REAL_VALUED else 2
        if len(vals) != want or any(not math.isfinite(v) for v in vals) or any(it[0] == 'P' for it in items):
            events.append(("oracle", "%s%r is not a finite value on the non-overflowing domain: %r" % (name, [a for _, a in args], toks),
                           {"kind": "extra", "function": name, "args": repr(args), "answer": toks}))
            continue
        ids = list(range(nid, nid + want)); nid += want
        for j, i in enumerate(ids): idinfo[i] = (name, args, j, vals)
        goals.append((COST[name], cert_goal(ids, coq_call(name, args), [F(v) for v in vals], name in REAL_VALUED), ids))
    # the f64 constants used by the functions
    pi2 = bits_f64(decode_harness(cst["c0"])[0][1])
    ire = bits_f64(decode_harness(cst["c1"])[0][1]); iim = bits_f64(decode_harness(cst["c2"])[0][1])
    if (ire, iim) != (0.0, 1.0):
        events.append(("oracle", "constant I = (%r, %r), not (0, 1)" % (ire, iim), {"kind": "extra", "constant": "I"}))
    cid = nid; nid += 1
    idinfo[cid] = ("const PI_2", [], 0, [pi2])
    goals.append((1, "Goal True. chk %d (Rabs (PI / 2 - %s) <= %s). exact I. Qed.\n" % (cid, rlit(F(pi2)), rlit(F(1, 10 ** 15))), [cid]))
    # 3. run
    verdict, errors, secs, cdir = run_certs(goals, "C14")
    n_ok = sum(1 for v in verdict.values() if v == "OK")
    fails = [i for i in range(nid) if verdict.get(i) != "OK"]
    per_fn = {}
    for i in range(nid):
        nm = idinfo[i][0]
        per_fn[nm] = per_fn.get(nm, 0) + (1 if verdict.get(i) == "OK" else 0)
    seen = set()
    for i in fails:
        name, args, comp, vals = idinfo[i]
        key = (name, repr(args))
        if key in seen: continue
        seen.add(key)
        status = verdict.get(i, "no verdict (coqc did not reach the goal)")
        desc_pt = "%s at %s" % (name, ", ".join(str(tuple(float(c) for c in a)) if k == 'c' else str(float(a)) for k, a in args))
        payload = {"kind": "extra", "function": name, "args": [[k, [str(c) for c in a] if k == 'c' else str(a)] for k, a in args],
                   "implementation": vals, "certificate": status, "component": comp}
        bad = None
        if name in MPREF and args:
            ref = MPREF[name](mp.mpc(mp.mpf(args[0][1][0].numerator) / args[0][1][0].denominator, mp.mpf(args[0][1][1].numerator) / args[0][1][1].denominator))
            got = vals[0] if name in REAL_VALUED else complex(vals[0], vals[1])
            if not _close(got, ref): bad = mp.nstr(ref, 17)
        elif name in ("pow", "powf", "log", "polar"):
            a0 = args[0][1]; a1 = args[1][1]
            q = lambda x: mp.mpf(x.numerator) / x.denominator
            if name == "polar": ref = q(a0) * mp.expj(q(a1))
            elif name == "powf": ref = mp.exp(q(a1) * mp.log(mp.mpc(q(a0[0]), q(a0[1]))))
            elif name == "pow": ref = mp.exp(mp.mpc(q(a1[0]), q(a1[1])) * mp.log(mp.mpc(q(a0[0]), q(a0[1]))))
            else: ref = mp.log(mp.mpc(q(a0[0]), q(a0[1]))) / mp.log(mp.mpc(q(a1[0]), q(a1[1])))
            if not _close(complex(vals[0], vals[1]), ref): bad = mp.nstr(ref, 17)
        if bad is not None:
            events.append(("oracle", "%s: the implementation returns %r, the function value is %s (certificate against the model: %s)" % (desc_pt, vals, bad, status), payload))
        else:
            events.append(("tie", "certificate %s: model (coq/Model/CFun.v) and implementation disagree beyond 1e-9 at %s; implementation %r agrees with mpmath" % (status, desc_pt, vals), payload))
    for e in errors[:3]:
        events.append(("tie", e, {"kind": "extra", "error": e[:500]}))
    cov = {"certificates": nid, "certificates_ok": n_ok, "certificates_failed": len(fails), "certificate_seconds": round(secs, 1),
           "certificate_points": len(keys), "functions_certified": len([n for n in per_fn if per_fn[n] > 0 and not n.startswith("const")]),
           "certificates_per_function": per_fn, "certificate_tolerance": "1e-9*max(1,|component|)", "interval_precision_bits": 70,
           "cert_procs": CERT_PROCS}
    # the certificates are this property's correspondence check: report them under the engine's tie keys as well
    cov["traces_validated_against_impl"] = n_ok
    cov["correspondence"] = {"compared": nid, "same": 0, "close": n_ok, "differ": len(fails),
                             "comparator": "interval: |model value over R - f64 answer| <= 1e-9*max(1,|component|), kernel-checked"}
    cov.update(_cov)
    return events, cov

def extra_coverage():
    return dict(_cov)
