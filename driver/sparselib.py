# driver/sparselib.py -- sparse-matrix cases (executor kinds sp.hist / sp.probe / sp.prod): printers for both
# sides, a parser of the dumped state, the well-formedness predicate evaluated on the public fields, and an
# independent dictionary-of-keys reference model (the search oracle of C06 / C07).
from fractions import Fraction
from common import *

IMPORTS = "From OV Require Import Model.Vector Model.Matrix Model.Sparse Model.SparseOps."
MODEL_VO = ["Model/SparseOps.vo"]

# a build is ('T', r, c, [(i, j, v), ...])  (from_triplets)  or  ('V', r, c, vals, row_index, col_start)  (from_vecs)
# an op is ('insert', i, j, v) | ('scale', v) | ('transpose',)

def tok_build(elt, b):
    if b[0] == 'T':
        return "T %d %d [%s]" % (b[1], b[2], ",".join("%d@%d@%s" % (i, j, tok_scalar(elt, v)) for (i, j, v) in b[3]))
    return "V %d %d %s [%s] [%s]" % (b[1], b[2], tok_vec(elt, b[3]), ",".join(map(str, b[4])), ",".join(map(str, b[5])))

def coq_nats(xs):
    return "[" + "; ".join(str(x) for x in xs) + "]"

def coq_build(elt, b):
    A = ARITH[elt]
    if b[0] == 'T':
        ts = "[" + "; ".join("(%d, %d, %s)" % (i, j, coq_scalar(elt, v)) for (i, j, v) in b[3]) + "]"
        return "(@BTrip %s %d %d %s)" % (A, b[1], b[2], ts)
    return "(@BVecs %s %d %d %s %s %s)" % (A, b[1], b[2], coq_vec(elt, b[3]), coq_nats(b[4]), coq_nats(b[5]))

def op_line(elt, o):
    if o[0] == 'insert': return "insert %d %d %s ;" % (o[1], o[2], tok_scalar(elt, o[3]))
    if o[0] == 'scale': return "scale %s ;" % tok_scalar(elt, o[1])
    if o[0] == 'transpose': return "transpose ;"
    raise ValueError(o)

def op_coq(elt, o):
    A = ARITH[elt]
    if o[0] == 'insert': return "(@SInsert %s %d %d %s)" % (A, o[1], o[2], coq_scalar(elt, o[3]))
    if o[0] == 'scale': return "(@SScale %s %s)" % (A, coq_scalar(elt, o[1]))
    if o[0] == 'transpose': return "(@STranspose %s)" % A
    raise ValueError(o)

def hist_line(elt, b, ops):
    return ("sp.hist " + tok_build(elt, b) + " " + " ".join(op_line(elt, o) for o in ops)).strip()

def hist_term(elt, b, ops):
    return "@sp_hist %s %s %s %s" % (ARITH[elt], FLAT[elt], coq_build(elt, b), coq_list([op_coq(elt, o) for o in ops]))

def probe_line(elt, b, i, j, v):
    return "sp.probe %s %d %d %s" % (tok_build(elt, b), i, j, tok_scalar(elt, v))

def probe_term(elt, b, i, j, v):
    return "@sp_probe %s %s %s %d %d %s" % (ARITH[elt], FLAT[elt], coq_build(elt, b), i, j, coq_scalar(elt, v))

def prod_line(elt, b, x, y, a):
    return "sp.prod %s %s %s %s" % (tok_build(elt, b), tok_vec(elt, x), tok_vec(elt, y), tok_scalar(elt, a))

def prod_term(elt, b, x, y, a):
    return "@sp_prod %s %s %s %s %s %s" % (ARITH[elt], FLAT[elt], coq_build(elt, b), coq_vec(elt, x), coq_vec(elt, y), coq_scalar(elt, a))

# ------------------------------------------------------------------ JSON (corpus / replay) conversion
def build_to_json(b):
    if b[0] == 'T': return ['T', b[1], b[2], [[i, j, str(v)] for (i, j, v) in b[3]]]
    return ['V', b[1], b[2], [str(v) for v in b[3]], list(b[4]), list(b[5])]

def build_from_json(elt, j):
    cv = (lambda s: Fraction(s)) if elt == 'rat' else (lambda s: complex(s) if elt == 'cplx' else float(s))
    if j[0] == 'T': return ('T', j[1], j[2], [(t[0], t[1], cv(t[2])) for t in j[3]])
    return ('V', j[1], j[2], [cv(v) for v in j[3]], list(j[4]), list(j[5]))

def ops_to_json(ops):
    out = []
    for o in ops:
        if o[0] == 'insert': out.append(['insert', o[1], o[2], str(o[3])])
        elif o[0] == 'scale': out.append(['scale', str(o[1])])
        else: out.append(['transpose'])
    return out

def ops_from_json(elt, js):
    cv = (lambda s: Fraction(s)) if elt == 'rat' else (lambda s: complex(s) if elt == 'cplx' else float(s))
    out = []
    for o in js:
        if o[0] == 'insert': out.append(('insert', o[1], o[2], cv(o[3])))
        elif o[0] == 'scale': out.append(('scale', cv(o[1])))
        else: out.append(('transpose',))
    return out

# ------------------------------------------------------------------ reading the dumped stream
class Bad(Exception):
    pass

class Reader:
    """cursor over decoded items; a view that panicked is one ('P', class) item"""
    def __init__(self, items, elt='rat'):
        self.it, self.k, self.elt = items, 0, elt
    def more(self): return self.k < len(self.it)
    def peek_panic(self):
        return self.more() and self.it[self.k][0] == 'P'
    def panic(self):
        p = self.it[self.k]; self.k += 1; return p[1]
    def nat(self):
        if not self.more(): raise Bad("stream ended early")
        x = self.it[self.k]
        if x[0] != 'i': raise Bad("expected an integer at item %d, got %r" % (self.k, x))
        self.k += 1; return x[1]
    def scalar(self):
        if not self.more(): raise Bad("stream ended early")
        x = self.it[self.k]
        if self.elt == 'rat':
            if x[0] != 'q': raise Bad("expected a rational at item %d, got %r" % (self.k, x))
            self.k += 1; return Fraction(x[1], x[2])
        if self.elt == 'f64':
            if x[0] != 'f': raise Bad("expected a float at item %d, got %r" % (self.k, x))
            self.k += 1; return bits_f64(x[1])
        a = self.it[self.k]; b = self.it[self.k + 1]; self.k += 2
        return complex(bits_f64(a[1]), bits_f64(b[1]))
    def nats(self): return [self.nat() for _ in range(self.nat())]
    def scalars(self): return [self.scalar() for _ in range(self.nat())]
    def view(self, f):
        """('P', class) if the view panicked, else ('ok', f())"""
        if self.peek_panic(): return ('P', self.panic())
        return ('ok', f())
    def matrix(self):
        r = self.nat(); c = self.nat()
        return (r, c, [self.scalar() for _ in range(r * c)])
    def option(self):
        t = self.nat()
        return None if t == 0 else ('some', self.scalar())

def read_fields(rd):
    f = {}
    f['rows'], f['cols'], f['nonzero'] = rd.nat(), rd.nat(), rd.nat()
    f['col_start'] = rd.nats(); f['row_index'] = rd.nats(); f['val'] = rd.scalars()
    return f

def read_state(rd):
    st = read_fields(rd)
    st['col_index'] = rd.view(rd.nats)
    st['triplets'] = rd.view(lambda: [(rd.nat(), rd.nat(), rd.scalar()) for _ in range(rd.nat())])
    st['dense'] = rd.view(rd.matrix)
    st['get'] = {}
    for i in range(st['rows']):
        for j in range(st['cols']):
            st['get'][(i, j)] = rd.view(rd.option)
    return st

# ------------------------------------------------------------------ the wf predicate of C06 on the public fields
def wf_fields(f):
    """None, or which clause of compressed-column well-formedness fails"""
    cs, ri, val, nz = f['col_start'], f['row_index'], f['val'], f['nonzero']
    if len(cs) != f['cols'] + 1: return "col_start has %d entries, expected cols+1 = %d" % (len(cs), f['cols'] + 1)
    if cs[0] != 0: return "col_start[0] = %d, expected 0" % cs[0]
    for k in range(len(cs) - 1):
        if cs[k] > cs[k + 1]: return "col_start decreases at %d: %r" % (k, cs)
    if cs[-1] != nz: return "col_start ends at %d but nonzero = %d" % (cs[-1], nz)
    if len(val) != nz: return "%d values for %d entries" % (len(val), nz)
    if len(ri) != nz: return "%d row indices for %d entries" % (len(ri), nz)
    for k, r in enumerate(ri):
        if r >= f['rows']: return "row_index[%d] = %d out of range (rows = %d)" % (k, r, f['rows'])
    return None

# ------------------------------------------------------------------ dictionary-of-keys reference
class Dok:
    def __init__(self, r, c, d=None):
        self.r, self.c, self.d = r, c, dict(d or {})
    def insert(self, i, j, v): self.d[(i, j)] = v
    def scale(self, a): self.d = {k: v * a for k, v in self.d.items()}
    def transpose(self): return Dok(self.c, self.r, {(j, i): v for (i, j), v in self.d.items()})
    def dense(self):
        return (self.r, self.c, [self.d.get((i, j), Fraction(0)) for i in range(self.r) for j in range(self.c)])
    def mul(self, x):
        out = [Fraction(0)] * self.r
        for (i, j), v in self.d.items(): out[i] += v * x[j]
        return out
    def tmul(self, y):
        out = [Fraction(0)] * self.c
        for (i, j), v in self.d.items(): out[j] += v * y[i]
        return out

def vecs_wellformed(b):
    _, r, c, vals, ri, cs = b
    if len(cs) != c + 1 or cs[0] != 0: return False
    if any(cs[k] > cs[k + 1] for k in range(c)): return False
    if cs[-1] != len(vals) or len(ri) != len(vals): return False
    return all(x < r for x in ri)

def dok_of_build(b):
    """reference matrix of a build, or None when the build is outside the claim
    (out-of-range or duplicate positions, malformed raw arrays)"""
    if b[0] == 'T':
        _, r, c, ts = b
        d = {}
        for (i, j, v) in ts:
            if i >= r or j >= c or (i, j) in d: return None
            d[(i, j)] = v
        return Dok(r, c, d)
    if not vecs_wellformed(b): return None
    _, r, c, vals, ri, cs = b
    d = {}
    for j in range(c):
        for k in range(cs[j], cs[j + 1]):
            if (ri[k], j) in d: return None
            d[(ri[k], j)] = vals[k]
    return Dok(r, c, d)

def check_state(st, ref, where):
    """the statement of C06 on one dumped state: wf + the four views describe the reference matrix"""
    if (st['rows'], st['cols']) != (ref.r, ref.c):
        return "%s: shape %dx%d, reference %dx%d" % (where, st['rows'], st['cols'], ref.r, ref.c)
    w = wf_fields(st)
    if w: return "%s: compressed-column structure not well-formed: %s" % (where, w)
    if st['nonzero'] != len(ref.d):
        return "%s: %d stored entries, the reference matrix has %d" % (where, st['nonzero'], len(ref.d))
    for name in ('col_index', 'triplets', 'dense'):
        if st[name][0] == 'P': return "%s: %s panicked (%s) on a well-formed matrix" % (where, name, st[name][1])
    ci = st['col_index'][1]
    if len(ci) != st['nonzero']: return "%s: col_index has %d entries for %d stored values" % (where, len(ci), st['nonzero'])
    seen = set()
    for k in range(st['nonzero']):
        key = (st['row_index'][k], ci[k])
        if key in seen: return "%s: position %r stored twice" % (where, key)
        seen.add(key)
        if key not in ref.d or ref.d[key] != st['val'][k]:
            return "%s: (row_index, col_index, val)[%d] = %r %r, reference has %r" % (where, k, key, st['val'][k], ref.d.get(key))
    ts = st['triplets'][1]
    if len(ts) != len(ref.d): return "%s: to_triplets lists %d entries, reference has %d" % (where, len(ts), len(ref.d))
    if set((i, j) for (i, j, _) in ts) != set(ref.d.keys()) or any(ref.d[(i, j)] != v for (i, j, v) in ts):
        return "%s: to_triplets %r differs from the reference entries %r" % (where, ts, sorted(ref.d.items()))
    if st['dense'][1] != ref.dense():
        return "%s: to_dense %r differs from the reference %r" % (where, st['dense'][1], ref.dense())
    for i in range(ref.r):
        for j in range(ref.c):
            g = st['get'][(i, j)]
            if g[0] == 'P': return "%s: get(%d,%d) panicked (%s)" % (where, i, j, g[1])
            exp = ('some', ref.d[(i, j)]) if (i, j) in ref.d else None
            if g[1] != exp: return "%s: get(%d,%d) = %r, reference %r" % (where, i, j, g[1], exp)
    return None

def oracle_hist(b, ops, items):
    """C06 on a history; None when the inputs are outside the claim"""
    ref = dok_of_build(b)
    if ref is None: return None
    for o in ops:       # only in-range edits are in the claim
        pass
    rd = Reader(items, 'rat')
    try:
        if rd.peek_panic(): return "construction panicked (%s) on in-range, duplicate-free input" % rd.panic()
        st = read_state(rd)
        e = check_state(st, ref, "after construction")
        if e: return e
        for n, o in enumerate(ops):
            if o[0] == 'insert':
                if o[1] >= ref.r or o[2] >= ref.c: return None     # rejection of bad arguments is C20's claim; stop here
                ref.insert(o[1], o[2], o[3])
            elif o[0] == 'scale': ref.scale(o[1])
            else: ref = ref.transpose()
            where = "after step %d (%s)" % (n + 1, " ".join(str(x) for x in o))
            if rd.peek_panic(): return "%s: the step panicked (%s)" % (where, rd.panic())
            st = read_state(rd)
            e = check_state(st, ref, where)
            if e: return e
        if rd.more(): return "answer has %d unread items" % (len(items) - rd.k)
    except Bad as e:
        return "malformed answer: %s" % e
    except IndexError:
        return "answer ended early"
    return None

def oracle_prod(b, x, y, a, items):
    """C07 on one sp.prod answer; None when the inputs are outside the claim"""
    ref = dok_of_build(b)
    if ref is None or len(x) != ref.c or len(y) != ref.r: return None
    rd = Reader(items, 'rat')
    names = ["multiply", "transpose_multiply", "transpose().multiply", "<y, A x>", "<A^T y, x>", "to_dense", "scale then multiply"]
    try:
        got = []
        got.append(rd.view(rd.scalars)); got.append(rd.view(rd.scalars)); got.append(rd.view(rd.scalars))
        got.append(rd.view(rd.scalar)); got.append(rd.view(rd.scalar)); got.append(rd.view(rd.matrix)); got.append(rd.view(rd.scalars))
    except (Bad, IndexError) as e:
        return "malformed answer: %s" % e
    for n, g in zip(names, got):
        if g[0] == 'P': return "%s panicked (%s) on conformable operands" % (n, g[1])
    ax, aty = ref.mul(x), ref.tmul(y)
    yax = sum((p * q for p, q in zip(y, ax)), Fraction(0))
    exp = [ax, aty, aty, yax, yax, ref.dense(), [a * t for t in ax]]
    for n, g, e in zip(names, got, exp):
        if g[1] != e: return "%s = %r, dense reference %r" % (n, g[1], e)
    return None
