# driver/sparselib.py -- sparse-matrix cases (executor kinds sp.hist / sp.probe / sp.prod / sp.hprod): printers for both
# sides, a parser of the dumped state, the well-formedness predicate evaluated on the public fields, and an
# independent dictionary-of-keys reference model (the search oracle of C06 / C07) for the rational, f64 and
# Complex<f64> instances; second half: structured pattern / value / vector / operation classes of round four.
from fractions import Fraction
from common import *

IMPORTS = "From OV Require Import Model.Vector Model.Matrix Model.Sparse Model.SparseOps."
MODEL_VO = ["Model/SparseOps.vo"]

# a build is ('T', r, c, [(i, j, v), ...])  (from_triplets)  or  ('V', r, c, vals, row_index, col_start)  (from_vecs)
# an op is ('insert', i, j, v) | ('scale', v) | ('transpose',)

def tok_build(elt, b):
    if b[0] == 'T':
        return "T %d %d [%s]" % (b[1], b[2], ",".join("%d@%d@%s" % (i, j, tok_scalar(elt, v)) for (i, j, v) in b[3]))
    return "V %d %d %s [%s] [%s]" % (b[1], b[2], tok_vec(elt, b[3]), ",".join(map(str, b[4])), ",".join(map(str, b[5])))

def coq_nats(xs):
    return "[" + "; ".join(str(x) for x in xs) + "]"

def coq_build(elt, b):
    A = ARITH[elt]
    if b[0] == 'T':
        ts = "[" + "; ".join("(%d, %d, %s)" % (i, j, coq_scalar(elt, v)) for (i, j, v) in b[3]) + "]"
        return "(@BTrip %s %d %d %s)" % (A, b[1], b[2], ts)
    return "(@BVecs %s %d %d %s %s %s)" % (A, b[1], b[2], coq_vec(elt, b[3]), coq_nats(b[4]), coq_nats(b[5]))

def op_line(elt, o):
    if o[0] == 'insert': return "insert %d %d %s ;" % (o[1], o[2], tok_scalar(elt, o[3]))
    if o[0] == 'scale': return "scale %s ;" % tok_scalar(elt, o[1])
    if o[0] == 'transpose': return "transpose ;"
    raise ValueError(o)

def op_coq(elt, o):
    A = ARITH[elt]
    if o[0] == 'insert': return "(@SInsert %s %d %d %s)" % (A, o[1], o[2], coq_scalar(elt, o[3]))
    if o[0] == 'scale': return "(@SScale %s %s)" % (A, coq_scalar(elt, o[1]))
    if o[0] == 'transpose': return "(@STranspose %s)" % A
    raise ValueError(o)

def hist_line(elt, b, ops):
    return ("sp.hist " + tok_build(elt, b) + " " + " ".join(op_line(elt, o) for o in ops)).strip()

def hist_term(elt, b, ops):
    return "@sp_hist %s %s %s %s" % (ARITH[elt], FLAT[elt], coq_build(elt, b), coq_list([op_coq(elt, o) for o in ops]))

def probe_line(elt, b, i, j, v):
    return "sp.probe %s %d %d %s" % (tok_build(elt, b), i, j, tok_scalar(elt, v))

def probe_term(elt, b, i, j, v):
    return "@sp_probe %s %s %s %d %d %s" % (ARITH[elt], FLAT[elt], coq_build(elt, b), i, j, coq_scalar(elt, v))

def prod_line(elt, b, x, y, a):
    return "sp.prod %s %s %s %s" % (tok_build(elt, b), tok_vec(elt, x), tok_vec(elt, y), tok_scalar(elt, a))

def prod_term(elt, b, x, y, a):
    return "@sp_prod %s %s %s %s %s %s" % (ARITH[elt], FLAT[elt], coq_build(elt, b), coq_vec(elt, x), coq_vec(elt, y), coq_scalar(elt, a))

# ------------------------------------------------------------------ JSON (corpus / replay) conversion
def build_to_json(b):
    if b[0] == 'T': return ['T', b[1], b[2], [[i, j, str(v)] for (i, j, v) in b[3]]]
    return ['V', b[1], b[2], [str(v) for v in b[3]], list(b[4]), list(b[5])]

def build_from_json(elt, j):
    cv = (lambda s: Fraction(s)) if elt == 'rat' else (lambda s: complex(s) if elt == 'cplx' else float(s))
    if j[0] == 'T': return ('T', j[1], j[2], [(t[0], t[1], cv(t[2])) for t in j[3]])
    return ('V', j[1], j[2], [cv(v) for v in j[3]], list(j[4]), list(j[5]))

def ops_to_json(ops):
    out = []
    for o in ops:
        if o[0] == 'insert': out.append(['insert', o[1], o[2], str(o[3])])
        elif o[0] == 'scale': out.append(['scale', str(o[1])])
        else: out.append(['transpose'])
    return out

def ops_from_json(elt, js):
    cv = (lambda s: Fraction(s)) if elt == 'rat' else (lambda s: complex(s) if elt == 'cplx' else float(s))
    out = []
    for o in js:
        if o[0] == 'insert': out.append(('insert', o[1], o[2], cv(o[3])))
        elif o[0] == 'scale': out.append(('scale', cv(o[1])))
        else: out.append(('transpose',))
    return out

# ------------------------------------------------------------------ reading the dumped stream
class Bad(Exception):
    pass

class Reader:
    """cursor over decoded items; a view that panicked is one ('P', class) item"""
    def __init__(self, items, elt='rat'):
        self.it, self.k, self.elt = items, 0, elt
    def more(self): return self.k < len(self.it)
    def peek_panic(self):
        return self.more() and self.it[self.k][0] == 'P'
    def panic(self):
        p = self.it[self.k]; self.k += 1; return p[1]
    def nat(self):
        if not self.more(): raise Bad("stream ended early")
        x = self.it[self.k]
        if x[0] != 'i': raise Bad("expected an integer at item %d, got %r" % (self.k, x))
        self.k += 1; return x[1]
    def scalar(self):
        if not self.more(): raise Bad("stream ended early")
        x = self.it[self.k]
        if self.elt == 'rat':
            if x[0] != 'q': raise Bad("expected a rational at item %d, got %r" % (self.k, x))
            self.k += 1; return Fraction(x[1], x[2])
        if self.elt == 'f64':
            if x[0] != 'f' or not (0 <= x[1] < 2 ** 64): raise Bad("expected a float at item %d, got %r" % (self.k, x))
            self.k += 1; return bits_f64(x[1])
        # Complex<f64>: two consecutive float items (re, im); a shifted stream must become "malformed answer", not a crash
        if self.k + 1 >= len(self.it): raise Bad("stream ended early (inside a complex value at item %d)" % self.k)
        a = self.it[self.k]; b = self.it[self.k + 1]
        for off, t in ((0, a), (1, b)):
            if t[0] != 'f' or not isinstance(t[1], int) or not (0 <= t[1] < 2 ** 64):
                raise Bad("expected a complex value (two floats) at item %d, got %r" % (self.k + off, t))
        self.k += 2
        return complex(bits_f64(a[1]), bits_f64(b[1]))
    def nats(self): return [self.nat() for _ in range(self.nat())]
    def scalars(self): return [self.scalar() for _ in range(self.nat())]
    def view(self, f):
        """('P', class) if the view panicked, else ('ok', f())"""
        if self.peek_panic(): return ('P', self.panic())
        return ('ok', f())
    def matrix(self):
        r = self.nat(); c = self.nat()
        return (r, c, [self.scalar() for _ in range(r * c)])
    def option(self):
        t = self.nat()
        return None if t == 0 else ('some', self.scalar())

def read_fields(rd):
    f = {}
    f['rows'], f['cols'], f['nonzero'] = rd.nat(), rd.nat(), rd.nat()
    f['col_start'] = rd.nats(); f['row_index'] = rd.nats(); f['val'] = rd.scalars()
    return f

def read_state(rd):
    st = read_fields(rd)
    st['col_index'] = rd.view(rd.nats)
    st['triplets'] = rd.view(lambda: [(rd.nat(), rd.nat(), rd.scalar()) for _ in range(rd.nat())])
    st['dense'] = rd.view(rd.matrix)
    st['get'] = {}
    for i in range(st['rows']):
        for j in range(st['cols']):
            st['get'][(i, j)] = rd.view(rd.option)
    return st

# ------------------------------------------------------------------ the wf predicate of C06 on the public fields
def wf_fields(f):
    """None, or which clause of compressed-column well-formedness fails"""
    cs, ri, val, nz = f['col_start'], f['row_index'], f['val'], f['nonzero']
    if len(cs) != f['cols'] + 1: return "col_start has %d entries, expected cols+1 = %d" % (len(cs), f['cols'] + 1)
    if cs[0] != 0: return "col_start[0] = %d, expected 0" % cs[0]
    for k in range(len(cs) - 1):
        if cs[k] > cs[k + 1]: return "col_start decreases at %d: %r" % (k, cs)
    if cs[-1] != nz: return "col_start ends at %d but nonzero = %d" % (cs[-1], nz)
    if len(val) != nz: return "%d values for %d entries" % (len(val), nz)
    if len(ri) != nz: return "%d row indices for %d entries" % (len(ri), nz)
    for k, r in enumerate(ri):
        if r >= f['rows']: return "row_index[%d] = %d out of range (rows = %d)" % (k, r, f['rows'])
    return None

# ------------------------------------------------------------------ dictionary-of-keys reference
class Dok:
    def __init__(self, r, c, d=None):
        self.r, self.c, self.d = r, c, dict(d or {})
    def insert(self, i, j, v): self.d[(i, j)] = v
    def scale(self, a): self.d = {k: v * a for k, v in self.d.items()}
    def transpose(self): return Dok(self.c, self.r, {(j, i): v for (i, j), v in self.d.items()})
    def dense(self):
        return (self.r, self.c, [self.d.get((i, j), Fraction(0)) for i in range(self.r) for j in range(self.c)])
    def mul(self, x):
        out = [Fraction(0)] * self.r
        for (i, j), v in self.d.items(): out[i] += v * x[j]
        return out
    def tmul(self, y):
        out = [Fraction(0)] * self.c
        for (i, j), v in self.d.items(): out[j] += v * y[i]
        return out

def vecs_wellformed(b):
    _, r, c, vals, ri, cs = b
    if len(cs) != c + 1 or cs[0] != 0: return False
    if any(cs[k] > cs[k + 1] for k in range(c)): return False
    if cs[-1] != len(vals) or len(ri) != len(vals): return False
    return all(x < r for x in ri)

def dok_of_build(b):
    """reference matrix of a build, or None when the build is outside the claim
    (out-of-range or duplicate positions, malformed raw arrays)"""
    if b[0] == 'T':
        _, r, c, ts = b
        d = {}
        for (i, j, v) in ts:
            if i >= r or j >= c or (i, j) in d: return None
            d[(i, j)] = v
        return Dok(r, c, d)
    if not vecs_wellformed(b): return None
    _, r, c, vals, ri, cs = b
    d = {}
    for j in range(c):
        for k in range(cs[j], cs[j + 1]):
            if (ri[k], j) in d: return None
            d[(ri[k], j)] = vals[k]
    return Dok(r, c, d)

def check_state(st, ref, where):
    """the statement of C06 on one dumped state: wf + the four views describe the reference matrix"""
    if (st['rows'], st['cols']) != (ref.r, ref.c):
        return "%s: shape %dx%d, reference %dx%d" % (where, st['rows'], st['cols'], ref.r, ref.c)
    w = wf_fields(st)
    if w: return "%s: compressed-column structure not well-formed: %s" % (where, w)
    if st['nonzero'] != len(ref.d):
        return "%s: %d stored entries, the reference matrix has %d" % (where, st['nonzero'], len(ref.d))
    for name in ('col_index', 'triplets', 'dense'):
        if st[name][0] == 'P': return "%s: %s panicked (%s) on a well-formed matrix" % (where, name, st[name][1])
    ci = st['col_index'][1]
    if len(ci) != st['nonzero']: return "%s: col_index has %d entries for %d stored values" % (where, len(ci), st['nonzero'])
    seen = set()
    for k in range(st['nonzero']):
        key = (st['row_index'][k], ci[k])
        if key in seen: return "%s: position %r stored twice" % (where, key)
        seen.add(key)
        if key not in ref.d or ref.d[key] != st['val'][k]:
            return "%s: (row_index, col_index, val)[%d] = %r %r, reference has %r" % (where, k, key, st['val'][k], ref.d.get(key))
    ts = st['triplets'][1]
    if len(ts) != len(ref.d): return "%s: to_triplets lists %d entries, reference has %d" % (where, len(ts), len(ref.d))
    if set((i, j) for (i, j, _) in ts) != set(ref.d.keys()) or any(ref.d[(i, j)] != v for (i, j, v) in ts):
        return "%s: to_triplets %r differs from the reference entries %r" % (where, ts, sorted(ref.d.items()))
    if st['dense'][1] != ref.dense():
        return "%s: to_dense %r differs from the reference %r" % (where, st['dense'][1], ref.dense())
    for i in range(ref.r):
        for j in range(ref.c):
            g = st['get'][(i, j)]
            if g[0] == 'P': return "%s: get(%d,%d) panicked (%s)" % (where, i, j, g[1])
            exp = ('some', ref.d[(i, j)]) if (i, j) in ref.d else None
            if g[1] != exp: return "%s: get(%d,%d) = %r, reference %r" % (where, i, j, g[1], exp)
    return None

def oracle_hist(b, ops, items):
    """C06 on a history; None when the inputs are outside the claim"""
    ref = dok_of_build(b)
    if ref is None: return None
    for o in ops:       # only in-range edits are in the claim
        pass
    rd = Reader(items, 'rat')
    try:
        if rd.peek_panic(): return "construction panicked (%s) on in-range, duplicate-free input" % rd.panic()
        st = read_state(rd)
        e = check_state(st, ref, "after construction")
        if e: return e
        for n, o in enumerate(ops):
            if o[0] == 'insert':
                if o[1] >= ref.r or o[2] >= ref.c: return None     # rejection of bad arguments is C20's claim; stop here
                ref.insert(o[1], o[2], o[3])
            elif o[0] == 'scale': ref.scale(o[1])
            else: ref = ref.transpose()
            where = "after step %d (%s)" % (n + 1, " ".join(str(x) for x in o))
            if rd.peek_panic(): return "%s: the step panicked (%s)" % (where, rd.panic())
            st = read_state(rd)
            e = check_state(st, ref, where)
            if e: return e
        if rd.more(): return "answer has %d unread items" % (len(items) - rd.k)
    except Bad as e:
        return "malformed answer: %s" % e
    except IndexError:
        return "answer ended early"
    return None

def oracle_prod(b, x, y, a, items):
    """C07 on one sp.prod answer; None when the inputs are outside the claim"""
    ref = dok_of_build(b)
    if ref is None or len(x) != ref.c or len(y) != ref.r: return None
    rd = Reader(items, 'rat')
    names = ["multiply", "transpose_multiply", "transpose().multiply", "<y, A x>", "<A^T y, x>", "to_dense", "scale then multiply"]
    try:
        got = []
        got.append(rd.view(rd.scalars)); got.append(rd.view(rd.scalars)); got.append(rd.view(rd.scalars))
        got.append(rd.view(rd.scalar)); got.append(rd.view(rd.scalar)); got.append(rd.view(rd.matrix)); got.append(rd.view(rd.scalars))
    except (Bad, IndexError) as e:
        return "malformed answer: %s" % e
    for n, g in zip(names, got):
        if g[0] == 'P': return "%s panicked (%s) on conformable operands" % (n, g[1])
    ax, aty = ref.mul(x), ref.tmul(y)
    yax = sum((p * q for p, q in zip(y, ax)), Fraction(0))
    exp = [ax, aty, aty, yax, yax, ref.dense(), [a * t for t in ax]]
    for n, g, e in zip(names, got, exp):
        if g[1] != e: return "%s = %r, dense reference %r" % (n, g[1], e)
    return None

# =====================================================================================================================
# Round four ("special values"): sp.hprod (products on the matrix a history leaves behind, before and after a scale),
# a reference for the float instances (f64 / Complex<f64>) of every observable, an oracle for in-range probes, and the
# structured pattern / value / vector classes shared by the generators of C06 and C07.
# =====================================================================================================================
import math

def hprod_line(elt, b, ops, x, y, a):
    return ("sp.hprod " + tok_build(elt, b) + " " + " ".join(op_line(elt, o) for o in ops)).strip() + \
           " | %s %s %s" % (tok_vec(elt, x), tok_vec(elt, y), tok_scalar(elt, a))

def hprod_term(elt, b, ops, x, y, a):
    """the answer of sp.hprod, composed of existing model functions only (sp_build, sp_run, sp_mul, sp_tmul, sp_transpose,
    dot, sp_to_dense, sp_scale and the printers of Model/SparseOps.v)"""
    A, F = ARITH[elt], FLAT[elt]
    xs, ys = coq_vec(elt, x), coq_vec(elt, y)
    P = ("(fun s : sparse %(A)s => "
         "fl_res (fl_list %(F)s) (@sp_mul %(A)s s %(x)s) ++ "
         "fl_res (fl_list %(F)s) (@sp_tmul %(A)s s %(y)s) ++ "
         "fl_res (fl_list %(F)s) (bind (@sp_transpose %(A)s s) (fun t => @sp_mul %(A)s t %(y)s)) ++ "
         "fl_res %(F)s (bind (@sp_mul %(A)s s %(x)s) (fun u => @dot %(A)s %(y)s u)) ++ "
         "fl_res %(F)s (bind (@sp_tmul %(A)s s %(y)s) (fun w => @dot %(A)s w %(x)s)) ++ "
         "fl_res (@fl_mat %(A)s %(F)s) (@sp_to_dense %(A)s s))") % {"A": A, "F": F, "x": xs, "y": ys}
    return ("(let P := %s in match @sp_build %s %s with "
            "| Ok s0 => match @sp_run %s %s s0 with "
            "| Ok s => P s ++ match @sp_scale %s s %s with Ok s2 => P s2 | Panic k => fl_panic k end "
            "| Panic k => fl_panic k end "
            "| Panic k => fl_panic k end)") % (P, A, coq_build(elt, b), A, coq_list([op_coq(elt, o) for o in ops]), A, coq_scalar(elt, a))

# ------------------------------------------------------------------ exact values of float answers, error bounds
class CQ:
    """exact complex rational (the exact value of a Complex<f64>)"""
    __slots__ = ("re", "im")
    def __init__(self, re, im=0): self.re, self.im = Fraction(re), Fraction(im)
    def __add__(self, o): o = cq(o); return CQ(self.re + o.re, self.im + o.im)
    __radd__ = __add__
    def __mul__(self, o): o = cq(o); return CQ(self.re * o.re - self.im * o.im, self.re * o.im + self.im * o.re)
    __rmul__ = __mul__
    def __eq__(self, o): o = cq(o); return self.re == o.re and self.im == o.im
    def __ne__(self, o): return not self.__eq__(o)
    def __hash__(self): return hash((self.re, self.im))
    def __repr__(self): return "(%r%s%ri)" % (float(self.re), "+" if self.im >= 0 else "-", abs(float(self.im)))

def cq(v):
    return v if isinstance(v, CQ) else CQ(v, 0)

def finite(elt, v):
    if elt == 'rat': return True
    if elt == 'f64': return math.isfinite(v)
    return math.isfinite(v.real) and math.isfinite(v.imag)

def exact(elt, v):
    """the exact rational value of an input or an answer"""
    if elt == 'rat': return Fraction(v)
    if elt == 'f64': return Fraction(float(v))
    v = complex(v)
    return CQ(Fraction(v.real), Fraction(v.imag))

def mag(elt, v):
    """a rational bound of the modulus"""
    if elt == 'rat': return abs(Fraction(v))
    if elt == 'f64': return abs(Fraction(float(v)))
    v = complex(v)
    return abs(Fraction(v.real)) + abs(Fraction(v.imag))

def dist(a, b):
    if isinstance(a, CQ) or isinstance(b, CQ):
        a, b = cq(a), cq(b)
        return max(abs(a.re - b.re), abs(a.im - b.im))
    return abs(a - b)

U = Fraction(1, 2 ** 53)
BIG = Fraction(2 ** 1000)            # bounds above this are outside the range of binary64 (overflow): not judged
TINY = Fraction(1, 2 ** 1000)        # absolute slack for results that underflow (never reached by the generated values)

def zero_of(elt):
    return Fraction(0) if elt != 'cplx' else CQ(0, 0)

def show(v):
    if isinstance(v, Fraction): return str(v) if v.denominator < 10 ** 6 else repr(float(v))
    return repr(v)

# ------------------------------------------------------------------ C06 on the float instances
def same_value(elt, a, b):
    """stored / dumped value a against the reference value b.  rat: exact.  f64 / Complex<f64>: the reference applies the
    same IEEE operations in the same order (one multiplication per scale step), so the values agree up to the way a complex
    product is rounded; 2^-40 relative is far below any wrong entry and far above rounding"""
    if elt == 'rat': return a == b
    if elt == 'f64':
        a, b = float(a), float(b)
        if not (math.isfinite(a) and math.isfinite(b)): return (a == b) or (a != a and b != b)
        return a == b or abs(a - b) <= 2.0 ** -40 * max(abs(a), abs(b))
    a, b = complex(a), complex(b)
    m = max(abs(a.real), abs(a.imag), abs(b.real), abs(b.imag))
    return same_value('f64', a.real, b.real) and same_value('f64', a.imag, b.imag) or \
           (math.isfinite(m) and abs(a.real - b.real) <= 2.0 ** -40 * m and abs(a.imag - b.imag) <= 2.0 ** -40 * m)

class DokE(Dok):
    """dictionary-of-keys reference over an element kind; scale multiplies natively (python float / complex = IEEE)"""
    def __init__(self, elt, r, c, d=None):
        Dok.__init__(self, r, c, d); self.elt = elt
    def transpose(self): return DokE(self.elt, self.c, self.r, {(j, i): v for (i, j), v in self.d.items()})
    def zero(self): return Fraction(0) if self.elt == 'rat' else (0.0 if self.elt == 'f64' else complex(0.0, 0.0))
    def dense(self):
        z = self.zero()
        return (self.r, self.c, [self.d.get((i, j), z) for i in range(self.r) for j in range(self.c)])

def doke_of_build(elt, b):
    ref = dok_of_build(b)
    return None if ref is None else DokE(elt, ref.r, ref.c, ref.d)

def check_state_e(elt, st, ref, where):
    """check_state for any element kind (values compared by same_value)"""
    if (st['rows'], st['cols']) != (ref.r, ref.c):
        return "%s: shape %dx%d, reference %dx%d" % (where, st['rows'], st['cols'], ref.r, ref.c)
    w = wf_fields(st)
    if w: return "%s: compressed-column structure not well-formed: %s" % (where, w)
    if st['nonzero'] != len(ref.d):
        return "%s: %d stored entries, the reference matrix has %d" % (where, st['nonzero'], len(ref.d))
    for name in ('col_index', 'triplets', 'dense'):
        if st[name][0] == 'P': return "%s: %s panicked (%s) on a well-formed matrix" % (where, name, st[name][1])
    ci = st['col_index'][1]
    if len(ci) != st['nonzero']: return "%s: col_index has %d entries for %d stored values" % (where, len(ci), st['nonzero'])
    seen = set()
    for k in range(st['nonzero']):
        key = (st['row_index'][k], ci[k])
        if key in seen: return "%s: position %r stored twice" % (where, key)
        seen.add(key)
        if key not in ref.d or not same_value(elt, st['val'][k], ref.d[key]):
            return "%s: (row_index, col_index, val)[%d] = %r %r, reference has %r" % (where, k, key, st['val'][k], ref.d.get(key))
    ts = st['triplets'][1]
    if len(ts) != len(ref.d): return "%s: to_triplets lists %d entries, reference has %d" % (where, len(ts), len(ref.d))
    if set((i, j) for (i, j, _) in ts) != set(ref.d.keys()) or len(set((i, j) for (i, j, _) in ts)) != len(ts) or \
       any(not same_value(elt, v, ref.d[(i, j)]) for (i, j, v) in ts):
        return "%s: to_triplets %r differs from the reference entries %r" % (where, ts, sorted(ref.d.items(), key=lambda p: p[0]))
    dr, dc, dv = st['dense'][1]
    er, ec, ev = ref.dense()
    if (dr, dc) != (er, ec) or len(dv) != len(ev) or any(not same_value(elt, p, q) for p, q in zip(dv, ev)):
        return "%s: to_dense %r differs from the reference %r" % (where, st['dense'][1], ref.dense())
    for i in range(ref.r):
        for j in range(ref.c):
            g = st['get'][(i, j)]
            if g[0] == 'P': return "%s: get(%d,%d) panicked (%s)" % (where, i, j, g[1])
            if (i, j) in ref.d:
                if g[1] is None or not same_value(elt, g[1][1], ref.d[(i, j)]):
                    return "%s: get(%d,%d) = %r, reference %r" % (where, i, j, g[1], ('some', ref.d[(i, j)]))
            elif g[1] is not None:
                return "%s: get(%d,%d) = %r, reference None" % (where, i, j, g[1])
    return None

def oracle_hist_e(elt, b, ops, items):
    """C06 on a history over f64 / Complex<f64> (the views involve no arithmetic except the one product per scale step)"""
    ref = doke_of_build(elt, b)
    if ref is None: return None
    vals = [v for o in ops if o[0] in ('insert', 'scale') for v in [o[-1]]] + list(ref.d.values())
    if not all(finite(elt, v) for v in vals): return None
    rd = Reader(items, elt)
    try:
        if rd.peek_panic(): return "construction panicked (%s) on in-range, duplicate-free input" % rd.panic()
        st = read_state(rd)
        e = check_state_e(elt, st, ref, "after construction")
        if e: return e
        for n, o in enumerate(ops):
            if o[0] == 'insert':
                if o[1] >= ref.r or o[2] >= ref.c: return None
                ref.insert(o[1], o[2], o[3])
            elif o[0] == 'scale': ref.scale(o[1])
            else: ref = ref.transpose()
            where = "after step %d (%s)" % (n + 1, " ".join(str(x) for x in o))
            if rd.peek_panic(): return "%s: the step panicked (%s)" % (where, rd.panic())
            st = read_state(rd)
            e = check_state_e(elt, st, ref, where)
            if e: return e
        if rd.more(): return "answer has %d unread items" % (len(items) - rd.k)
    except Bad as e:
        return "malformed answer: %s" % e
    except IndexError:
        return "answer ended early"
    return None

def oracle_probe(elt, b, i, j, v, items):
    """sp.probe with in-range arguments on a build inside the claim: get agrees with the reference, insert leaves a
    well-formed structure holding exactly the reference entries"""
    ref = doke_of_build(elt, b)
    if ref is None or i >= ref.r or j >= ref.c: return None
    if not finite(elt, v) or not all(finite(elt, t) for t in ref.d.values()): return None
    rd = Reader(items, elt)
    try:
        if rd.peek_panic(): return "construction panicked (%s) on in-range, duplicate-free input" % rd.panic()
        g = rd.view(rd.option)
        if g[0] == 'P': return "get(%d,%d) panicked (%s) in range" % (i, j, g[1])
        if (i, j) in ref.d:
            if g[1] is None or not same_value(elt, g[1][1], ref.d[(i, j)]): return "get(%d,%d) = %r, reference %r" % (i, j, g[1], ref.d[(i, j)])
        elif g[1] is not None: return "get(%d,%d) = %r, reference None" % (i, j, g[1])
        if rd.peek_panic(): return "insert(%d,%d) panicked (%s) in range" % (i, j, rd.panic())
        f = read_fields(rd)
        ref.insert(i, j, v)
        where = "after insert %d %d %s" % (i, j, v)
        if (f['rows'], f['cols']) != (ref.r, ref.c): return "%s: shape %dx%d, reference %dx%d" % (where, f['rows'], f['cols'], ref.r, ref.c)
        w = wf_fields(f)
        if w: return "%s: compressed-column structure not well-formed: %s" % (where, w)
        got = {}
        for c in range(f['cols']):
            for k in range(f['col_start'][c], f['col_start'][c + 1]):
                key = (f['row_index'][k], c)
                if key in got: return "%s: position %r stored twice" % (where, key)
                got[key] = f['val'][k]
        if set(got) != set(ref.d) or any(not same_value(elt, got[k], ref.d[k]) for k in got):
            return "%s: stored entries %r, reference %r" % (where, sorted(got.items(), key=lambda p: p[0]), sorted(ref.d.items(), key=lambda p: p[0]))
    except Bad as e:
        return "malformed answer: %s" % e
    except IndexError:
        return "answer ended early"
    return None

# ------------------------------------------------------------------ C07 for every element kind
PROD_NAMES = ["multiply", "transpose_multiply", "transpose().multiply", "<y, A x>", "<A^T y, x>", "to_dense"]

def read_products(rd):
    got = [rd.view(rd.scalars), rd.view(rd.scalars), rd.view(rd.scalars), rd.view(rd.scalar), rd.view(rd.scalar), rd.view(rd.matrix)]
    return got

def product_check(elt, E, M, x, y, got, label, nscale=0):
    """got: the six views read from the answer (after `label`).  E / M: Dok of exact entries / of moduli bounds."""
    for n, g in zip(PROD_NAMES, got):
        if g[0] == 'P': return "%s%s panicked (%s) on conformable operands" % (label, n, g[1])
    ex, ey = [exact(elt, t) for t in x], [exact(elt, t) for t in y]
    mx, my = [mag(elt, t) for t in x], [mag(elt, t) for t in y]
    Z = zero_of(elt)
    def mul(D, v, zero):
        out = [zero] * D.r
        for (i, j), a in D.d.items(): out[i] = out[i] + a * v[j]
        return out
    def tmul(D, v, zero):
        out = [zero] * D.c
        for (i, j), a in D.d.items(): out[j] = out[j] + a * v[i]
        return out
    ax, aty = mul(E, ex, Z), tmul(E, ey, Z)
    bax, baty = mul(M, mx, Fraction(0)), tmul(M, my, Fraction(0))
    yax = Z
    for p, q in zip(ey, ax): yax = yax + p * q
    byax = sum((p * q for p, q in zip(my, bax)), Fraction(0))
    if elt == 'rat':
        K1 = K2 = Fraction(0)
    else:
        K1 = 16 * (max(E.r, E.c) + 4 + nscale) * U
        K2 = 16 * (E.r + E.c + 8 + nscale) * U
    if elt != 'rat' and any(b > BIG for b in bax + baty + [byax]):
        return None                     # beyond the range of binary64: overflow is not a statement about the products
    def vec_ok(g, e, bnd, K):
        if len(g) != len(e): return False
        for p, q, b in zip(g, e, bnd):
            if not finite(elt, p): return False
            if dist(exact(elt, p), q) > K * b + (TINY if elt != 'rat' else 0): return False
        return True
    exp = [ax, aty, aty]
    bnd = [bax, baty, baty]
    for k in range(3):
        if not vec_ok(got[k][1], exp[k], bnd[k], K1):
            return "%s%s = %r, dense reference %s" % (label, PROD_NAMES[k], got[k][1], [show(t) for t in exp[k]])
    for k in (3, 4):
        p = got[k][1]
        if not finite(elt, p) or dist(exact(elt, p), yax) > K2 * byax + (TINY if elt != 'rat' else 0):
            return "%s%s = %r, dense reference %s" % (label, PROD_NAMES[k], p, show(yax))
    dr, dc, dv = got[5][1]
    if (dr, dc) != (E.r, E.c) or len(dv) != E.r * E.c:
        return "%sto_dense has shape %dx%d (%d values), reference %dx%d" % (label, dr, dc, len(dv), E.r, E.c)
    Kd = Fraction(0) if (elt == 'rat' or nscale == 0) else 16 * (nscale + 1) * U
    for i in range(E.r):
        for j in range(E.c):
            p = dv[i * E.c + j]
            e = E.d.get((i, j), Z)
            if not finite(elt, p) or dist(exact(elt, p), e) > Kd * M.d.get((i, j), Fraction(0)) + (TINY if (elt != 'rat' and nscale) else 0):
                return "%sto_dense(%d,%d) = %r, reference %s" % (label, i, j, p, show(e))
    return None

def exact_doks(elt, ref):
    E = Dok(ref.r, ref.c, {k: exact(elt, v) for k, v in ref.d.items()})
    M = Dok(ref.r, ref.c, {k: mag(elt, v) for k, v in ref.d.items()})
    return E, M

def oracle_prod_e(elt, b, x, y, a, items):
    """C07 on one sp.prod answer over any element kind (exact for rat, rigorous rounding-error bound for floats)"""
    ref = dok_of_build(b)
    if ref is None or len(x) != ref.c or len(y) != ref.r: return None
    if not all(finite(elt, t) for t in list(x) + list(y) + [a] + list(ref.d.values())): return None
    rd = Reader(items, elt)
    try:
        if rd.peek_panic(): return "construction panicked (%s) on in-range, duplicate-free input" % rd.panic()
        got = read_products(rd)
        scaled = rd.view(rd.scalars)
    except (Bad, IndexError) as e:
        return "malformed answer: %s" % e
    E, M = exact_doks(elt, ref)
    e = product_check(elt, E, M, x, y, got, "")
    if e: return e
    if scaled[0] == 'P': return "scale then multiply panicked (%s) on conformable operands" % scaled[1]
    ea, ma = exact(elt, a), mag(elt, a)
    E2 = Dok(E.r, E.c, {k: v * ea for k, v in E.d.items()}); M2 = Dok(M.r, M.c, {k: v * ma for k, v in M.d.items()})
    ex, mx = [exact(elt, t) for t in x], [mag(elt, t) for t in x]
    Z = zero_of(elt)
    ax = [Z] * E2.r; bax = [Fraction(0)] * E2.r
    for (i, j), v in E2.d.items(): ax[i] = ax[i] + v * ex[j]
    for (i, j), v in M2.d.items(): bax[i] = bax[i] + v * mx[j]
    K = Fraction(0) if elt == 'rat' else 16 * (E.c + 6) * U
    g = scaled[1]
    if elt != 'rat' and any(bb > BIG for bb in bax): return None
    T0 = Fraction(0) if elt == 'rat' else TINY
    if len(g) != len(ax) or any((not finite(elt, p)) or dist(exact(elt, p), q) > K * bb + T0 for p, q, bb in zip(g, ax, bax)):
        return "scale then multiply = %r, dense reference %s" % (g, [show(t) for t in ax])
    return None

def apply_ops(ref, ops):
    """the reference matrix after a history; None when an insertion is out of range (outside the claim)"""
    for o in ops:
        if o[0] == 'insert':
            if o[1] >= ref.r or o[2] >= ref.c: return None
            ref.insert(o[1], o[2], o[3])
        elif o[0] == 'scale': ref.scale(o[1])
        else: ref = ref.transpose()
    return ref

def oracle_hprod(elt, b, ops, x, y, a, items):
    """C07 on the matrix a history leaves behind: the six observables equal the dense reference products, and after
    scale(a) every one of them is a times (rat) / within rounding of a times (floats) its reference value"""
    ref = dok_of_build(b)
    if ref is None: return None
    vals = list(x) + list(y) + [a] + list(ref.d.values()) + [o[-1] for o in ops if o[0] in ('insert', 'scale')]
    if not all(finite(elt, t) for t in vals): return None
    # exact reference: the history is applied to the exact values (insert / transpose exact; every scale step is one rounding
    # per entry in the float instances, accounted for by nscale in the bounds)
    E = Dok(ref.r, ref.c, {k: exact(elt, v) for k, v in ref.d.items()})
    M = Dok(ref.r, ref.c, {k: mag(elt, v) for k, v in ref.d.items()})
    eops = [(o[0], o[1], o[2], exact(elt, o[3])) if o[0] == 'insert' else ((o[0], exact(elt, o[1])) if o[0] == 'scale' else o) for o in ops]
    mops = [(o[0], o[1], o[2], mag(elt, o[3])) if o[0] == 'insert' else ((o[0], mag(elt, o[1])) if o[0] == 'scale' else o) for o in ops]
    E = apply_ops(E, eops); M = apply_ops(M, mops)
    if E is None: return None
    if len(x) != E.c or len(y) != E.r: return None
    nscale = sum(1 for o in ops if o[0] == 'scale')
    rd = Reader(items, elt)
    try:
        if rd.peek_panic(): return "construction or a history step panicked (%s) on in-range, duplicate-free input" % rd.panic()
        got = read_products(rd)
        e = product_check(elt, E, M, x, y, got, "after the history: ", nscale)
        if e: return e
        if rd.peek_panic(): return "scale panicked (%s)" % rd.panic()
        got2 = read_products(rd)
        ea, ma = exact(elt, a), mag(elt, a)
        E2 = Dok(E.r, E.c, {k: v * ea for k, v in E.d.items()}); M2 = Dok(M.r, M.c, {k: v * ma for k, v in M.d.items()})
        e = product_check(elt, E2, M2, x, y, got2, "after the history and scale(%s): " % (a,), nscale + 1)
        if e: return e
        if rd.more(): return "answer has %d unread items" % (len(items) - rd.k)
    except (Bad, IndexError) as e:
        return "malformed answer: %s" % e
    return None

# ------------------------------------------------------------------ structured classes shared by the generators
PATTERNS = ["empty", "single-first", "single-last", "single-top-right", "single-bottom-left", "diagonal", "antidiagonal",
            "full", "full-but-first", "full-but-last", "first-row-full", "last-row-full", "first-col-full", "last-col-full",
            "first-col-empty", "last-col-empty", "first-row-empty", "last-row-empty", "only-middle", "checker", "lower", "upper",
            "border", "two-in-one-column", "two-in-one-row"]

def pattern(name, r, c):
    """the cells (column-major) of a named structure on an r x c shape"""
    allc = [(i, j) for j in range(c) for i in range(r)]
    if r == 0 or c == 0 or name == "empty": return []
    f = {
        "single-first": lambda i, j: (i, j) == (0, 0),
        "single-last": lambda i, j: (i, j) == (r - 1, c - 1),
        "single-top-right": lambda i, j: (i, j) == (0, c - 1),
        "single-bottom-left": lambda i, j: (i, j) == (r - 1, 0),
        "diagonal": lambda i, j: i == j,
        "antidiagonal": lambda i, j: i + j == min(r, c) - 1,
        "full": lambda i, j: True,
        "full-but-first": lambda i, j: (i, j) != (0, 0),
        "full-but-last": lambda i, j: (i, j) != (r - 1, c - 1),
        "first-row-full": lambda i, j: i == 0,
        "last-row-full": lambda i, j: i == r - 1,
        "first-col-full": lambda i, j: j == 0,
        "last-col-full": lambda i, j: j == c - 1,
        "first-col-empty": lambda i, j: j != 0 or c == 1,
        "last-col-empty": lambda i, j: j != c - 1 or c == 1,
        "first-row-empty": lambda i, j: i != 0 or r == 1,
        "last-row-empty": lambda i, j: i != r - 1 or r == 1,
        "only-middle": lambda i, j: (i, j) == (r // 2, c // 2),
        "checker": lambda i, j: (i + j) % 2 == 0,
        "lower": lambda i, j: i >= j,
        "upper": lambda i, j: i <= j,
        "border": lambda i, j: i in (0, r - 1) or j in (0, c - 1),
        "two-in-one-column": lambda i, j: j == c - 1 and i in (0, r - 1),
        "two-in-one-row": lambda i, j: i == r - 1 and j in (0, c - 1),
    }[name]
    return [p for p in allc if f(*p)]

SHAPE_CLASSES = ["1x1", "1xn", "nx1", "wide", "tall", "square", "max"]

def shape_of(rng, cls, nmax):
    if cls == "1x1": return (1, 1)
    if cls == "1xn": return (1, rng.range(2, nmax))
    if cls == "nx1": return (rng.range(2, nmax), 1)
    if cls == "wide":
        r = rng.range(2, max(2, nmax // 2)); return (r, rng.range(r + 1, nmax))
    if cls == "tall":
        c = rng.range(2, max(2, nmax // 2)); return (rng.range(c + 1, nmax), c)
    if cls == "square":
        n = rng.range(2, nmax); return (n, n)
    return rng.choice([(nmax, nmax), (nmax, 1), (1, nmax), (nmax, nmax - 1), (nmax - 1, nmax)])

# value classes of one entry / scalar (brief: 0, -0.0, 1, -1, 2, 1/2, for complex +-i, axis-aligned, unit modulus off the axes,
# equal entries, opposite sign and equal magnitude, one huge + one tiny)
def special_scalars(elt):
    if elt == 'rat':
        return [Fraction(0), Fraction(1), Fraction(-1), Fraction(2), Fraction(1, 2), Fraction(-2), Fraction(-1, 2), Fraction(3),
                Fraction(-7, 3), Fraction(10 ** 4), Fraction(1, 10 ** 4)]
    if elt == 'f64':
        return [0.0, -0.0, 1.0, -1.0, 2.0, 0.5, -2.0, 3.0, 0.1, -1.0 / 3.0, 2.0 ** 200, 2.0 ** -200]
    return [complex(0.0, 0.0), complex(-0.0, 0.0), complex(1.0, 0.0), complex(-1.0, 0.0), complex(0.0, 1.0), complex(0.0, -1.0),
            complex(2.0, 0.0), complex(0.0, 0.5), complex(-3.0, 0.0), complex(0.0, -4.0), complex(0.6, 0.8), complex(-0.8, 0.6),
            complex(1.0, 1.0), complex(1.0, -1.0), complex(0.1, -1.0 / 3.0), complex(2.0 ** 200, 0.0), complex(0.0, 2.0 ** -200)]

FILLS = ["random", "ones", "equal", "opposite", "zeros", "special", "huge-tiny", "minus-ones"]

def fill_values(rng, elt, fill, n, rand):
    """n entry values of a named value class; rand(rng, elt) draws an ordinary value"""
    sp = special_scalars(elt)
    one = sp[2]
    if fill == "random": return [rand(rng, elt) for _ in range(n)]
    if fill == "ones": return [one] * n
    if fill == "minus-ones": return [sp[3]] * n
    if fill == "zeros": return [sp[0]] * n                                  # explicitly stored zeros are stored entries
    if fill == "equal":
        v = rand(rng, elt)
        return [v] * n
    if fill == "opposite":                                                  # equal magnitude, alternating sign: sums cancel
        v = rand(rng, elt)
        if v == 0: v = sp[6]
        return [v if k % 2 == 0 else -v for k in range(n)]
    if fill == "special": return [rng.choice(sp) for _ in range(n)]
    if fill == "huge-tiny":
        return [sp[-2] if k % 2 == 0 else sp[-1] for k in range(n)] if rng.chance(1, 2) else \
               [(sp[-2] if rng.chance(1, 4) else (sp[-1] if rng.chance(1, 3) else rand(rng, elt))) for k in range(n)]
    raise ValueError(fill)

BUILD_FORMS = ["T-shuffle", "T-rowmajor", "T-reverse", "T-colmajor", "V-unsorted", "V-sorted"]

def build_of(rng, form, r, c, cells, vals):
    """a build of the entries (cells[k] -> vals[k]) in a named construction form"""
    ent = list(zip(cells, vals))
    if form.startswith("T"):
        ts = [(i, j, v) for ((i, j), v) in ent]
        if form == "T-shuffle": ts = rng.shuffle(ts)
        elif form == "T-rowmajor": ts = sorted(ts, key=lambda t: (t[0], t[1]))
        elif form == "T-reverse": ts = sorted(ts, key=lambda t: (t[1], t[0]), reverse=True)
        else: ts = sorted(ts, key=lambda t: (t[1], t[0]))
        return ('T', r, c, ts)
    vv, ri, cs = [], [], [0]
    for j in range(c):
        col = [(i, v) for ((i, jj), v) in ent if jj == j]
        col = sorted(col, key=lambda p: p[0]) if form == "V-sorted" else rng.shuffle(col)
        for (i, v) in col:
            ri.append(i); vv.append(v)
        cs.append(len(ri))
    return ('V', r, c, vv, ri, cs)

VECTOR_CLASSES = ["random", "zeros", "ones", "constant", "unit-first", "unit-last", "unit-middle", "alternating", "first-zero",
                  "last-zero", "only-ends", "special", "huge-tiny", "minus-ones", "ramp"]

def vector_of(rng, elt, cls, n, rand):
    sp = special_scalars(elt)
    zero, one, mone = sp[0] if elt != 'f64' else 0.0, sp[2], sp[3]
    if elt == 'cplx': zero = complex(0.0, 0.0)
    if cls == "random": return [rand(rng, elt) for _ in range(n)]
    if cls == "zeros": return [zero] * n
    if cls == "ones": return [one] * n
    if cls == "minus-ones": return [mone] * n
    if cls == "constant":
        v = rand(rng, elt); return [v] * n
    if cls in ("unit-first", "unit-last", "unit-middle"):
        v = [zero] * n
        if n: v[{"unit-first": 0, "unit-last": n - 1, "unit-middle": n // 2}[cls]] = one if rng.chance(1, 2) else rand(rng, elt)
        return v
    if cls == "alternating": return [one if k % 2 == 0 else mone for k in range(n)]
    if cls == "first-zero": return [zero if k == 0 else rand(rng, elt) for k in range(n)]
    if cls == "last-zero": return [zero if k == n - 1 else rand(rng, elt) for k in range(n)]
    if cls == "only-ends": return [rand(rng, elt) if k in (0, n - 1) else zero for k in range(n)]
    if cls == "special": return [rng.choice(sp) for _ in range(n)]
    if cls == "huge-tiny": return [sp[-2] if k % 2 == 0 else sp[-1] for k in range(n)]
    if cls == "ramp":
        if elt == 'rat': return [Fraction(k + 1) for k in range(n)]
        if elt == 'f64': return [float(k + 1) for k in range(n)]
        return [complex(k + 1, -(k + 2)) for k in range(n)]
    raise ValueError(cls)

# ------------------------------------------------------------------ operation classes of a history
def final_shape(r, c, ops):
    for o in ops:
        if o[0] == 'transpose': r, c = c, r
    return r, c

OP_CLASSES = ["insert-fresh", "insert-first-cell", "insert-last-cell", "overwrite", "overwrite-same", "insert-zero", "overwrite-zero",
              "scale-0", "scale-1", "scale--1", "scale-2", "scale-1/2", "scale-random", "transpose"]

def op_of(g, elt, cls, r, c, occ, rand_val):
    """one operation of a named class on an r x c matrix with occupied cells occ (dict cell -> value); None if impossible"""
    sp = special_scalars(elt)
    zero, one, mone = sp[0], sp[2], sp[3]
    two = Fraction(2) if elt == 'rat' else (2.0 if elt == 'f64' else complex(2.0, 0.0))
    half = Fraction(1, 2) if elt == 'rat' else (0.5 if elt == 'f64' else complex(0.0, 0.5))
    if cls == "transpose": return ('transpose',)
    if cls.startswith("scale"):
        v = {"scale-0": zero, "scale-1": one, "scale--1": mone, "scale-2": two, "scale-1/2": half}.get(cls)
        if v is None:
            v = rand_val(g, elt)
        return ('scale', v)
    if r * c == 0: return None
    free = [(i, j) for j in range(c) for i in range(r) if (i, j) not in occ]
    if cls == "insert-fresh":
        if not free: return None
        (i, j) = g.choice(free); return ('insert', i, j, rand_val(g, elt))
    if cls == "insert-first-cell": return ('insert', 0, 0, rand_val(g, elt))
    if cls == "insert-last-cell": return ('insert', r - 1, c - 1, rand_val(g, elt))
    if cls == "insert-zero":
        if not free: return None
        (i, j) = g.choice(free); return ('insert', i, j, zero)
    if not occ: return None
    (i, j) = g.choice(sorted(occ))
    if cls == "overwrite": return ('insert', i, j, rand_val(g, elt))
    if cls == "overwrite-same": return ('insert', i, j, occ[(i, j)])
    if cls == "overwrite-zero": return ('insert', i, j, zero)
    raise ValueError(cls)

def track(occ, r, c, o):
    """occupied cells (cell -> value as inserted; scaled values are not tracked, only used for overwrite-same before a scale)"""
    if o[0] == 'insert':
        occ = dict(occ); occ[(o[1], o[2])] = o[3]; return occ, r, c
    if o[0] == 'transpose': return {(j, i): v for (i, j), v in occ.items()}, c, r
    return {k: v * o[1] for k, v in occ.items()}, r, c

