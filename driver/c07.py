# C07 -- sparse products equal dense products; transpose is the adjoint; scaling scales every product.
from fractions import Fraction
from common import *
from engine import Case
from sparselib import *
import sparselib
import c06

PID = "C07"
IMPORTS = sparselib.IMPORTS
MODEL_VO = sparselib.MODEL_VO
EXHAUSTIVE = False
RULE = ("sp.prod cases: A x, A^T y, transpose(A) y, <y, A x>, <A^T y, x>, to_dense(A), (a A) x for (a) every shape r,c in 0..10 "
        "(5 random duplicate-free patterns per shape in quick, 12 in thorough; densities 1/2..1/5; forced empty first/last rows and columns; "
        "the empty pattern), built from triplets in random order or from raw arrays, rational entries and vectors drawn from "
        "{-7..7}/{1..4} (never the all-ones vector), (b) tie-only: mismatched vector lengths (guards), duplicate positions, malformed raw "
        "arrays; product-f64 / product-cplx (the f64 / Complex<f64> instances on random shapes <= 10x10) are NOT tie-only: the oracle judges them against the exact "
        "products within a rounding-error bound, and they are tied to the float instance of the model (bit-identical as a rule; the tie counts a stream as `close`, not as a difference, when every float agrees within 1e-10 of the largest magnitude of its group of floats); "
        "round four, sp.hprod cases (the six observables A x, A^T y, transpose(A) y, <y, A x>, <A^T y, x>, to_dense on the matrix a history of insert / overwrite / scale / transpose steps leaves behind, "
        "then scale(a) and all six again); thorough tier: every pairing; quick tier: one pairing in two (four for (d)), which ones rotates with the seed -- every named structure, shape class, "
        "vector class and first operation class still occurs in every run, but the quick selection fixes the parity of the running index that picks the value class, the scale factor, the construction form "
        "and the second operation of a pair, so one half of those values is seen per run, the half rotating with the seed; one new case in four carries a model term in the quick tier, one in two in the thorough tier "
        "(counted per element kind in the float families, so that f64 and Complex<f64> both carry terms in every run): "
        "(c) structured-patterns: 25 named structures x shape classes 1x1, 1xn, nx1, wide, tall, square, 10x10 with value classes (all ones / all equal / opposite signs / stored zeros / 0,1,-1,2,1/2 / huge+tiny; rotating with the seed), "
        "(d) vector-classes: ordered pairs of the classes of x and y (all zero, all ones, constant, unit vectors, alternating signs, first / last component zero, ramp, huge+tiny, ...), "
        "(e) value-classes x scale factors 0, 1, -1, 2, 1/2, -3/2, 10^4, 10^-4 (quick: every value class with half of the factors, rotating with the seed), (f) history-op-pairs: ordered pairs of 14 operation classes before the products "
        "(quick: every first class with half of the second classes, rotating with the seed), (g) history-random: histories of 1..8 steps on shapes <= 10x10, "
        "(h) structured-f64 / structured-cplx: the float instances with signed zeros, 2^+-200, +-i, axis-aligned and unit-modulus entries, half of them after a history of up to two steps (both kinds), judged against the exact products within a rounding-error bound "
        "(the old f64 / Complex<f64> product cases are judged the same way now) and tied like (b) with 1e-12; "
        "distinct = distinct executor line; non-trivial = at least two stored entries and r,c >= 2")
TRUSTED = c06.TRUSTED
ASSUMPTIONS = ["Rust semantics of Vec/usize as modelled (checked indexing, debug-profile overflow checks)",
               "the sampled cases are where model and code were compared; the theorems are about the model"]
UNPROVED = ["round two: sp_mul_backward_error / sp_tmul_backward_error / sp_mul_dense_backward_error (componentwise backward error gamma_{m_i}, m_i = stored entries of the row) in the standard model and at binary64 via Flocq; besides, floating-point products are tied to the float instance of the model (bit-identical, or counted `close` within 1e-10 / 1e-12 of the largest magnitude of a group of floats)",
            "the products are proved equal to the textbook sums over sp_entry (the matrix the storage denotes) and sp_entry is proved to be the "
            "entry of to_dense for duplicate-free storage (to_dense_entry); the dense Matrix::multiply itself belongs to C03 and is not re-proved here",
            "with duplicate positions multiply sums the duplicates while to_dense keeps the last one -- outside the claim, tied only"]

MANIFEST = dict(
    text=("Theorems about the Gallina model of src/sparse.rs over any commutative ring, for every well-formed matrix of any shape: "
          "multiply returns the dense product and transpose_multiply the transposed dense product of the matrix of stored entries "
          "(sp_mul_spec, sp_tmul_spec: the scatter and gather loops characterised as sums over the stored entries), "
          "<y, A x> = <A^T y, x> (sp_adjoint), scaling scales the product (sp_scale_mul) and multiplying by the explicit transpose equals "
          "the transposed product (sp_transpose_mul); both products are linear maps of the vector through the library's own guarded vector operations: additive, subtractive, homogeneous, zero to zero (sp_mul_add, sp_mul_sub, sp_mul_scale_vec, sp_mul_zero, sp_tmul_add, sp_tmul_scale_vec, sp_tmul_zero); for duplicate-free storage the abstract entries are the entries of to_dense "
          "(to_dense_entry).  The model is run against the implementation (Rat vs Qc exact) on every shape up to "
          "10 x 10 with random duplicate-free patterns, empty rows/columns, the empty matrix and vectors that are not all-ones, and on structured families: named patterns on every shape class, "
          "special value classes of entries, vectors (all zero, all ones, constant, unit vectors, ...) and scale factors (0, 1, -1, 2, 1/2), and the products of the matrix left behind by a history of "
          "insert / overwrite / scale / transpose steps, before and after a further scale; a dense "
          "Fraction reference searches for a failing input in the rational instance and, within a rounding-error bound, in the f64 and Complex<f64> instances."),
    note=("Which theorems are discharged is reported by the check (theorems k/k) and listed in coq/Props/C07.v; the f64 / Complex<f64> instances are tied "
          "(bit-identical or `close`) and searched within a rounding-error bound, not proved; mismatched lengths / malformed arrays are tied only."),
    technique="Coq proof over an abstract ring + model/implementation differential execution (vm_compute vs Rust executor) + dense reference search",
    design="7 (C07)")

def vval(rng):
    k = rng.below(8)
    if k == 0: return Fraction(0)
    if k < 5: return Fraction(rng.choice([-7, -6, -5, -4, -3, -2, 2, 3, 4, 5, 6, 7]))
    if k < 6: return Fraction(rng.choice([-1, 1]))
    return Fraction(rng.choice([-7, -5, -3, -1, 1, 3, 5, 7]), rng.range(2, 4))

def rvec(rng, n):
    v = [vval(rng) for _ in range(n)]
    if n >= 2 and len(set(v)) == 1:          # never a constant vector: it cannot tell which component multiplies which entry
        v[rng.below(n)] += Fraction(rng.range(1, 5))
    return v

def mk(elt, b, x, y, a, family, nontrivial=None):
    if nontrivial is None:
        nontrivial = (len(b[3]) >= 2 and b[1] >= 2 and b[2] >= 2)
    return Case(elt, prod_line(elt, b, x, y, a), prod_term(elt, b, x, y, a),
                meta={"kind": "prod", "build": build_to_json(b), "x": [str(t) for t in x], "y": [str(t) for t in y], "a": str(a)},
                family=family, nontrivial=nontrivial, check_class=True)

def generate(rng, tier):
    cases = []
    thorough = (tier == "thorough")
    g = rng.fork("shapes")
    per = 12 if thorough else 5
    for r in range(0, 11):
        for c in range(0, 11):
            for rep in range(per):
                skip_rows, skip_cols = set(), set()
                if rep % 2 == 1:
                    if r > 1: skip_rows |= {g.choice([0, r - 1])}
                    if c > 1: skip_cols |= {g.choice([0, c - 1])}
                cells = c06.rand_cells(g, r, c, 1, g.choice([2, 3, 5]), skip_rows, skip_cols)
                if rep == 3: cells = []
                if g.chance(1, 4): b = c06.vecs_of(g, r, c, cells)
                else: b = ('T', r, c, c06.triplets_of(g, cells, 'rat', g.choice(["shuffle", "rowmajor", "reverse"])))
                a = vval(g)
                # scale factors 0 and 1 are part of "scaling the matrix scales every product" (a scale(0) that releases the
                # storage but keeps col_start was only seen by the float tie: seeded mutation C07-4); one case in six each
                if rep == 0: a = Fraction(0)
                elif rep == 4: a = Fraction(1)
                elif a == 0 or a == 1: a = Fraction(-3, 2)
                cases.append(mk('rat', b, rvec(g, c), rvec(g, r), a, "shapes-le-10"))
    g = rng.fork("guards")
    for r in range(0, 4):
        for c in range(0, 4):
            cells = c06.rand_cells(g, r, c, 1, 2)
            b = ('T', r, c, c06.triplets_of(g, cells))
            for lx in range(0, 5):
                for ly in range(0, 5):
                    if lx == c and ly == r: continue
                    if not thorough and (lx + ly) % 2: continue
                    cases.append(mk('rat', b, rvec(g, lx), rvec(g, ly), Fraction(2), "tie-mismatched-lengths", nontrivial=True))
    g = rng.fork("dups")
    for h in range(60 if thorough else 20):
        r, c = g.range(1, 5), g.range(1, 5)
        cells = [(g.below(r), g.below(c)) for _ in range(g.range(2, 8))]
        b = ('T', r, c, [(i, j, c06.val(g)) for (i, j) in cells])
        cases.append(mk('rat', b, rvec(g, c), rvec(g, r), vval(g), "tie-duplicates", nontrivial=True))
    g = rng.fork("badvecs")
    for h in range(120 if thorough else 40):
        r, c = g.range(1, 4), g.range(1, 4)
        cells = c06.rand_cells(g, r, c, 1, 2)
        _, _, _, vals, ri, cs = c06.vecs_of(g, r, c, cells)
        k = g.below(7)
        if k == 0: cs = cs[:-1]
        elif k == 1 and len(cs) > 1:
            p = g.below(len(cs)); cs = list(cs); cs[p] = cs[p] + g.range(1, 3)
        elif k == 2 and vals: vals = vals[:-1]
        elif k == 3 and ri: ri = ri[:-1]
        elif k == 4 and ri:
            p = g.below(len(ri)); ri = list(ri); ri[p] = r + g.range(0, 2)
        elif k == 5: cs = [x + 1 for x in cs]
        else: cs = cs + [cs[-1]]
        cases.append(mk('rat', ('V', r, c, vals, ri, cs), rvec(g, c), rvec(g, r), vval(g), "tie-malformed-vecs", nontrivial=True))
    g = rng.fork("float")
    for h in range(120 if thorough else 40):
        elt = 'f64' if h % 2 == 0 else 'cplx'
        r, c = g.range(0, 10), g.range(0, 10)
        cells = c06.rand_cells(g, r, c, 1, 2)
        b = ('T', r, c, c06.triplets_of(g, cells, elt))
        x = [c06.val(g, elt) for _ in range(c)]; y = [c06.val(g, elt) for _ in range(r)]
        cases.append(mk(elt, b, x, y, c06.val(g, elt), "product-" + elt))
    cases += special_families(rng.fork("special-values"), thorough)
    # spread the expensive cases evenly over the Coq shards (the engine cuts the list into consecutive runs of 250)
    k = max(1, (len(cases) + 249) // 250)
    cases = [c for r in range(k) for c in cases[r::k]]
    return cases

# ---------------------------------------------------------------------------------------------------------------------
# Round four: structured classes of the input space (findings/special-values-specA/C07-table.md).  Thorough: every pairing.
# Quick: keep(k, m) keeps one pairing in m, which ones rotates with the seed; the classes that index an enumeration (structure,
# shape class, vector class, first operation) occur in every run, the ones picked by the running index k (value class, scale
# factor, construction form, second operation) only with the parity keep() leaves: half per run, rotating with the seed.
# A case carries a model term (tie) when `termed()` says so: in the quick tier one case in four (which quarter rotates with the
# seed), in the thorough tier one in two; the float families count per element kind (`termed_kind`).
# ---------------------------------------------------------------------------------------------------------------------
SCALES = {'rat': [Fraction(0), Fraction(1), Fraction(-1), Fraction(2), Fraction(1, 2), Fraction(-3, 2), Fraction(10 ** 4), Fraction(1, 10 ** 4)],
          'f64': [0.0, -0.0, 1.0, -1.0, 2.0, 0.5, -1.5, 0.1, 2.0 ** 200, 2.0 ** -200],
          'cplx': [complex(0.0, 0.0), complex(1.0, 0.0), complex(-1.0, 0.0), complex(0.0, 1.0), complex(0.0, -1.0), complex(2.0, 0.0),
                   complex(0.0, 0.5), complex(0.6, 0.8), complex(1.0, -1.0), complex(0.1, -1.0 / 3.0), complex(0.0, 2.0 ** 200)]}

def rand_val(rng, elt):
    return vval(rng) if elt == 'rat' else c06.val(rng, elt)

def mk_h(elt, b, ops, x, y, a, family, with_term=True, nontrivial=None):
    if nontrivial is None:
        nontrivial = (len(b[3]) + len(ops) >= 2 and b[1] >= 2 and b[2] >= 2)
    return Case(elt, hprod_line(elt, b, ops, x, y, a), hprod_term(elt, b, ops, x, y, a) if with_term else None,
                meta={"kind": "hprod", "build": build_to_json(b), "ops": ops_to_json(ops), "x": [str(t) for t in x],
                      "y": [str(t) for t in y], "a": str(a)},
                family=family, nontrivial=nontrivial, check_class=True, tol=1e-12)

def mk_p(elt, b, x, y, a, family, with_term=True):
    c = mk(elt, b, x, y, a, family)
    if not with_term: c.term = None
    return c

def structured_matrix(g, elt, r, c, pat, fill, form):
    cells = pattern(pat, r, c)
    vals = fill_values(g, elt, fill, len(cells), rand_val)
    return build_of(g, form, r, c, cells, vals), cells

def special_families(g0, thorough):
    cases = []
    seedrot = g0.below(4)
    count = [0]
    def termed():
        count[0] += 1
        return (count[0] % 2 == seedrot % 2) if thorough else (count[0] % 4 == seedrot)
    def termed_kind(j):
        """the float families alternate f64 / cplx on the parity of h, so a counter shared by both kinds would give every model
        term of a run to ONE kind; j = h // 2 counts the cases of one kind.  Pairs of j are selected (not single values) so that
        both parities of j -- with and without a history, see (s6) -- carry terms in the same run."""
        return ((j // 2) % 2 == seedrot % 2) if thorough else ((j // 2) % 4 == seedrot)
    rot = g0.below(60)
    def keep(k, m):
        """quick tier: one pairing in m, which one rotates with the seed (this fixes k mod m: what is selected by k itself --
        FILLS[k % 8], SCALES[k % 8], the inner loop variable when its range has even length -- is seen by half per run);
        thorough tier: all"""
        return thorough or ((k + rot) % m == 0)
    # (s1) every named structure on every shape class; value class, construction form, vector classes and scale factor cycle
    g = g0.fork("structured")
    reps = 2 if thorough else 1
    k = g.below(1000)
    for rep in range(reps):
        for pat in PATTERNS:
            for sc in SHAPE_CLASSES:
                k += 1
                if not keep(k, 2): continue
                r, c = shape_of(g, sc, 10)
                fill = FILLS[k % len(FILLS)]; form = BUILD_FORMS[(k // 3) % len(BUILD_FORMS)]
                b, _ = structured_matrix(g, 'rat', r, c, pat, fill, form)
                x = vector_of(g, 'rat', VECTOR_CLASSES[(k // 5) % len(VECTOR_CLASSES)], c, rand_val)
                y = vector_of(g, 'rat', VECTOR_CLASSES[(k // 7) % len(VECTOR_CLASSES)], r, rand_val)
                a = SCALES['rat'][k % len(SCALES['rat'])]
                cases.append(mk_h('rat', b, [], x, y, a, "structured-patterns", termed()))
    # (s2) every ordered pair of vector classes (x, y), on random and structured matrices of rotating shape class
    g = g0.fork("vectors")
    k = g.below(1000)
    for cx in VECTOR_CLASSES:
        for cy in VECTOR_CLASSES:
            k += 1
            if not keep(k, 4): continue
            r, c = shape_of(g, SHAPE_CLASSES[k % len(SHAPE_CLASSES)], 10)
            if k % 3 == 0:
                b, _ = structured_matrix(g, 'rat', r, c, PATTERNS[k % len(PATTERNS)], FILLS[(k // 2) % len(FILLS)], BUILD_FORMS[k % len(BUILD_FORMS)])
            else:
                cells = c06.rand_cells(g, r, c, 1, g.choice([2, 3]))
                b = build_of(g, BUILD_FORMS[k % len(BUILD_FORMS)], r, c, cells, [c06.val(g) for _ in cells])
            x = vector_of(g, 'rat', cx, c, rand_val); y = vector_of(g, 'rat', cy, r, rand_val)
            cases.append(mk_h('rat', b, [], x, y, SCALES['rat'][(k // 4) % len(SCALES['rat'])], "vector-classes", termed()))
    # (s3) every value class of the entries against every scale factor
    g = g0.fork("fills")
    k = g.below(1000)
    for fill in FILLS:
        for a in SCALES['rat']:
            k += 1
            if not keep(k, 2): continue
            r, c = shape_of(g, SHAPE_CLASSES[k % len(SHAPE_CLASSES)], 10)
            cells = c06.rand_cells(g, r, c, 1, 2) if k % 4 else pattern("full", r, c)
            b = build_of(g, BUILD_FORMS[k % len(BUILD_FORMS)], r, c, cells, fill_values(g, 'rat', fill, len(cells), rand_val))
            cases.append(mk_h('rat', b, [], rvec(g, c), rvec(g, r), a, "value-classes", termed()))
    # (s4) histories: every ordered pair of operation classes on small structured matrices, then the products
    g = g0.fork("op-pairs")
    k = g.below(1000)
    bases = [("empty", 2, 3), ("single-last", 3, 2), ("full", 2, 2), ("first-col-empty", 3, 3), ("last-col-empty", 2, 4),
             ("diagonal", 3, 3), ("last-row-full", 4, 2), ("first-col-full", 3, 1), ("full", 1, 3), ("empty", 1, 1), ("checker", 4, 4)]
    for o1 in OP_CLASSES:
        for o2 in OP_CLASSES:
            for rep in range(2 if thorough else 1):
                k += 1
                if not keep(k, 2): continue
                pat, r, c = bases[k % len(bases)]
                cells = pattern(pat, r, c)
                vals = fill_values(g, 'rat', FILLS[k % len(FILLS)], len(cells), rand_val)
                b = build_of(g, BUILD_FORMS[k % len(BUILD_FORMS)], r, c, cells, vals)
                occ = dict(zip(cells, vals)); rr, cc = r, c
                ops = []
                for cls in (o1, o2):
                    o = op_of(g, 'rat', cls, rr, cc, occ, rand_val)
                    if o is None: continue
                    ops.append(o); occ, rr, cc = track(occ, rr, cc, o)
                x = vector_of(g, 'rat', VECTOR_CLASSES[k % len(VECTOR_CLASSES)] if k % 2 else "random", cc, rand_val)
                y = vector_of(g, 'rat', VECTOR_CLASSES[(k // 3) % len(VECTOR_CLASSES)] if k % 3 == 0 else "random", rr, rand_val)
                cases.append(mk_h('rat', b, ops, x, y, SCALES['rat'][k % len(SCALES['rat'])], "history-op-pairs", termed()))
    # (s5) random histories of 1..8 steps on shapes <= 10 x 10, then the products
    g = g0.fork("histories")
    for h in range(250 if thorough else 80):
        r, c = g.range(0, 10), g.range(0, 10)
        if h % 9 == 0: r, c = shape_of(g, g.choice(SHAPE_CLASSES), 10)
        cells = c06.rand_cells(g, r, c, 1, g.choice([2, 3, 5]))
        if h % 10 == 3: cells = []
        b = build_of(g, g.choice(BUILD_FORMS), r, c, cells, [c06.val(g) for _ in cells])
        ops = c06.rand_ops(g, r, c, cells, g.range(1, 8))
        rr, cc = final_shape(r, c, ops)
        cases.append(mk_h('rat', b, ops, rvec(g, cc), rvec(g, rr), vval(g), "history-random", termed()))
    # (s6) the float instances with their value classes (axis-aligned / unit-modulus complex entries, signed zeros,
    #      2^+-200), structured patterns and short histories; compared with the exact products within a rounding-error bound
    g = g0.fork("floats")
    k = g.below(1000)
    for h in range(200 if thorough else 80):
        k += 1
        elt = 'f64' if h % 2 == 0 else 'cplx'
        r, c = shape_of(g, SHAPE_CLASSES[k % len(SHAPE_CLASSES)], 10)
        fill = FILLS[(k // 2) % len(FILLS)]
        if h % 3 == 0:
            b, cells = structured_matrix(g, elt, r, c, PATTERNS[(k // 2) % len(PATTERNS)], fill, BUILD_FORMS[k % len(BUILD_FORMS)])
        else:
            cells = c06.rand_cells(g, r, c, 1, 2)
            b = build_of(g, BUILD_FORMS[k % len(BUILD_FORMS)], r, c, cells, fill_values(g, elt, fill, len(cells), rand_val))
        ops = []
        if h % 4 in (1, 2):         # h = 1 mod 4: Complex<f64> with a history, h = 2 mod 4: f64 with a history
            occ = dict(zip(cells, b[3] if b[0] == 'V' else [t[2] for t in b[3]])); rr, cc = r, c
            for cls in (g.choice(OP_CLASSES), g.choice(OP_CLASSES)):
                o = op_of(g, elt, cls, rr, cc, {p: 0 for p in occ}, rand_val)
                if o is None or (o[0] == 'insert' and cls == "overwrite-same"): continue
                ops.append(o); occ, rr, cc = track({p: 0 for p in occ}, rr, cc, o) if o[0] != 'scale' else (occ, rr, cc)
        rr, cc = final_shape(r, c, ops)
        x = vector_of(g, elt, VECTOR_CLASSES[(k // 3) % len(VECTOR_CLASSES)], cc, rand_val)
        y = vector_of(g, elt, VECTOR_CLASSES[(k // 5) % len(VECTOR_CLASSES)], rr, rand_val)
        cases.append(mk_h(elt, b, ops, x, y, SCALES[elt][k % len(SCALES[elt])], "structured-" + elt, termed_kind(h // 2)))
    return cases

def case_from_json(j):
    elt = j["elt"]; m = j["meta"]
    b = build_from_json(elt, m["build"])
    cv = (lambda s: Fraction(s)) if elt == 'rat' else (lambda s: complex(s) if elt == 'cplx' else float(s))
    if m.get("kind") == "hprod":
        return mk_h(elt, b, ops_from_json(elt, m["ops"]), [cv(t) for t in m["x"]], [cv(t) for t in m["y"]], cv(m["a"]), "corpus")
    return mk(elt, b, [cv(t) for t in m["x"]], [cv(t) for t in m["y"]], cv(m["a"]), "corpus")

COUNT = {"oracle_in_claim": 0, "tie_only": 0}

def extra_coverage():
    return {"oracle_cases_inside_the_claim": COUNT["oracle_in_claim"], "tie_only_cases": COUNT["tie_only"]}

def oracle(case, items):
    elt = case.elt
    m = case.meta
    b = build_from_json(elt, m["build"])
    cv = (lambda s: Fraction(s)) if elt == 'rat' else (lambda s: complex(s) if elt == 'cplx' else float(s))
    x, y, a = [cv(t) for t in m["x"]], [cv(t) for t in m["y"]], cv(m["a"])
    ref = dok_of_build(b)
    if m.get("kind") == "hprod":
        ops = ops_from_json(elt, m["ops"])
        if ref is None: COUNT["tie_only"] += 1
        else: COUNT["oracle_in_claim"] += 1
        return oracle_hprod(elt, b, ops, x, y, a, items)
    if ref is None or len(x) != ref.c or len(y) != ref.r: COUNT["tie_only"] += 1
    else: COUNT["oracle_in_claim"] += 1
    if elt != 'rat':
        # the float instances: exact products of the (exactly known) float inputs, within a rounding-error bound
        return oracle_prod_e(elt, b, x, y, a, items)
    return oracle_prod(b, x, y, a, items)
