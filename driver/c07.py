# C07 -- sparse products equal dense products; transpose is the adjoint; scaling scales every product.
from fractions import Fraction
from common import *
from engine import Case
from sparselib import *
import sparselib
import c06

PID = "C07"
IMPORTS = sparselib.IMPORTS
MODEL_VO = sparselib.MODEL_VO
EXHAUSTIVE = False
RULE = ("sp.prod cases: A x, A^T y, transpose(A) y, <y, A x>, <A^T y, x>, to_dense(A), (a A) x for (a) every shape r,c in 0..10 "
        "(5 random duplicate-free patterns per shape in quick, 12 in thorough; densities 1/2..1/5; forced empty first/last rows and columns; "
        "the empty pattern), built from triplets in random order or from raw arrays, rational entries and vectors drawn from "
        "{-7..7}/{1..4} (never the all-ones vector), (b) tie-only: mismatched vector lengths (guards), duplicate positions, malformed raw "
        "arrays, f64 / Complex<f64> instances (bitwise); distinct = distinct executor line; non-trivial = at least two stored entries and r,c >= 2")
TRUSTED = c06.TRUSTED
ASSUMPTIONS = ["Rust semantics of Vec/usize as modelled (checked indexing, debug-profile overflow checks)",
               "the sampled cases are where model and code were compared; the theorems are about the model"]
UNPROVED = ["round two: sp_mul_backward_error / sp_tmul_backward_error / sp_mul_dense_backward_error (componentwise backward error gamma_{m_i}, m_i = stored entries of the row) in the standard model and at binary64 via Flocq; besides, floating-point products are tied bitwise to the float instance of the model",
            "the products are proved equal to the textbook sums over sp_entry (the matrix the storage denotes) and sp_entry is proved to be the "
            "entry of to_dense for duplicate-free storage (to_dense_entry); the dense Matrix::multiply itself belongs to C03 and is not re-proved here",
            "with duplicate positions multiply sums the duplicates while to_dense keeps the last one -- outside the claim, tied only"]

MANIFEST = dict(
    text=("Theorems about the Gallina model of src/sparse.rs over any commutative ring, for every well-formed matrix of any shape: "
          "multiply returns the dense product and transpose_multiply the transposed dense product of the matrix of stored entries "
          "(sp_mul_spec, sp_tmul_spec: the scatter and gather loops characterised as sums over the stored entries), "
          "<y, A x> = <A^T y, x> (sp_adjoint), scaling scales the product (sp_scale_mul) and multiplying by the explicit transpose equals "
          "the transposed product (sp_transpose_mul); for duplicate-free storage the abstract entries are the entries of to_dense "
          "(to_dense_entry).  The model is run against the implementation (Rat vs Qc exact) on every shape up to "
          "10 x 10 with random duplicate-free patterns, empty rows/columns, the empty matrix and vectors that are not all-ones; a dense "
          "Fraction reference searches for a failing input."),
    note=("Which theorems are discharged is reported by the check (theorems k/k) and listed in coq/Props/C07.v; the f64 instance is tied "
          "bitwise, not proved; mismatched lengths / malformed arrays are tied only."),
    technique="Coq proof over an abstract ring + model/implementation differential execution (vm_compute vs Rust executor) + dense reference search",
    design="7 (C07)")

def vval(rng):
    k = rng.below(8)
    if k == 0: return Fraction(0)
    if k < 5: return Fraction(rng.choice([-7, -6, -5, -4, -3, -2, 2, 3, 4, 5, 6, 7]))
    if k < 6: return Fraction(rng.choice([-1, 1]))
    return Fraction(rng.choice([-7, -5, -3, -1, 1, 3, 5, 7]), rng.range(2, 4))

def rvec(rng, n):
    v = [vval(rng) for _ in range(n)]
    if n >= 2 and len(set(v)) == 1:          # never a constant vector: it cannot tell which component multiplies which entry
        v[rng.below(n)] += Fraction(rng.range(1, 5))
    return v

def mk(elt, b, x, y, a, family, nontrivial=None):
    if nontrivial is None:
        nontrivial = (len(b[3]) >= 2 and b[1] >= 2 and b[2] >= 2)
    return Case(elt, prod_line(elt, b, x, y, a), prod_term(elt, b, x, y, a),
                meta={"kind": "prod", "build": build_to_json(b), "x": [str(t) for t in x], "y": [str(t) for t in y], "a": str(a)},
                family=family, nontrivial=nontrivial, check_class=True)

def generate(rng, tier):
    cases = []
    thorough = (tier == "thorough")
    g = rng.fork("shapes")
    per = 12 if thorough else 5
    for r in range(0, 11):
        for c in range(0, 11):
            for rep in range(per):
                skip_rows, skip_cols = set(), set()
                if rep % 2 == 1:
                    if r > 1: skip_rows |= {g.choice([0, r - 1])}
                    if c > 1: skip_cols |= {g.choice([0, c - 1])}
                cells = c06.rand_cells(g, r, c, 1, g.choice([2, 3, 5]), skip_rows, skip_cols)
                if rep == 3: cells = []
                if g.chance(1, 4): b = c06.vecs_of(g, r, c, cells)
                else: b = ('T', r, c, c06.triplets_of(g, cells, 'rat', g.choice(["shuffle", "rowmajor", "reverse"])))
                a = vval(g)
                # scale factors 0 and 1 are part of "scaling the matrix scales every product" (a scale(0) that releases the
                # storage but keeps col_start was only seen by the float tie: seeded mutation C07-4); one case in six each
                if rep == 0: a = Fraction(0)
                elif rep == 4: a = Fraction(1)
                elif a == 0 or a == 1: a = Fraction(-3, 2)
                cases.append(mk('rat', b, rvec(g, c), rvec(g, r), a, "shapes-le-10"))
    g = rng.fork("guards")
    for r in range(0, 4):
        for c in range(0, 4):
            cells = c06.rand_cells(g, r, c, 1, 2)
            b = ('T', r, c, c06.triplets_of(g, cells))
            for lx in range(0, 5):
                for ly in range(0, 5):
                    if lx == c and ly == r: continue
                    if not thorough and (lx + ly) % 2: continue
                    cases.append(mk('rat', b, rvec(g, lx), rvec(g, ly), Fraction(2), "tie-mismatched-lengths", nontrivial=True))
    g = rng.fork("dups")
    for h in range(60 if thorough else 20):
        r, c = g.range(1, 5), g.range(1, 5)
        cells = [(g.below(r), g.below(c)) for _ in range(g.range(2, 8))]
        b = ('T', r, c, [(i, j, c06.val(g)) for (i, j) in cells])
        cases.append(mk('rat', b, rvec(g, c), rvec(g, r), vval(g), "tie-duplicates", nontrivial=True))
    g = rng.fork("badvecs")
    for h in range(120 if thorough else 40):
        r, c = g.range(1, 4), g.range(1, 4)
        cells = c06.rand_cells(g, r, c, 1, 2)
        _, _, _, vals, ri, cs = c06.vecs_of(g, r, c, cells)
        k = g.below(7)
        if k == 0: cs = cs[:-1]
        elif k == 1 and len(cs) > 1:
            p = g.below(len(cs)); cs = list(cs); cs[p] = cs[p] + g.range(1, 3)
        elif k == 2 and vals: vals = vals[:-1]
        elif k == 3 and ri: ri = ri[:-1]
        elif k == 4 and ri:
            p = g.below(len(ri)); ri = list(ri); ri[p] = r + g.range(0, 2)
        elif k == 5: cs = [x + 1 for x in cs]
        else: cs = cs + [cs[-1]]
        cases.append(mk('rat', ('V', r, c, vals, ri, cs), rvec(g, c), rvec(g, r), vval(g), "tie-malformed-vecs", nontrivial=True))
    g = rng.fork("float")
    for h in range(120 if thorough else 40):
        elt = 'f64' if h % 2 == 0 else 'cplx'
        r, c = g.range(0, 10), g.range(0, 10)
        cells = c06.rand_cells(g, r, c, 1, 2)
        b = ('T', r, c, c06.triplets_of(g, cells, elt))
        x = [c06.val(g, elt) for _ in range(c)]; y = [c06.val(g, elt) for _ in range(r)]
        cases.append(mk(elt, b, x, y, c06.val(g, elt), "product-" + elt))
    # spread the expensive cases evenly over the Coq shards (the engine cuts the list into consecutive runs of 250)
    k = max(1, (len(cases) + 249) // 250)
    cases = [c for r in range(k) for c in cases[r::k]]
    return cases

def case_from_json(j):
    elt = j["elt"]; m = j["meta"]
    b = build_from_json(elt, m["build"])
    cv = (lambda s: Fraction(s)) if elt == 'rat' else (lambda s: complex(s) if elt == 'cplx' else float(s))
    return mk(elt, b, [cv(t) for t in m["x"]], [cv(t) for t in m["y"]], cv(m["a"]), "corpus")

COUNT = {"oracle_in_claim": 0, "tie_only": 0}

def extra_coverage():
    return {"oracle_cases_inside_the_claim": COUNT["oracle_in_claim"], "tie_only_cases": COUNT["tie_only"]}

def oracle(case, items):
    if case.elt != 'rat':
        COUNT["tie_only"] += 1
        return None
    m = case.meta
    b = build_from_json('rat', m["build"])
    ref = dok_of_build(b)
    if ref is None or len(m["x"]) != ref.c or len(m["y"]) != ref.r: COUNT["tie_only"] += 1
    else: COUNT["oracle_in_claim"] += 1
    return oracle_prod(b, [Fraction(t) for t in m["x"]], [Fraction(t) for t in m["y"]], Fraction(m["a"]), items)
