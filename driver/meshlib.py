# driver/meshlib.py -- mesh histories (C19): printers for both sides (executor line / Gallina term)
# and an independent reference model (nodes -> list of variables, 2-D as a dictionary keyed by (i,j)).
import os, itertools
from fractions import Fraction
from common import *

FILEDIR = os.path.join(CACHE, "mesh_files")
_counter = itertools.count()

def new_path():
    os.makedirs(FILEDIR, exist_ok=True)
    return os.path.join(FILEDIR, "m%d_%d.txt" % (os.getpid(), next(_counter)))

# ----------------------------------------------------------------------------- number formatting
def fmt_round(x, prec):
    """what `{:.prec$}` followed by f64::from_str gives (correctly rounded both ways)"""
    return float("%.*f" % (prec, x))

def fmt_table(values, prec):
    seen, out = set(), []
    for v in values:
        v = float(v)
        if v in seen: continue
        seen.add(v)
        out.append((v, fmt_round(v, prec)))
    return out

# ----------------------------------------------------------------------------- user functions (shared AST)
# ("v", k) | ("lit", c) | ("bin", op, l, r) | ("neg", e)
def ast_tok(elt, e):
    if e[0] == "v": return "v%d" % e[1]
    if e[0] == "lit":
        if elt == 'rat':
            c = Fraction(e[1]); return "<%d/%d>" % (c.numerator, c.denominator)
        return tok_scalar(elt, e[1])
    if e[0] == "neg": return "(neg%s)" % ast_tok(elt, e[1])
    return "(%s%s%s)" % (ast_tok(elt, e[2]), e[1], ast_tok(elt, e[3]))

_OPN = {"+": "OpAdd", "-": "OpSub", "*": "OpMul", "/": "OpDiv"}
def ast_coq(elt, e):
    if e[0] == "v": return "(EVar %d)" % e[1]
    if e[0] == "lit": return "(ELit %s)" % coq_scalar(elt, e[1])
    if e[0] == "neg": return "(ENeg %s)" % ast_coq(elt, e[1])
    return "(EBin %s %s %s)" % (_OPN[e[1]], ast_coq(elt, e[2]), ast_coq(elt, e[3]))

def ast_eval(e, v):
    """same operation order as harness/src/fnast.rs and Base/FnAst.v; python floats are IEEE doubles"""
    if e[0] == "v": return v[e[1]]
    if e[0] == "lit": return e[1]
    if e[0] == "neg": return -ast_eval(e[1], v)
    a = ast_eval(e[2], v); b = ast_eval(e[3], v)
    if e[1] == "+": return a + b
    if e[1] == "-": return a - b
    if e[1] == "*": return a * b
    return a / b

def ast_conv(e, f):
    if e[0] == "v": return ("v", e[1])
    if e[0] == "lit": return ("lit", f(e[1]))
    if e[0] == "neg": return ("neg", ast_conv(e[1], f))
    return ("bin", e[1], ast_conv(e[2], f), ast_conv(e[3], f))

# ----------------------------------------------------------------------------- op tables
# kinds: n nat, s scalar, v vector, e expr, p precision (+ path on the executor side, + table on the model side)
OPS1 = {"set": ("O1Set", "nv"), "get": ("O1Get", "n"), "idx": ("O1Idx", "n"), "idxset": ("O1IdxSet", "nv"),
        "idxelem": ("O1IdxElem", "nns"), "coord": ("O1Coord", "n"), "nnodes": ("O1NNodes", ""), "dump": ("O1Dump", ""),
        "interp": ("O1Interp", "s"), "trap": ("O1Trap", "n"),
        "file": ("O1File", "pnv"), "reread": ("O1Reread", "p"),
        # search-only (no model constructor): output, then read() into a mesh that already HOLDS non-zero data (nodes2, data2 row-major,
        # same number of variables as the writer), then every read path + the quadrature on the mesh that was read, then the writer again
        "fileinto": (None, "pvv")}
OPS2 = {"set": ("O2Set", "nnv"), "get": ("O2Get", "nn"), "idx": ("O2Idx", "nn"), "idxset": ("O2IdxSet", "nnv"),
        "idxelem": ("O2IdxElem", "nnns"), "assign": ("O2Assign", "s"), "xsec": ("O2XSec", "n"), "ysec": ("O2YSec", "n"),
        "varmat": ("O2VarMat", "n"), "apply": ("O2Apply", "en"), "coord": ("O2Coord", "nn"), "nnodes": ("O2NNodes", ""), "dump": ("O2Dump", ""),
        "trap": ("O2Trap", "n"), "sqtrap": ("O2SqTrap", "n"), "file": ("O2File", "p"), "filevar": ("O2FileVar", "pn")}
ENDS1 = {"idxelem", "file", "reread", "fileinto"}
ENDS2 = {"idxelem", "assign", "apply", "file", "filevar"}

def op_line(elt, table, op):
    name, args = op[0], op[1:]
    toks = [name]
    for k, a in zip(table[name][1], args):
        if k == "n": toks.append(str(a))
        elif k == "s": toks.append(tok_scalar(elt, a))
        elif k == "v": toks.append(tok_vec(elt, a))
        elif k == "e": toks.append(ast_tok(elt, a))
        elif k == "p": toks += [str(a), new_path()]
    toks.append(";")
    return " ".join(toks)

def coq_tbl(elt, tbl):
    return coq_list(["(%s, %s)" % (coq_scalar(elt, a), coq_scalar(elt, b)) for a, b in tbl])

def op_coq(elt, table, op, tbl=None):
    name, args = op[0], op[1:]
    parts = ["@%s %s" % (table[name][0], ARITH[elt])]
    for k, a in zip(table[name][1], args):
        if k == "n": parts.append(str(a))
        elif k == "s": parts.append(coq_scalar(elt, a))
        elif k == "v": parts.append(coq_vec(elt, a))
        elif k == "e": parts.append(ast_coq(elt, a))
        elif k == "p": parts.append(coq_tbl(elt, tbl))
    return "(" + " ".join(parts) + ")"

def consts(elt):
    if elt == 'f64':
        return "(@mkC AF (fz false 1 (-1)) (fz false 1 (-2)) Params.MESH_SNAP)"
    return "(@mkC AQ (q 1 2) (q 1 4) (q 1 10000000))"

# ----------------------------------------------------------------------------- reference model
class RefPanic(Exception):
    pass

def _chk(b):
    if not b: raise RefPanic()

class Ref1:
    def __init__(self, nvars, nodes, zero):
        self.nvars, self.nodes = nvars, list(nodes)
        self.vars = [[zero] * nvars for _ in nodes]
    def values(self):
        return list(self.nodes) + [x for r in self.vars for x in r]

class Ref2:
    def __init__(self, nvars, xs, ys, zero):
        self.nvars, self.xs, self.ys = nvars, list(xs), list(ys)
        self.nx, self.ny = len(xs), len(ys)
        self.vars = {(i, j): [zero] * nvars for i in range(self.nx) for j in range(self.ny)}
    def raw(self, i, j):
        """the unguarded (i,j) operators address the flat storage: outside the claim except for its bounds"""
        k = i * self.ny + j
        _chk(k < self.nx * self.ny)
        return divmod(k, self.ny)
    def values(self):
        return list(self.xs) + list(self.ys) + [x for i in range(self.nx) for j in range(self.ny) for x in self.vars[(i, j)]]

# expected-stream entries: ('i', n) | ('x', exact value) | ('~', Fraction, abs tol) | ('|', [(Fraction, abs tol), ...]) any of |
#                          ('[]', lo, hi, abs tol) any value in the interval | ('P',) | ('?',)
def X(v): return ('x', Fraction(v))
def XV(v): return [('i', len(v))] + [X(x) for x in v]
def AV(v, tols): return [('i', len(v))] + [('~', Fraction(x), t) for x, t in zip(v, tols)]

def dump1(m):
    out = [('i', m.nvars)] + XV(m.nodes)
    for r in m.vars: out += XV(r)
    return out

def dump1_approx(m, tolf):
    out = [('i', m.nvars)] + AV(m.nodes, [tolf(x) for x in m.nodes])
    for r in m.vars: out += AV(r, [tolf(x) for x in r])
    return out

def dump2(m):
    out = [('i', m.nvars), ('i', m.nx), ('i', m.ny)] + XV(m.xs) + XV(m.ys)
    for i in range(m.nx):
        for j in range(m.ny): out += XV(m.vars[(i, j)])
    return out

ULP = Fraction(1, 2 ** 52)
WINDOW_IN = Fraction(1, 2 ** 24)     # 5.96e-8 < 1e-7: points this close to a node are inside the snapping window whatever its rounding

def lines_expected(lines, prec):
    """lines: list of lists of original values; every token equals the original to the printed precision"""
    out = [('i', len(lines))]
    for l in lines:
        out.append(('i', len(l)))
        for x in l: out.append(('~', Fraction(x), print_tol(x, prec)))
    return out

def print_tol(x, prec):
    return Fraction(1, 2 * 10 ** prec) + ULP * abs(Fraction(x))

def interp_expected(m, x):
    """property: nodal values at nodes (within 1e-7: either neighbouring line may be used), linear interpolant inside a cell.
    Returns list of (Fraction, tol) or None when the property says nothing (outside the grid / inside a window but not at a node)."""
    n = len(m.nodes)
    xs = [Fraction(t) for t in m.nodes]
    xf = Fraction(x)
    for k in range(n):
        if xf == xs[k]:
            vals = [Fraction(v) for v in m.vars[k]]
            if k == n - 1 and n >= 2:
                left = m.vars[k - 1]
                return [(v, 4 * ULP * max(abs(Fraction(l)), abs(v), 1)) for v, l in zip(vals, left)]
            return [(v, Fraction(0)) for v in vals]
    def line(c):
        l = [Fraction(v) for v in m.vars[c]]; r = [Fraction(v) for v in m.vars[c + 1]]
        t = (xf - xs[c]) / (xs[c + 1] - xs[c])
        return [(a + (b - a) * t, Fraction(1, 10 ** 13) * max(1, abs(a), abs(b))) for a, b in zip(l, r)]
    for k in range(n - 1):
        if xs[k] < xf < xs[k + 1]:
            d, node = min((xf - xs[k], k), (xs[k + 1] - xf, k + 1))
            if d <= WINDOW_IN:
                # well inside the implementation's 1e-7 snapping window around `node`, and inside the grid.  C19 quantifies over nodes,
                # mid-cells and positions at least 1e-6 from every node; inside the window it only says that the neighbouring cell's
                # line MAY be used.  Accepted: any value in the hull of {the nodal value, the cell's own line at x, the line of the other
                # cell sharing the node extrapolated over d} plus the rounding tolerance (what interp_near_node_bound proves) -- an
                # implementation returning the nodal values there satisfies the property; anything outside the hull is reported
                cells = [c for c in (node - 1, node) if 0 <= c <= n - 2]
                alts = [line(c) for c in cells]
                out = []
                for v in range(len(m.vars[k])):
                    cands = [Fraction(m.vars[node][v])] + [a[v][0] for a in alts]
                    out.append(('[]', min(cands), max(cands), max(a[v][1] for a in alts)))
                return out
            if d < Fraction(1, 10 ** 6):
                return None
            l = [Fraction(v) for v in m.vars[k]]; r = [Fraction(v) for v in m.vars[k + 1]]
            dx = xs[k + 1] - xs[k]; hh = xf - xs[k]
            t = hh / dx
            out = []
            for a, b in zip(l, r):
                # C19 promises EXACT f64 results on integer data over dyadic grids: when the difference, the slope (b-a)/dx, its
                # product with x - x_k and the final sum are all binary64 numbers, every operation of left + (right-left)/dx * (x-x_k)
                # is exact in IEEE arithmetic, so the value must be the interpolant itself (a slope formed as (b-a) * (1/dx) is not:
                # seeded mutation C19-11); otherwise the rounding allowance applies
                s = (b - a) / dx
                exact = all(_is_f64(v) for v in (b - a, dx, hh, s, s * hh, a + s * hh))
                out.append((a + (b - a) * t, Fraction(0) if exact else Fraction(1, 10 ** 13) * max(1, abs(a), abs(b))))
            return out
    return None

def _is_f64(fr):
    """is the rational fr a binary64 number (normal range)?"""
    try: return fr == 0 or (Fraction(float(fr)) == fr and abs(fr) >= Fraction(1, 2 ** 1000))
    except OverflowError: return False

def quad_tol(n_cells, sum_abs):
    """rounding allowance of the f64 evaluation of a sum of n cell contributions: each contribution is formed with at most
    12 roundings (differences, products, corner sum, powf) and added with one more; first-order bound, doubled.
    On the generated dyadic data the f64 result is in fact exact; a wrong weight / index / corner is an O(1) relative error."""
    return 2 * (n_cells + 12) * ULP * sum_abs

def trap1_expected(m, var):
    xs = [Fraction(t) for t in m.nodes]
    s = Fraction(0); tot = Fraction(0); n = 0
    for k in range(len(xs) - 1):
        c = Fraction(1, 2) * (xs[k + 1] - xs[k]) * (Fraction(m.vars[k][var]) + Fraction(m.vars[k + 1][var]))
        s += c; tot += abs(c); n += 1
    return s, quad_tol(n, tot)

def trap2_expected(m, var, square=False):
    xs = [Fraction(t) for t in m.xs]; ys = [Fraction(t) for t in m.ys]
    g = (lambda v: Fraction(v) ** 2) if square else (lambda v: Fraction(v))
    s = Fraction(0); tot = Fraction(0); n = 0
    for i in range(m.nx - 1):
        for j in range(m.ny - 1):
            c = Fraction(1, 4) * (xs[i + 1] - xs[i]) * (ys[j + 1] - ys[j]) * (
                abs(g(m.vars[(i, j)][var])) + abs(g(m.vars[(i + 1, j)][var])) + abs(g(m.vars[(i, j + 1)][var])) + abs(g(m.vars[(i + 1, j + 1)][var])))
            tot += abs(c); n += 1
            s += Fraction(1, 4) * (xs[i + 1] - xs[i]) * (ys[j + 1] - ys[j]) * (
                g(m.vars[(i, j)][var]) + g(m.vars[(i + 1, j)][var]) + g(m.vars[(i, j + 1)][var]) + g(m.vars[(i + 1, j + 1)][var]))
    return s, quad_tol(n, tot)

def ref_step1(m, op):
    """returns (expected entries of the result, replacement entries of the state dump or None)"""
    name, a = op[0], op[1:]
    n = len(m.nodes)
    if name == "set":
        _chk(a[0] < n and len(a[1]) == m.nvars); m.vars[a[0]] = list(a[1]); return [], None
    if name == "get":
        _chk(a[0] < n); return XV(m.vars[a[0]]), None
    if name == "idx":
        _chk(a[0] < n); return XV(m.vars[a[0]]), None
    if name == "idxset":
        _chk(a[0] < n); m.vars[a[0]] = list(a[1]); return [], None
    if name == "idxelem":
        _chk(a[0] < n and a[1] < len(m.vars[a[0]])); m.vars[a[0]][a[1]] = a[2]; return [], None
    if name == "coord":
        _chk(a[0] < n); return [X(m.nodes[a[0]])], None
    if name == "nnodes":
        return [('i', n)], None
    if name == "dump":
        return dump1(m), None
    if name == "interp":
        _chk(n >= 1)
        e = interp_expected(m, a[0])
        if e is None: return [('i', m.nvars)] + [('?',)] * m.nvars, None
        return [('i', m.nvars)] + [x if x[0] in ('|', '[]') else ('~', x[0], x[1]) for x in e], None
    if name == "trap":
        _chk(n >= 1)
        s, t = trap1_expected(m, a[0]); return [('~', s, t)], None
    if name in ("file", "reread"):
        prec = a[0]
        lines = [[m.nodes[k]] + list(m.vars[k]) for k in range(n)]
        out = lines_expected(lines, prec)
        tolf = lambda x: print_tol(x, prec)
        if name == "reread":      # always the last op of a history (the state becomes the rounded one)
            return out + dump1_approx(m, tolf), None
        nv2, nodes2 = a[1], a[2]
        if nv2 == m.nvars:
            out += dump1_approx(m, tolf)
        else:
            # the claim is about reading back with the writer's layout; with another nvars only the shape is predicted
            ntok = n * (m.nvars + 1)
            cnt = -(-ntok // (nv2 + 1))
            out += [('i', nv2), ('i', cnt)] + [('?',)] * cnt
            for _ in range(cnt): out += [('i', nv2)] + [('?',)] * nv2
        return out, None
    if name == "fileinto":
        prec, nodes2, data2 = a
        _chk(len(data2) == len(nodes2) * m.nvars)
        lines = [[m.nodes[k]] + list(m.vars[k]) for k in range(n)]
        tolf = lambda x: print_tol(x, prec)
        out = lines_expected(lines, prec)
        # whatever the receiving mesh held (fewer / as many / more nodes, non-zero data), after read() it holds the file -- through the
        # index path, the guarded path, coord, and under the quadrature
        out += dump1_approx(m, tolf)
        out.append(('i', n))
        for k in range(n):
            out += AV(m.vars[k], [tolf(x) for x in m.vars[k]]) + [('~', Fraction(m.nodes[k]), tolf(m.nodes[k]))]
        for var in range(m.nvars):
            if n == 0: out.append(('P',)); break
            s, t = trap1_expected(m, var)
            for k in range(n - 1):
                dx = abs(Fraction(m.nodes[k + 1]) - Fraction(m.nodes[k])); ex = tolf(m.nodes[k]) + tolf(m.nodes[k + 1])
                F = abs(Fraction(m.vars[k][var])) + abs(Fraction(m.vars[k + 1][var])); eF = tolf(m.vars[k][var]) + tolf(m.vars[k + 1][var])
                t += Fraction(1, 2) * ((dx + ex) * (F + eF) - dx * F) * (1 + 64 * ULP)
            out.append(('~', s, t))
        return out + dump1(m), None
    raise ValueError(name)

def ref_hist1(elt, nvars, nodes, ops):
    zero = Fraction(0) if elt == 'rat' else 0.0
    m = Ref1(nvars, nodes, zero)
    out = []
    for op in ops:
        try:
            res, _ = ref_step1(m, op)
            out += res
        except RefPanic:
            out.append(('P',))
            if op[0] in ENDS1: break
    return out

def ref_step2(m, op, elt):
    name, a = op[0], op[1:]
    inr = lambda i, j: i < m.nx and j < m.ny
    if name == "set":
        _chk(inr(a[0], a[1]) and len(a[2]) == m.nvars); m.vars[(a[0], a[1])] = list(a[2]); return []
    if name == "get":
        _chk(inr(a[0], a[1])); return XV(m.vars[(a[0], a[1])])
    if name == "idx":
        return XV(m.vars[m.raw(a[0], a[1])])
    if name == "idxset":
        m.vars[m.raw(a[0], a[1])] = list(a[2]); return []
    if name == "idxelem":
        k = m.raw(a[0], a[1]); _chk(a[2] < len(m.vars[k])); m.vars[k][a[2]] = a[3]; return []
    if name == "assign":
        for k in m.vars: m.vars[k] = [a[0]] * m.nvars
        return []
    if name == "xsec":
        _chk(not (m.ny >= 1 and a[0] >= m.nx))
        s = Ref1(m.nvars, m.ys, 0); s.vars = [list(m.vars[(a[0], j)]) for j in range(m.ny)]; return dump1(s)
    if name == "ysec":
        _chk(not (m.nx >= 1 and a[0] >= m.ny))
        s = Ref1(m.nvars, m.xs, 0); s.vars = [list(m.vars[(i, a[0])]) for i in range(m.nx)]; return dump1(s)
    if name == "varmat":
        _chk(a[0] < m.nvars)
        return [('i', m.nx), ('i', m.ny)] + [X(m.vars[(i, j)][a[0]]) for i in range(m.nx) for j in range(m.ny)]
    if name == "apply":
        _chk(a[1] < m.nvars or m.nx * m.ny == 0)
        for i in range(m.nx):
            for j in range(m.ny):
                m.vars[(i, j)][a[1]] = ast_eval(a[0], [m.xs[i], m.ys[j]])
        return []
    if name == "coord":
        _chk(inr(a[0], a[1])); return [X(m.xs[a[0]]), X(m.ys[a[1]])]
    if name == "nnodes":
        return [('i', m.nx), ('i', m.ny)]
    if name == "dump":
        return dump2(m)
    if name == "trap":
        _chk(not (m.nx == 0 or (m.nx >= 2 and m.ny == 0)))
        s, t = trap2_expected(m, a[0]); return [('~', s, t)]
    if name == "sqtrap":
        _chk(not (m.nx == 0 or (m.nx >= 2 and m.ny == 0)))
        s, t = trap2_expected(m, a[0], True); return [('~', s, t)]
    if name == "file":
        lines = []
        for j in range(m.ny):
            for i in range(m.nx): lines.append([m.xs[i], m.ys[j]] + list(m.vars[(i, j)]))
            lines.append([])
        return lines_expected(lines, a[0])
    if name == "filevar":
        _chk(a[1] < m.nvars or m.nx * m.ny == 0)
        lines = []
        for j in range(m.ny):
            for i in range(m.nx): lines.append([m.xs[i], m.ys[j], m.vars[(i, j)][a[1]]])
            lines.append([])
        return lines_expected(lines, a[0])
    raise ValueError(name)

def ref_hist2(elt, nvars, xs, ys, ops):
    zero = Fraction(0) if elt == 'rat' else 0.0
    m = Ref2(nvars, xs, ys, zero)
    out = []
    for op in ops:
        try:
            out += ref_step2(m, op, elt)
        except RefPanic:
            out.append(('P',))
            if op[0] in ENDS2: break
    return out

def compare_expected(elt, exp, got):
    """None, or how the implementation's answer departs from the reference"""
    if len(exp) != len(got):
        k = 0
        while k < min(len(exp), len(got)) and _item_ok(elt, exp[k], got[k]) is None: k += 1
        return "answer has %d items, reference %d; first difference at item %d: reference %r, implementation %r" % (
            len(got), len(exp), k, exp[k:k+2], got[k:k+2])
    for k, (e, g) in enumerate(zip(exp, got)):
        d = _item_ok(elt, e, g)
        if d: return "item %d: %s" % (k, d)
    return None

def _item_ok(elt, e, g):
    if e[0] == '?': return None if g[0] != 'P' else "reference a value, implementation panicked"
    if e[0] == 'P': return None if g[0] == 'P' else "reference panics, implementation returned %r" % (g,)
    if g[0] == 'P': return "reference %r, implementation panicked (%s)" % (_show(e), g[1])
    if e[0] == 'i': return None if g == ('i', e[1]) else "reference %d, implementation %r" % (e[1], g)
    if g[0] == 'q': v = Fraction(g[1], g[2])
    elif g[0] == 'f':
        f = bits_f64(g[1])
        if f != f or f in (math.inf, -math.inf): return "reference %s, implementation %r" % (_show(e), f)
        v = Fraction(f)
    else: return "reference %s, implementation %r" % (_show(e), g)
    if e[0] == '|':
        if any(abs(v - c) <= t for c, t in e[1]): return None
        return "reference any of %s (tolerance %.3g), implementation %r" % ([float(c) for c, _ in e[1]], float(e[1][0][1]), float(v))
    if e[0] == '[]':
        if e[1] - e[3] <= v <= e[2] + e[3]: return None
        return "reference any value in [%r, %r] (tolerance %.3g), implementation %r" % (float(e[1]), float(e[2]), float(e[3]), float(v))
    if e[0] == 'x': return None if v == e[1] else "reference %s, implementation %s" % (_show(e), float(v))
    if e[0] == '~': return None if abs(v - e[1]) <= e[2] else "reference %s (tolerance %.3g), implementation %r" % (_show(e), float(e[2]), float(v))
    raise ValueError(e)

def _show(e):
    if e[0] in ('x', '~'): return repr(float(e[1])) if e[1].denominator not in (1,) else str(e[1].numerator)
    if e[0] == '|': return "any of %s" % [float(c) for c, _ in e[1]]
    if e[0] == '[]': return "any value in [%r, %r]" % (float(e[1]), float(e[2]))
    return repr(e)
