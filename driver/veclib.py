# driver/veclib.py -- vectors (C15, C16): value printers for both sides, the vec.hist op table and an
# independent plain-python-list reference model (the search oracle of C15).
import math
from fractions import Fraction
from common import *

# ------------------------------------------------------------------ fast exact float literals
# python's float.hex() is an exact binary64 literal that Coq's primitive-float parser reads exactly
# (subnormals and signed zeros included); ~4x cheaper for coqc than building the value with Z.ldexp.
def hx(x):
    x = float(x)
    if x != x: return "nan"
    if x == math.inf: return "infinity"
    if x == -math.inf: return "neg_infinity"
    return "(%s)%%float" % x.hex()

def coq_fvec(v):
    return "([" + "; ".join(hx(x) for x in v) + "]%float)"

def coq_s(elt, x):
    """scalar literal (fast float form)"""
    if elt == 'f64': return hx(x)
    if elt == 'cplx':
        x = complex(x)
        return "(@mkC AF %s %s)" % (hx(x.real), hx(x.imag))
    return coq_scalar(elt, x)

def coq_v(elt, v):
    if elt == 'f64': return coq_fvec(v)
    return coq_list([coq_s(elt, x) for x in v])

# ------------------------------------------------------------------ vec.hist: op table
# name -> (coq constructor, argument kinds)   kinds: n nat, s scalar, v vector
VOPS = {
    "push": ("VPush", "s"), "push_front": ("VPushFront", "s"), "insert": ("VInsert", "ns"), "pop": ("VPop", ""),
    "swap": ("VSwap", "nn"), "resize": ("VResize", "n"), "assign": ("VAssign", "s"), "clear": ("VClear", ""),
    "sort": ("VSort", ""), "find": ("VFind", "s"), "set": ("VSet", "ns"),
    "add_assign": ("VAddAssign", "v"), "sub_assign": ("VSubAssign", "v"),
    "add_assign_s": ("VAddAssignS", "s"), "sub_assign_s": ("VSubAssignS", "s"),
    "mul_assign_s": ("VMulAssignS", "s"), "div_assign_s": ("VDivAssignS", "s"),
    "get": ("VGet", "n"), "size": ("VSize", ""), "sum": ("VSum", ""), "product": ("VProduct", ""),
    "sum_slice": ("VSumSlice", "nn"), "product_slice": ("VProductSlice", "nn"), "dot": ("VDot", "v"),
    "add": ("VAdd", "v"), "sub": ("VSub", "v"), "neg": ("VNeg", ""), "scale": ("VScale", "s"), "div": ("VDiv", "s"),
    "abs": ("VAbs", ""), "norm_1": ("VNorm1", ""), "clone_mut": ("VCloneMut", "s"),
}

MUTATING = {"push", "push_front", "insert", "pop", "swap", "resize", "assign", "clear", "sort", "set", "add_assign", "sub_assign",
            "add_assign_s", "sub_assign_s", "mul_assign_s", "div_assign_s", "clone_mut"}

# (specB) extended ops: executor-side only (harness/src/k_vector.rs), no constructor in coq/Model/Vector.v -- a history that
# contains one of them is SEARCH-ONLY (term None) and is judged by the plain-list reference model below.
# kinds: n nat, s scalar, v vector, f an f64 scalar whatever the element type
XOPS = {
    "cmp": "v", "cmp_self": "", "dot_self": "", "add_self": "", "sub_self": "", "field": "",
    "sort_desc": "", "sort_absdesc": "", "clone_into": "v", "clone_from": "v",
    "norms": "f", "scale_l": "f", "cxview": "", "dot_f64": "v",
}
XMUTATING = {"sort_desc", "sort_absdesc", "clone_from"}
MUTATING |= XMUTATING

def op_kinds(name):
    return VOPS[name][1] if name in VOPS else XOPS[name]

def is_extended(ops):
    return any(o[0] in XOPS for o in ops)

def vop_line(elt, op):
    name, args = op[0], op[1:]
    toks = [name]
    for k, a in zip(op_kinds(name), args):
        if k == "n": toks.append(str(a))
        elif k == "s": toks.append(tok_scalar(elt, a))
        elif k == "v": toks.append(tok_vec(elt, a))
        elif k == "f": toks.append(tok_scalar('f64', a))
    toks.append(";")
    return " ".join(toks)

def vop_coq(elt, op):
    name, args = op[0], op[1:]
    ctor, kinds = VOPS[name]
    parts = ["@%s %s" % (ctor, ARITH[elt])]
    for k, a in zip(kinds, args):
        if k == "n": parts.append(str(a))
        elif k == "s": parts.append(coq_s(elt, a))
        elif k == "v": parts.append(coq_v(elt, a))
    return "(" + " ".join(parts) + ")" if len(parts) > 1 else parts[0]

def vhist_line(elt, v0, ops):
    return "vec.hist " + tok_vec(elt, v0) + " " + " ".join(vop_line(elt, o) for o in ops)

def vhist_term(elt, v0, ops):
    # the external sorter is instantiated by insertion sort on the element order (PartialOrd::le)
    return "@vec_hist %s (@isort %s (@leb %s)) %s %s %s" % (ARITH[elt], ARITH[elt], ARITH[elt], FLAT[elt], coq_v(elt, v0),
                                                       coq_list([vop_coq(elt, o) for o in ops]))

# ------------------------------------------------------------------ reference model: a plain python list
class RefPanic(Exception):
    pass

def _chk(b):
    if not b: raise RefPanic()

def _zero(elt):
    return Fraction(0) if elt == 'rat' else (0.0 if elt == 'f64' else 0j)

def _div(elt, x, s):
    if elt == 'rat':
        _chk(s != 0)
        return x / s
    if elt == 'f64':
        if s == 0:
            if x != x or x == 0: return math.nan
            return math.copysign(math.inf, x) * math.copysign(1.0, s)
        return x / s
    # complex: the textbook quotient (x * conj(s)) / |s|^2
    den = s.real * s.real + s.imag * s.imag
    if den == 0: return complex(math.nan, math.nan)
    return complex((x.real * s.real + x.imag * s.imag) / den, (x.imag * s.real - x.real * s.imag) / den)

def _abs(elt, x):
    if elt == 'cplx': return complex(math.sqrt(x.real * x.real + x.imag * x.imag), 0.0)
    return -x if x < 0 else x

def _key(elt, x):
    return (x.real, x.imag) if elt == 'cplx' else x

def ref_vstep(elt, v, op):
    """Textbook semantics of one operation on a python list `v` (mutated in place).  Returns the result value
    (None, ('s',x), ('v',[..]), ('n',k)); raises RefPanic where the operation has no defined result."""
    name, a = op[0], op[1:]
    zero = _zero(elt)
    if name == "push": v.append(a[0]); return None
    if name == "push_front": v.insert(0, a[0]); return None
    if name == "insert": _chk(a[0] <= len(v)); v.insert(a[0], a[1]); return None
    if name == "pop": _chk(len(v) > 0); return ('s', v.pop())
    if name == "swap": _chk(a[0] < len(v) and a[1] < len(v)); v[a[0]], v[a[1]] = v[a[1]], v[a[0]]; return None
    if name == "resize":
        n = a[0]
        if n <= len(v): del v[n:]
        else: v.extend([zero] * (n - len(v)))
        return None
    if name == "assign": v[:] = [a[0]] * len(v); return None
    if name == "clear": del v[:]; return None
    if name == "sort": v.sort(key=lambda x: _key(elt, x)); return None
    if name == "find":
        for i, x in enumerate(v):
            if x == a[0]: return ('n', i)
        _chk(len(v) > 0)            # documented: "if not found return last index" -- there is none in an empty vector
        return ('n', len(v) - 1)
    if name == "set": _chk(a[0] < len(v)); v[a[0]] = a[1]; return None
    if name in ("add_assign", "sub_assign"):
        _chk(len(a[0]) == len(v)); sg = 1 if name[0] == 'a' else -1
        v[:] = [x + sg * y for x, y in zip(v, a[0])]; return None
    if name == "add_assign_s": v[:] = [x + a[0] for x in v]; return None
    if name == "sub_assign_s": v[:] = [x - a[0] for x in v]; return None
    if name == "mul_assign_s": v[:] = [x * a[0] for x in v]; return None
    if name == "div_assign_s": v[:] = [_div(elt, x, a[0]) for x in v]; return None
    if name == "get": _chk(a[0] < len(v)); return ('s', v[a[0]])
    if name == "size": return ('n', len(v))
    if name == "sum": _chk(len(v) > 0); return ('s', sum(v, zero))
    if name == "product":
        _chk(len(v) > 0); r = v[0]
        for x in v[1:]: r = r * x
        return ('s', r)
    if name == "sum_slice":
        s, e = a; _chk(s <= e < len(v)); return ('s', sum(v[s:e + 1], zero))
    if name == "product_slice":
        s, e = a; _chk(s <= e < len(v)); r = v[s]
        for x in v[s + 1:e + 1]: r = r * x
        return ('s', r)
    if name == "dot":
        _chk(len(a[0]) == len(v)); return ('s', sum((x * y for x, y in zip(v, a[0])), zero))
    if name in ("add", "sub"):
        _chk(len(a[0]) == len(v)); sg = 1 if name == "add" else -1
        return ('v', [x + sg * y for x, y in zip(v, a[0])])
    if name == "neg": return ('v', [-x for x in v])
    if name == "scale": return ('v', [x * a[0] for x in v])
    if name == "div": return ('v', [_div(elt, x, a[0]) for x in v])
    if name == "abs": return ('v', [_abs(elt, x) for x in v])
    if name == "norm_1": return ('s', sum((_abs(elt, x) for x in v), zero))
    if name == "clone_mut": v.append(a[0]); return None
    # ---- (specB) extended ops
    if name == "cmp":
        e = len(v) == len(a[0]) and all(x == y for x, y in zip(v, a[0]))
        return ('items', [('i', int(e)), ('i', int(not e))])
    if name == "cmp_self": return ('items', [('i', 1), ('i', 0)] * 3)        # finite entries only (no NaN is ever generated)
    if name == "dot_self": return ('s', sum((_mul(elt, x, x) for x in v), zero))
    if name == "add_self": return ('v', [x + x for x in v])
    if name == "sub_self": return ('v', [x - x for x in v])
    if name == "field": return ('v', list(v))
    if name == "sort_desc": v.sort(key=lambda x: _key(elt, x), reverse=True); return None
    if name == "sort_absdesc": v.sort(key=lambda x: (abs(x), x), reverse=True); return None
    if name == "clone_into": return ('v', list(v))
    if name == "clone_from": v[:] = list(a[0]); return None
    if name == "norms":
        _chk(len(v) > 0)                      # norm_inf panics on the empty vector; the executor emits nothing before the panic
        p = a[0]
        n1 = 0.0
        for x in v: n1 = n1 + abs(x)
        n2 = 0.0
        for x in v: n2 = n2 + abs(x) * abs(x)
        npp = 0.0
        for x in v: npp = npp + math.pow(abs(x), p)
        return ('items', [('f', f64_bits(y)) for y in (n1, math.sqrt(n2), math.pow(npp, 1.0 / p), max(abs(x) for x in v))])
    if name == "scale_l": return ('v', [a[0] * x for x in v])
    if name == "cxview":
        _chk(len(v) > 0)
        ab = [_abs('cplx', z) for z in v]
        return ('items', ref_items_v('cplx', [z.conjugate() for z in v]) + ref_items_v('f64', [z.real for z in v]) +
                ref_items_v('cplx', ab) + [('f', f64_bits(max(z.real for z in ab)))])
    if name == "dot_f64":
        _chk(len(a[0]) == len(v))
        d = sum((x * y for x, y in zip(v, a[0])), zero)
        return ('items', [('i', None), ('f', f64_bits(d)), ('f', f64_bits(d)), ('f', f64_bits(d))])
    raise ValueError(name)

def _mul(elt, x, y):
    """product as the library forms it (Complex<f64>: (ac - bd, ad + bc), every operation rounded)"""
    if elt == 'cplx': return complex(x.real * y.real - x.imag * y.imag, x.real * y.imag + x.imag * y.real)
    return x * y

def ref_items_s(elt, x):
    if elt == 'rat':
        x = Fraction(x); return [('q', x.numerator, x.denominator)]
    if elt == 'f64': return [('f', f64_bits(float(x)))]
    x = complex(x); return [('f', f64_bits(x.real)), ('f', f64_bits(x.imag))]

def ref_items_v(elt, v):
    out = [('i', len(v))]
    for x in v: out += ref_items_s(elt, x)
    return out

# ---- per-item error scales (B10).  Every float the reference predicts gets the magnitude S against which the allowed
# relative difference is measured (|reference - implementation| <= rtol * S).  The scale of an ENTRY travels with the entry
# (list U, parallel to the vector): an input (v0, a pushed / assigned / inserted value, a clone_from source) has U = 0, an
# entry produced by element-wise arithmetic has the scale it was produced with, and moving / copying it keeps that scale --
# an implementation that rounds an element-wise operation differently (within rtol) is not reported by a later dump.
# With m_i = |x_i| + U_i (magnitude of entry i plus what it already carries):
#   * a value that is only moved / copied / negated (edits, get, pop, field, clone, conj, real, f64 abs): S = U_i -- identical
#     when the entry is an input or was itself only moved;
#   * an element-wise product / quotient (scale, f64 * v, *=, /=, div, complex abs): S = m_i |s|, m_i / |s|, m_i: the magnitude
#     of the result ITSELF, so an entry 1e-6 of the largest entry of the same vector is still held to rtol of itself and is
#     never allowed to be 0 unless the reference is;
#   * an element-wise sum / difference (cancellation possible): S = the larger operand magnitude of that entry + U_i;
#   * a reduction (sum, dot, product, norms, slices): S = the sum of the m_i of the terms (product: their product; the
#     root norms: their own value + the sum of the U_i; the maximum: the largest U_i) -- the scale of the standard backward
#     error bound of ANY summation order.
# Complex entries carry the modulus-wise S on both components.
def _mag(x):
    try: return float(abs(x))
    except OverflowError: return math.inf

def _sum(xs):
    t = 0.0
    for x in xs: t = t + x
    return t

def _prod(xs):
    t = 1.0
    for x in xs: t = t * x
    return t

def _quot(m, s):
    return m / _mag(s) if s != 0 else 0.0

def _expand_s(elt, S):
    """scale of one element -> scales of its items"""
    return [None] if elt == 'rat' else ([S] if elt == 'f64' else [S, S])

def _expand_v(elt, Ss):
    out = [None]
    for S in Ss: out += _expand_s(elt, S)
    return out

def result_scales(elt, before, U, op, r):
    """scales of the items of the RESULT r = ref_vstep(elt, ., op) computed on the vector `before` whose entries carry U"""
    name, a = op[0], op[1:]
    v = before; n = len(v)
    m = [_mag(x) + u for x, u in zip(v, U)]
    if r is None: return []
    if r[0] == 'n': return [None]
    if name == "pop": return _expand_s(elt, U[-1])
    if name == "get": return _expand_s(elt, U[a[0]])
    if name in ("sum", "norm_1"): return _expand_s(elt, _sum(m))
    if name == "sum_slice": return _expand_s(elt, _sum(m[a[0]:a[1] + 1]))
    if name == "product": return _expand_s(elt, _prod(m))
    if name == "product_slice": return _expand_s(elt, _prod(m[a[0]:a[1] + 1]))
    if name == "dot": return _expand_s(elt, _sum([t * _mag(y) for t, y in zip(m, a[0])]))
    if name == "dot_self": return _expand_s(elt, _sum([t * t for t in m]))
    if name in ("add", "sub"): return _expand_v(elt, [max(_mag(x), _mag(y)) + u for x, y, u in zip(v, a[0], U)])
    if name in ("add_self", "sub_self"): return _expand_v(elt, m)
    if name in ("neg", "field", "clone_into"): return _expand_v(elt, U)
    if name in ("scale", "scale_l"): return _expand_v(elt, [t * _mag(a[0]) for t in m])
    if name == "div": return _expand_v(elt, [_quot(t, a[0]) for t in m])
    if name == "abs": return _expand_v(elt, m if elt == 'cplx' else U)
    if name == "norms":
        vals = [bits_f64(it[1]) for it in r[1]]
        return [_sum(m), abs(vals[1]) + _sum(U), abs(vals[2]) + _sum(U), max(U)]
    if name == "cxview":
        return _expand_v('cplx', U) + _expand_v('f64', U) + _expand_v('cplx', m) + [max(m)]
    if name == "dot_f64":
        S = _sum([t * _mag(y) for t, y in zip(m, a[0])])
        return [None, S, S, S]
    if r[0] == 'items': return [None] * len(r[1])        # integers only (cmp, cmp_self)
    raise ValueError("no scale rule for " + name)

def carried_scales(elt, before, U, op, after):
    """the scales the entries of `after` carry, `after` being `before` (entries carrying U) after the MUTATING operation op;
    they are also the scales of the dump that follows the operation"""
    name, a = op[0], op[1:]
    n = len(before)
    m = [_mag(x) + u for x, u in zip(before, U)]
    if name in ("push", "clone_mut"): out = U + [0.0]
    elif name == "push_front": out = [0.0] + U
    elif name == "insert": out = U[:a[0]] + [0.0] + U[a[0]:]
    elif name == "pop": out = U[:-1]
    elif name == "swap":
        out = list(U); out[a[0]], out[a[1]] = out[a[1]], out[a[0]]
    elif name == "resize": out = U[:a[0]] + [0.0] * max(a[0] - n, 0)
    elif name in ("assign", "clear", "clone_from"): out = [0.0] * len(after)
    elif name == "set":
        out = list(U); out[a[0]] = 0.0
    elif name in ("sort", "sort_desc", "sort_absdesc"):
        kf = (lambda x: (abs(x), x)) if name == "sort_absdesc" else (lambda x: _key(elt, x))
        order = sorted(range(n), key=lambda i: kf(before[i]), reverse=(name != "sort"))
        out = [U[i] for i in order]
        i = 0                                            # equal keys may come out in any order: a run of ties shares its largest scale
        while i < n:
            j = i
            while j + 1 < n and kf(before[order[j + 1]]) == kf(before[order[i]]): j += 1
            top = max(out[i:j + 1])
            for k in range(i, j + 1): out[k] = top
            i = j + 1
    elif name in ("add_assign", "sub_assign"): out = [max(_mag(x), _mag(y)) + u for x, y, u in zip(before, a[0], U)]
    elif name in ("add_assign_s", "sub_assign_s"): out = [max(_mag(x), _mag(a[0])) + u for x, u in zip(before, U)]
    elif name == "mul_assign_s": out = [t * _mag(a[0]) for t in m]
    elif name == "div_assign_s": out = [_quot(t, a[0]) for t in m]
    else: raise ValueError("no carry rule for " + name)
    if len(out) != len(after): raise ValueError("carried scales out of step after " + name)
    return out

def ref_vhist(elt, v0, ops, scales=None):
    """expected item stream of a history under the reference model; when `scales` is a list it receives, item for item,
    the error scale of every predicted float (None for integers, rationals, panics)"""
    v = list(v0)
    out = ref_items_v(elt, v)
    want = scales is not None and elt != 'rat'           # rationals are compared exactly: no scale
    U = [0.0] * len(v)                                   # the scale every entry of v carries
    sc = _expand_v(elt, U)
    for op in ops:
        snap = list(v)
        try:
            r = ref_vstep(elt, v, op)
            if r is not None:
                if r[0] == 'items': out += r[1]
                else: out += ref_items_s(elt, r[1]) if r[0] == 's' else (ref_items_v(elt, r[1]) if r[0] == 'v' else [('i', r[1])])
                if want: sc += result_scales(elt, snap, U, op, r)
            if op[0] in MUTATING:
                out += ref_items_v(elt, v)
                if want:
                    U = carried_scales(elt, snap, U, op, v)
                    sc += _expand_v(elt, U)
        except RefPanic:
            v = snap
            out += [('P', 'any')]
            out += ref_items_v(elt, v)
            if want: sc += [None] + _expand_v(elt, U)
    if want and len(sc) != len(out): raise ValueError("scale list out of step with the reference stream")
    if scales is not None: scales[:] = sc if want else [None] * len(out)
    return out

def streams_match(exp, got, rtol, scales=None):
    """structure, integers, rationals and panic-vs-value exactly; floats: where `scales` gives the item a scale S, within
    rtol * S of the reference (S = 0: identical up to the sign of zero; see the table above ref_vhist) -- otherwise (callers
    without a scale list) within rtol relative to the largest magnitude of the run of consecutive floats they belong to
    (rtol = 0: bitwise up to the sign of zero).  None or a description."""
    if len(exp) != len(got):
        k = 0
        while k < min(len(exp), len(got)) and (exp[k] == got[k] or exp[k][0] == got[k][0] in ('P', 'f')):
            k += 1
        return "answer has %d items, reference %d; first difference at item %d: reference %r, implementation %r" % (len(got), len(exp), k, exp[k:k+3], got[k:k+3])
    for k, (a, b) in enumerate(zip(exp, got)):
        if a[0] != b[0]:
            return "item %d: reference %r, implementation %r" % (k, a, b)
        if a[0] in ('P', 'f'): continue
        if a[0] == 'i' and a[1] is None: continue          # an integer the reference does not predict (num_cpus::get())
        if a != b:
            return "item %d: reference %r, implementation %r" % (k, a, b)
    for g in groups_of_floats(exp):
        xs = [bits_f64(exp[i][1]) for i in g]; ys = [bits_f64(got[i][1]) for i in g]
        fin = [abs(x) for x in xs if x == x and abs(x) != math.inf]
        scale = max(fin) if fin else 0.0
        for i, x, y in zip(g, xs, ys):
            if x != x or y != y:
                if (x != x) != (y != y): return "item %d: reference %r, implementation %r" % (i, x, y)
                continue
            if abs(x) == math.inf or abs(y) == math.inf:
                if x != y: return "item %d: reference %r, implementation %r" % (i, x, y)
                continue
            S = scales[i] if scales is not None else None
            if S is None:
                allowed = rtol * scale
            else:
                if S != S or S == math.inf: continue            # the scale itself overflowed: nothing is claimed for this item
                allowed = (rtol * S + 1e-300) if (rtol > 0 and S > 0) else 0.0
            if not (abs(x - y) <= allowed):
                return "item %d: reference %r, implementation %r (allowed difference %g = %g relative to %s)" % (
                    i, x, y, allowed, rtol, "the run of floats" if S is None else "the item's own scale %g" % S)
    return None
