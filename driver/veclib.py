# driver/veclib.py -- vectors (C15, C16): value printers for both sides, the vec.hist op table and an
# independent plain-python-list reference model (the search oracle of C15).
import math
from fractions import Fraction
from common import *

# ------------------------------------------------------------------ fast exact float literals
# python's float.hex() is an exact binary64 literal that Coq's primitive-float parser reads exactly
# (subnormals and signed zeros included); ~4x cheaper for coqc than building the value with Z.ldexp.
def hx(x):
    x = float(x)
    if x != x: return "nan"
    if x == math.inf: return "infinity"
    if x == -math.inf: return "neg_infinity"
    return "(%s)" % x.hex()

def coq_fvec(v):
    return "([" + "; ".join(hx(x) for x in v) + "]%float)"
