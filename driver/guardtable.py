# driver/guardtable.py -- the checked entry points of C20: where each lives in the source, which
# source atoms its guards may mention and what they mean, the hand-written range specification
# (as a Gallina Prop and, independently, as a python predicate), and the enumeration domains.
#
# An entry:
#   key      identifier (Gallina names g_<key>, ok_<key>; executor kind guard.<key>)
#   file     source file under /repo
#   anchor   regex locating the `fn` line of the function (first match after `after`, if given)
#   after    optional regex: the anchor is searched after the first match of this one
#   vars     ordered list of (name, lo, hi): integer variables, enumerated lo..hi inclusive
#   atoms    {source atom: Gallina/Z expression over vars}   atoms not listed make a guard "data-dependent"
#   data     list of regexes of guard conditions that are data-dependent by design (ignored)
#   spec     Gallina Prop over vars: the documented "in range / conformable" condition
#   ok       python predicate over the same vars (independent oracle)
#   pre      optional Gallina Prop: side condition of the theorem (besides 0 <= every var)
#   dontcare optional python predicate: tuples on which conformable calls may still panic natively
#            (degenerate sizes outside every property's quantifier) -- not compared
#   native   True: no explicit guard in the source (std's own bounds check); executor + oracle only
#   guard_of optional key of another entry whose guard protects this one (e.g. determinant -> lu)
S6 = 6

def V(*names, hi=S6):
    return [(n, 0, hi) for n in names]

ENTRIES = []
def E(**kw):
    kw.setdefault("atoms", {}); kw.setdefault("data", []); kw.setdefault("pre", None)
    kw.setdefault("dontcare", None); kw.setdefault("native", False); kw.setdefault("guard_of", None)
    kw.setdefault("after", None); kw.setdefault("nomodel", None)
    ENTRIES.append(kw)

VA = "src/vector/arithmetic.rs"; VF = "src/vector/functions.rs"
E(key="vec_add_ref", file=VA, anchor=r"fn add\(self, plus: &Vector<T>\) -> Self::Output", vars=V("n1", "n2"),
  atoms={"self.size()": "n1", "plus.size()": "n2"}, spec="n1 = n2", ok=lambda n1, n2: n1 == n2)
E(key="vec_sub_ref", file=VA, anchor=r"fn sub\(self, minus: &Vector<T>\) -> Self::Output", vars=V("n1", "n2"),
  atoms={"self.size()": "n1", "minus.size()": "n2"}, spec="n1 = n2", ok=lambda n1, n2: n1 == n2)
E(key="vec_add_assign", file=VA, anchor=r"fn add_assign\(&mut self, rhs: Self\)", vars=V("n1", "n2"),
  atoms={"self.size()": "n1", "rhs.size()": "n2"}, spec="n1 = n2", ok=lambda n1, n2: n1 == n2)
E(key="vec_sub_assign", file=VA, anchor=r"fn sub_assign\(&mut self, rhs: Self\)", vars=V("n1", "n2"),
  atoms={"self.size()": "n1", "rhs.size()": "n2"}, spec="n1 = n2", ok=lambda n1, n2: n1 == n2)
E(key="vec_dot", file=VF, anchor=r"pub fn dot\(&self, w: &Vector<T>\)", vars=V("n1", "n2"),
  atoms={"self.size()": "n1", "w.size()": "n2"}, spec="n1 = n2", ok=lambda n1, n2: n1 == n2)
E(key="vec_dot_f64", file="src/vector/vec_f64.rs", anchor=r"pub fn dot_f64\(&self, w: &Vector<f64>\)", vars=V("n1", "n2"),
  atoms={"self.size()": "n1", "w.size()": "n2"}, spec="n1 = n2", ok=lambda n1, n2: n1 == n2)
E(key="vec_sum_slice", file=VF, anchor=r"pub fn sum_slice\(&self, start: usize, end: usize\)", vars=[("n", 0, 6), ("s", 0, 7), ("e", 0, 7)],
  atoms={"self.size()": "n", "start": "s", "end": "e"}, spec="s <= e /\\ e < n", ok=lambda n, s, e: s <= e < n)
E(key="vec_product_slice", file=VF, anchor=r"pub fn product_slice\(&self, start: usize, end: usize\)", vars=[("n", 0, 6), ("s", 0, 7), ("e", 0, 7)],
  atoms={"self.size()": "n", "start": "s", "end": "e"}, spec="s <= e /\\ e < n", ok=lambda n, s, e: s <= e < n)
E(key="vec_index", file="src/vector/operations.rs", anchor=r"fn index", vars=[("n", 0, 6), ("i", 0, 7)], native=True,
  spec="i < n", ok=lambda n, i: i < n)

MO = "src/matrix/operations.rs"; MS = "src/matrix/solve.rs"; MA = "src/matrix/arithmetic.rs"
RC = {"self.rows": "r", "self.cols": "c", "self.rows()": "r", "self.cols()": "c"}
def rc(**extra):
    d = dict(RC); d.update(extra); return d
E(key="mat_get_row", file=MO, anchor=r"pub fn get_row\(&self, row: usize", vars=[("r", 0, 6), ("c", 0, 6), ("row", 0, 7)],
  atoms=rc(row="row"), spec="row < r", ok=lambda r, c, row: row < r)
E(key="mat_get_col", file=MO, anchor=r"pub fn get_col\(&self, col: usize", vars=[("r", 0, 6), ("c", 0, 6), ("col", 0, 7)],
  atoms=rc(col="col"), spec="col < c", ok=lambda r, c, col: col < c)
E(key="mat_set_row", file=MO, anchor=r"pub fn set_row\(&mut self, row: usize, vec: Vector<T>", vars=[("r", 0, 5), ("c", 0, 5), ("row", 0, 6), ("vl", 0, 6)],
  atoms=rc(**{"row": "row", "vec.size()": "vl"}), spec="vl = c /\\ row < r", ok=lambda r, c, row, vl: vl == c and row < r)
E(key="mat_set_col", file=MO, anchor=r"pub fn set_col\(&mut self, col: usize, vec: Vector<T>", vars=[("r", 0, 5), ("c", 0, 5), ("col", 0, 6), ("vl", 0, 6)],
  atoms=rc(**{"col": "col", "vec.size()": "vl"}), spec="vl = r /\\ col < c", ok=lambda r, c, col, vl: vl == r and col < c)
E(key="mat_delete_row", file=MO, anchor=r"pub fn delete_row\(&mut self, row: usize", vars=[("r", 0, 6), ("c", 0, 6), ("row", 0, 7)],
  atoms=rc(row="row"), spec="row < r", ok=lambda r, c, row: row < r)
E(key="mat_multiply", file=MO, anchor=r"pub fn multiply\(&self, vec: &Vector<T>", vars=[("r", 0, 6), ("c", 0, 6), ("vl", 0, 7)],
  atoms=rc(**{"vec.size()": "vl"}), spec="vl = c", ok=lambda r, c, vl: vl == c)
E(key="mat_swap_rows", file=MO, anchor=r"pub fn swap_rows\(&mut self, row_1: usize, row_2: usize", vars=[("r", 0, 5), ("c", 0, 5), ("r1", 0, 6), ("r2", 0, 6)],
  atoms=rc(row_1="r1", row_2="r2"), spec="r1 < r /\\ r2 < r", ok=lambda r, c, r1, r2: r1 < r and r2 < r)
E(key="mat_fill_row", file=MO, anchor=r"pub fn fill_row\(&mut self, row: usize", vars=[("r", 0, 6), ("c", 0, 6), ("row", 0, 7)],
  atoms=rc(row="row"), spec="row < r", ok=lambda r, c, row: row < r)
E(key="mat_fill_col", file=MO, anchor=r"pub fn fill_col\(&mut self, col: usize", vars=[("r", 0, 6), ("c", 0, 6), ("col", 0, 7)],
  atoms=rc(col="col"), spec="col < c", ok=lambda r, c, col: col < c)
E(key="mat_solve_basic", file=MS, anchor=r"pub fn solve_basic\(&mut self, b: &Vector<T>", vars=[("r", 0, 6), ("c", 0, 6), ("bl", 0, 6)],
  atoms=rc(**{"b.size()": "bl"}), spec="r = bl /\\ r = c", ok=lambda r, c, bl: r == bl and r == c, dontcare=lambda r, c, bl: r == 0)
E(key="mat_lu", file=MS, anchor=r"pub fn lu_decomp_in_place\(&mut self\)", vars=[("r", 0, 6), ("c", 0, 6)],
  atoms=rc(), spec="r = c", ok=lambda r, c: r == c)
E(key="mat_solve_lu", file=MS, anchor=r"pub fn solve_lu\(&mut self, b: &Vector<T>", vars=[("r", 0, 6), ("c", 0, 6), ("bl", 0, 6)],
  atoms=rc(**{"b.size()": "bl"}), spec="r = bl /\\ r = c", ok=lambda r, c, bl: r == bl and r == c, dontcare=lambda r, c, bl: r == 0)
E(key="mat_inverse", file=MS, anchor=r"pub fn inverse\(&self\)", vars=[("r", 0, 6), ("c", 0, 6)],
  atoms=rc(), spec="r = c", ok=lambda r, c: r == c)
E(key="mat_determinant", file=MS, anchor=r"pub fn determinant\(&self\)", vars=[("r", 0, 6), ("c", 0, 6)], guard_of="mat_lu",
  atoms=rc(), spec="r = c", ok=lambda r, c: r == c)
for nm, pat, other in (("add_ref", r"fn add\(self, plus: &Matrix<T>\)", "plus"), ("sub_ref", r"fn sub\(self, minus: &Matrix<T>\)", "minus"),
                       ("add_assign_ref", r"fn add_assign\(&mut self, rhs: &Self\)", "rhs"), ("sub_assign_ref", r"fn sub_assign\(&mut self, rhs: &Self\)", "rhs")):
    E(key="mat_" + nm, file=MA, anchor=pat, vars=[("r", 0, 4), ("c", 0, 4), ("r2", 0, 4), ("c2", 0, 4)],
      atoms=rc(**{other + ".rows": "r2", other + ".cols": "c2"}), spec="r = r2 /\\ c = c2", ok=lambda r, c, r2, c2: r == r2 and c == c2)
E(key="mat_mul_ref", file=MA, anchor=r"fn mul\(self, mul: &Matrix<T> \) -> Matrix<T>", vars=[("r", 0, 4), ("c", 0, 4), ("r2", 0, 4), ("c2", 0, 4)],
  atoms=rc(**{"mul.rows": "r2", "mul.cols": "c2"}), spec="c = r2", ok=lambda r, c, r2, c2: c == r2)

BD = "src/banded.rs"
BN = {"self.n": "n", "self.m1": "m1", "self.m2": "m2"}
def bn(**extra):
    d = dict(BN); d.update(extra); return d
E(key="band_fill_band", file=BD, anchor=r"pub fn fill_band\(&mut self, band: isize", vars=[("n", 0, 5), ("m1", 0, 3), ("m2", 0, 3), ("band", -4, 4)],
  atoms=bn(band="band"), spec="- m1 <= band /\\ band <= m2", ok=lambda n, m1, m2, band: -m1 <= band <= m2)
E(key="band_solve", file=BD, anchor=r"pub fn solve\( &self, b: &Vector<T> \)", vars=[("n", 0, 6), ("m1", 0, 3), ("m2", 0, 3), ("bl", 0, 6)],
  atoms=bn(**{"b.size()": "bl"}), spec="n = bl", ok=lambda n, m1, m2, bl: n == bl,
  dontcare=lambda n, m1, m2, bl: n == 0 or m1 >= n or m2 >= n)
for nm, pat in (("index", r"fn index<'a>\(&'a self, index: \( usize, usize \) \) -> &'a T"), ("index_mut", r"fn index_mut\(&mut self, index: \( usize, usize \) \) -> &mut T")):
    E(key="band_" + nm, file=BD, anchor=pat, vars=[("n", 1, 4), ("m1", 0, 2), ("m2", 0, 2), ("i", 0, 4), ("j", 0, 4)],
      atoms=bn(i="i", j="j"), spec="j <= i + m2 /\\ i <= j + m1", ok=lambda n, m1, m2, i, j: j <= i + m2 and i <= j + m1,
      dontcare=lambda n, m1, m2, i, j: i >= n or j >= n)
for nm, pat, other in (("add_ref", r"fn add\(self, plus: &Banded<T>\)", "plus"), ("sub_ref", r"fn sub\(self, minus: &Banded<T>\)", "minus"),
                       ("add_assign_ref", r"fn add_assign\(&mut self, plus: &Banded<T>\)", "plus"), ("sub_assign_ref", r"fn sub_assign\(&mut self, minus: &Banded<T>\)", "minus")):
    E(key="band_" + nm, file=BD, anchor=pat, vars=[("n", 0, 3), ("m1", 0, 2), ("m2", 0, 2), ("n2", 0, 3), ("p1", 0, 2), ("p2", 0, 2)],
      atoms=bn(**{other + ".n": "n2", other + ".m1": "p1", other + ".m2": "p2"}), spec="n = n2 /\\ m1 = p1 /\\ m2 = p2",
      ok=lambda n, m1, m2, n2, p1, p2: (n, m1, m2) == (n2, p1, p2))
E(key="band_mul_vec", file=BD, anchor=r"fn mul\(self, vector: &Vector<T>\)", vars=[("n", 0, 6), ("m1", 0, 3), ("m2", 0, 3), ("vl", 0, 6)],
  atoms=bn(**{"vector.size()": "vl"}), spec="n = vl", ok=lambda n, m1, m2, vl: n == vl,
  dontcare=lambda n, m1, m2, vl: n >= 1 and (m1 >= n or m2 >= n))

TD = "src/tridiagonal.rs"
E(key="tri_with_vectors", file=TD, anchor=r"pub fn with_vectors\(", vars=[("ns", 0, 6), ("nm", 0, 6), ("nu", 0, 6)],
  atoms={"sub.size()": "ns", "sup.size()": "nu", "n": "nm"}, spec="ns = nm - 1 /\\ nu = nm - 1", ok=lambda ns, nm, nu: nm >= 1 and ns == nm - 1 and nu == nm - 1)
E(key="tri_with_vecs", file=TD, anchor=r"pub fn with_vecs\(", vars=[("ns", 0, 6), ("nm", 0, 6), ("nu", 0, 6)],
  atoms={"sub.len()": "ns", "sup.len()": "nu", "n": "nm"}, spec="ns = nm - 1 /\\ nu = nm - 1", ok=lambda ns, nm, nu: nm >= 1 and ns == nm - 1 and nu == nm - 1)
E(key="tri_convert", file=TD, anchor=r"pub fn convert\( &self \)", vars=[("n", 0, 6)], atoms={"self.n": "n"}, spec="1 <= n", ok=lambda n: n >= 1)
E(key="tri_solve", file=TD, anchor=r"pub fn solve\( &self, r: &Vector<T> \)", vars=[("n", 0, 6), ("rl", 0, 6)],
  atoms={"self.n": "n", "r.size()": "rl"}, data=[r"self\.main\[0\] == T::zero\(\)", r"beta == T::zero\(\)"],
  spec="n = rl", ok=lambda n, rl: n == rl, dontcare=lambda n, rl: n == 0)
for nm, pat in (("index", r"fn index<'a>\(&'a self, index: \( usize, usize \) \) -> &'a T"), ("index_mut", r"fn index_mut\(&mut self, index: \( usize, usize \) \) -> &mut T")):
    E(key="tri_" + nm, file=TD, anchor=pat, vars=[("n", 1, 6), ("i", 0, 7), ("j", 0, 7)],
      atoms={"self.n": "n", "i": "i", "j": "j"}, spec="i < n /\\ j < n /\\ (i = j \\/ i = j + 1 \\/ i + 1 = j)",
      ok=lambda n, i, j: i < n and j < n and abs(i - j) <= 1)
E(key="tri_add", file=TD, anchor=r"fn add\(self, plus: Self\)", vars=[("n1", 1, 6), ("n2", 1, 6)],
  atoms={"self.size()": "n1", "plus.size()": "n2"}, spec="n1 = n2", ok=lambda n1, n2: n1 == n2)
E(key="tri_sub", file=TD, anchor=r"fn sub\(self, minus: Self\)", vars=[("n1", 1, 6), ("n2", 1, 6)],
  atoms={"self.size()": "n1", "minus.size()": "n2"}, spec="n1 = n2", ok=lambda n1, n2: n1 == n2)
E(key="tri_mul_vec", file=TD, anchor=r"fn mul\(self, vec: &Vector<T>\) -> Vector<T>", vars=[("n", 1, 6), ("vl", 0, 7)],
  atoms={"self.size()": "n", "vec.size()": "vl"}, spec="n = vl", ok=lambda n, vl: n == vl)

SP = "src/sparse.rs"
SR = {"self.rows": "r", "self.cols": "c", "self.col_start.len()": "(c + 1)"}
def sr(**extra):
    d = dict(SR); d.update(extra); return d
E(key="sp_from_triplets", file=SP, anchor=r"pub fn from_triplets\(", vars=[("r", 0, 5), ("c", 0, 5), ("row", 0, 6), ("col", 0, 6)],
  atoms={"rows": "r", "cols": "c", "row": "row", "col": "col"}, spec="row < r /\\ col < c", ok=lambda r, c, row, col: row < r and col < c)
E(key="sp_get", file=SP, anchor=r"pub fn get\( &self, row: usize, col: usize \)", vars=[("r", 0, 5), ("c", 0, 5), ("row", 0, 6), ("col", 0, 6)],
  atoms=sr(row="row", col="col"), spec="row < r /\\ col < c", ok=lambda r, c, row, col: row < r and col < c)
E(key="sp_insert", file=SP, anchor=r"pub fn insert\( &mut self, row: usize, col: usize, value: T \)", vars=[("r", 0, 5), ("c", 0, 5), ("row", 0, 6), ("col", 0, 6)],
  atoms=sr(row="row", col="col"), spec="row < r /\\ col < c", ok=lambda r, c, row, col: row < r and col < c)
E(key="sp_multiply", file=SP, anchor=r"pub fn multiply\( &self, x: &Vector<T> \)", vars=[("r", 0, 6), ("c", 0, 6), ("xl", 0, 7)],
  atoms=sr(**{"x.size()": "xl"}), spec="c = xl", ok=lambda r, c, xl: c == xl)
E(key="sp_transpose_multiply", file=SP, anchor=r"pub fn transpose_multiply\( &self, x: &Vector<T> \)", vars=[("r", 0, 6), ("c", 0, 6), ("xl", 0, 7)],
  atoms=sr(**{"x.size()": "xl"}), spec="r = xl", ok=lambda r, c, xl: r == xl)
for nm in ("bicgstab", "cg", "qmr"):
    E(key="sp_solve_" + nm, file=SP, anchor=r"pub fn solve_%s\(" % nm, vars=[("r", 0, 4), ("c", 0, 4), ("bl", 0, 4), ("xl", 0, 4)],
      atoms=sr(**{"b.size()": "bl", "x.size()": "xl"}),
      data=[r"normb == 0\.0", r"resid <=? tol", r"resid < tol", r"rho_1 == 0\.0", r"omega == 0\.0", r"i == 1", r"rho == 0\.0", r"xi == 0\.0", r"delta == 0\.0",
            r"ep == 0\.0", r"beta == 0\.0", r"gamma == 0\.0", r"i > 1"],
      spec="r = bl /\\ r = c /\\ bl = xl", ok=lambda r, c, bl, xl: r == bl and r == c and bl == xl)
E(key="sp_solve_bicg", file=SP, anchor=r"pub fn solve_bicg\(", vars=[("r", 0, 3), ("c", 0, 3), ("bl", 0, 3), ("xl", 0, 3), ("itol", 0, 3)],
  atoms=sr(**{"b.size()": "bl", "x.size()": "xl", "itol": "itol"}),
  data=[r"bnrm == 0\.0", r"err <= tol", r"iter == 1", r"iter < max_iter"],
  spec="r = bl /\\ r = c /\\ bl = xl /\\ (itol = 1 \\/ itol = 2)", ok=lambda r, c, bl, xl, itol: r == bl and r == c and bl == xl and itol in (1, 2))

M1 = "src/mesh1d.rs"; M2 = "src/mesh2d.rs"
E(key="mesh1_set_nodes_vars", file=M1, anchor=r"pub fn set_nodes_vars\(&mut self, node: usize, vec: Vector<T>", vars=[("nn", 0, 5), ("nv", 0, 4), ("node", 0, 6), ("vl", 0, 5)],
  atoms={"self.nodes.size()": "nn", "self.nvars": "nv", "node": "node", "vec.size()": "vl"}, spec="node < nn /\\ vl = nv",
  ok=lambda nn, nv, node, vl: node < nn and vl == nv)
E(key="mesh1_get_nodes_vars", file=M1, anchor=r"pub fn get_nodes_vars\(&self, node: usize", vars=[("nn", 0, 6), ("nv", 0, 4), ("node", 0, 7)],
  atoms={"self.nodes.size()": "nn", "self.nvars": "nv", "node": "node"}, spec="node < nn", ok=lambda nn, nv, node: node < nn)
E(key="mesh2_set_nodes_vars", file=M2, anchor=r"pub fn set_nodes_vars\(&mut self, nodex: usize, nodey: usize, vec: Vector<T>",
  vars=[("nx", 0, 3), ("ny", 0, 3), ("nv", 0, 3), ("i", 0, 4), ("j", 0, 4), ("vl", 0, 4)],
  atoms={"self.nx": "nx", "self.ny": "ny", "self.nvars": "nv", "nodex": "i", "nodey": "j", "vec.size()": "vl"},
  spec="i < nx /\\ j < ny /\\ vl = nv", ok=lambda nx, ny, nv, i, j, vl: i < nx and j < ny and vl == nv)
E(key="mesh2_get_nodes_vars", file=M2, anchor=r"pub fn get_nodes_vars\(&self, nodex: usize, nodey: usize",
  vars=[("nx", 0, 4), ("ny", 0, 4), ("i", 0, 5), ("j", 0, 5)],
  atoms={"self.nx": "nx", "self.ny": "ny", "nodex": "i", "nodey": "j"}, spec="i < nx /\\ j < ny", ok=lambda nx, ny, i, j: i < nx and j < ny)
E(key="mesh2_var_as_matrix", file=M2, anchor=r"pub fn var_as_matrix\(&self, var: usize", vars=[("nx", 0, 4), ("ny", 0, 4), ("nv", 0, 4), ("var", 0, 5)],
  atoms={"self.nx": "nx", "self.ny": "ny", "self.nvars": "nv", "var": "var"}, spec="var < nv", ok=lambda nx, ny, nv, var: var < nv)

PA = "src/polynomial/arithmetic.rs"
E(key="poly_index", file=PA, anchor=r"fn index<'a>\(&'a self, index: usize \) -> &'a T", vars=[("len", 0, 6), ("i", 0, 7)],
  atoms={"self.coeffs.len()": "len", "index": "i"}, spec="i < len", ok=lambda len, i: i < len)
E(key="poly_index_mut", file=PA, anchor=r"fn index_mut\(&mut self, index: usize \) -> &mut T", vars=[("len", 0, 6), ("i", 0, 7)],
  atoms={"self.coeffs.len()": "len", "index": "i"}, spec="i < len", ok=lambda len, i: i < len)
E(key="poly_roots_degree", file="src/polynomial/mod.rs", anchor=r"fn poly_solve\( coeffs: Vector::<Cmplx>, refine: bool \)", vars=[("len", 0, 6)],
  atoms={"degree": "(len - 1)"}, data=[r"degree == [123]", r"degree > 3", r"^refine$", r"x\.imag\.abs\(\)"], pre="1 <= len",
  spec="2 <= len", ok=lambda len: len >= 2, nomodel=lambda len: len == 0)   # len = 0: `coeffs.size() - 1` underflows (a panic the Z-model of the guard does not see)

# ---- entry points protected by std's own bounds checks only (no explicit guard in the source): executor + oracle only
VO = "src/vector/operations.rs"
E(key="vec_index_mut", file=VO, anchor=r"fn index_mut", vars=[("n", 0, 6), ("i", 0, 7)], native=True, spec="i < n", ok=lambda n, i: i < n)
E(key="vec_swap", file=VO, anchor=r"pub fn swap", vars=[("n", 0, 6), ("i", 0, 7), ("j", 0, 7)], native=True, spec="i < n /\\ j < n", ok=lambda n, i, j: i < n and j < n)
E(key="vec_insert", file=VO, anchor=r"pub fn insert", vars=[("n", 0, 6), ("pos", 0, 8)], native=True, spec="pos <= n", ok=lambda n, pos: pos <= n)
E(key="vec_pop", file=VO, anchor=r"pub fn pop", vars=[("n", 0, 6)], native=True, spec="1 <= n", ok=lambda n: n >= 1)
E(key="mesh1_index", file=M1, anchor=r"fn index<'a>", vars=[("nn", 0, 6), ("node", 0, 7)], native=True, spec="node < nn", ok=lambda nn, node: node < nn)
E(key="mesh1_index_mut", file=M1, anchor=r"fn index_mut", vars=[("nn", 0, 6), ("node", 0, 7)], native=True, spec="node < nn", ok=lambda nn, node: node < nn)
E(key="mesh1_coord", file=M1, anchor=r"pub fn coord", vars=[("nn", 0, 6), ("node", 0, 7)], native=True, spec="node < nn", ok=lambda nn, node: node < nn)
E(key="mesh2_coord", file=M2, anchor=r"pub fn coord", vars=[("nx", 0, 4), ("ny", 0, 4), ("i", 0, 5), ("j", 0, 5)], native=True,
  spec="i < nx /\\ j < ny", ok=lambda nx, ny, i, j: i < nx and j < ny)
E(key="mesh2_cross_section_xnode", file=M2, anchor=r"pub fn cross_section_xnode", vars=[("nx", 0, 5), ("ny", 1, 5), ("i", 0, 6)], native=True,
  spec="i < nx", ok=lambda nx, ny, i: i < nx)
E(key="mesh2_cross_section_ynode", file=M2, anchor=r"pub fn cross_section_ynode", vars=[("nx", 1, 5), ("ny", 0, 5), ("j", 0, 6)], native=True,
  spec="j < ny", ok=lambda nx, ny, j: j < ny)
E(key="mesh2_apply", file=M2, anchor=r"pub fn apply", vars=[("nx", 1, 4), ("ny", 1, 4), ("nv", 0, 4), ("var", 0, 5)], native=True,
  spec="var < nv", ok=lambda nx, ny, nv, var: var < nv)
E(key="band_index_rows", file=BD, anchor=r"fn index<'a>", vars=[("n", 0, 5), ("m1", 0, 2), ("m2", 0, 2), ("i", 0, 6)], native=True,
  spec="i < n", ok=lambda n, m1, m2, i: i < n)

BYKEY = {e["key"]: e for e in ENTRIES}
