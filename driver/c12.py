# C12 -- polynomial division: u = q*v + r, deg r < deg v, for every divisor with a nonzero leading coefficient;
#        zero divisors are an error; the routine never panics or spins.
import math
from fractions import Fraction
from common import *
from engine import Case
from polylib import *
import polylib

PID = "C12"
IMPORTS = polylib.IMPORTS
MODEL_VO = polylib.MODEL_VO
EXHAUSTIVE = False
RULE = ("poly.div cases for every dividend length 0..11 (empty, degree 0..10) x every divisor length 0..7 (empty, degree 0..6; constants and "
        "divisors longer than the dividend included), families: Rat small fractions; integer-valued f64 whose divisor's leading coefficient has a "
        "reciprocal that does not round-trip (49, 98, 103, ...: computed, 1/d*d != 1); general f64 with coefficient ratios up to 1e6; Complex<f64>; "
        "structured dividends u = q0*v + r0 with zero interior quotient coefficients and sparse binomial operands (multi-degree drops of the remainder); "
        "all-zero and empty divisors; divisors with a zero leading coefficient (outside the claim: tie only; floats must still terminate); "
        "special STRUCTURE: div-self-* (kind poly.divself: u.polydiv(&u), dividend and divisor the SAME object, u empty / all-zero of either sign / constant / random / structured; "
        "div-sameobj-* (kind poly.divpair, search-only: for the dividend and the divisor w of every poly.div case, w.polydiv(&w) and w.polydiv(&w.clone()), each answer judged by the "
        "property itself -- identity, degree condition, zero-divisor error, no panic -- and the two outcome classes equal; no representation of q, r is demanded), div-related-* (u = v by value, -v, c*v, x^k*v, v*v, v reversed, one "
        "coefficient different), div-special-lead-* (leading coefficient of the divisor 1 -1 2 1/2 -2 -1/2 3, also among general inexact f64 coefficients; Complex: +-k, +-ki, +-i, 1+-i, with "
        "the dividend's leading coefficient from the same menu half of the time), zero-divisor-signed-* / zero-divisor-equal-rat (all-zero divisors of lengths 1..7 with zeros of either sign, "
        "[-0.0] included; dividend empty / all-zero / random / equal to the divisor by value), div-rotated-cplx (exact Gaussian-integer divisions and real ones turned by powers of i: both "
        "operands on the imaginary axis, one on each axis, ...), div-struct-* (dividend all-zero, with two or more vanishing leading coefficients, one-term, negative zeros; divisor c*x^k, all ones, "
        "alternating, zero interior, special menu); rotating with the seed in the quick tier; "
        "distinct = distinct executor line; non-trivial = the long-division loop runs at least once (len u >= len v, valid divisor)")
TRUSTED = ["Coq 8.16.1 kernel + vm_compute (primitive floats bit-exact)", "Rust executor /verif/harness (Rat = i128 rationals; k_poly.rs uses the public Polynomial API only)",
           "python driver: generators, exact recomputation of u - (q*v + r) in Fraction / Gaussian rationals (driver/polylib.py), stream comparators",
           "hand-written Gallina model coq/Model/Poly.v (polydiv as repaired by e504d5d) tied to src/polynomial/arithmetic.rs by differential execution",
           "driver/translate.py: POLYDIV_MAX regenerated from the source constant MAX"]
ASSUMPTIONS = ["Rust semantics of Vec/usize as modelled (checked indexing, debug overflow checks)",
               "the totality theorem needs len u <= MAX (= 1000, regenerated): beyond that the code itself returns its iteration-cap error",
               "the sampled cases are where model and code were compared; the theorems are about the model"]
UNPROVED = ["the size of the float residual u - (q*v + r) is proved in the standard rounding model and at binary64 under finite q, r and a computable no-underflow condition (polydiv_rounded_identity(_float): |e_k| <= gam(2M)(|u_k| + sum|q_i||v_(k-i)|), M = min(len u + 1 - len v, len v); about 1.6e-15 where the search demands 1e-10); NOT proved: that condition for arbitrary inputs (e.g. polydiv [1;1] [1;0] = Ok([inf],[-inf]) is outside it); exactness at binary64 on integer data is proved (polydiv_exact_float: monic or exactly dividing leading coefficient and U(1+V)^(len u - len v + 1) < 2^53: the float division returns the integer quotient and remainder, which satisfy u = q v + r uniquely; Gaussian-integer division in the run form only)",
            "operand non-mutation is a run-time observation of the executor"]

MANIFEST = dict(
    text=("Theorems about the Gallina model of Polynomial::polydiv as repaired (the cancelled leading coefficient is set to zero before trim): for "
          "EVERY arithmetic with 0 == 0 and a total division by nonzero values -- f64 and Complex<f64> as much as Q -- a divisor with nonzero "
          "leading coefficient and a dividend of at most MAX coefficients give Ok(q, r) with r zero or shorter than v, within len(u) passes, never a "
          "panic, never the iteration-cap error; for f64 and Complex<f64> EVERY input (NaN, infinities, zero leading coefficient) is classified as "
          "error value (exactly the empty / all-zero divisors) or Ok; over any field u = q*v + r coefficientwise, and this together with the "
          "degree condition determines q and r (uniqueness); "
          "The pre-repair loop is refuted in Coq on the float instance (x / 49x runs into the cap). The same Gallina function is run against the "
          "implementation (Rat vs Qc exact; f64/Complex bitwise, outcome compared exactly) on all dividend degrees 0..10 x divisor degrees 0..6, on dividends related to the divisor "
          "(equal, negated, scaled, shifted, squared; the same object: u.polydiv(&u)), special leading coefficients, signed-zero divisors and exact Complex divisions off the real axis, and "
          "an exact recomputation of u - (q*v + r) searches for a failing input (exact over Rat, <= 1e-10*scale over floats, and exact again for integer-valued f64 operands whose schoolbook long division stays in the integers below 2^53: family div-exactdiv-badlead, divisors led by d with fl(d*fl(1/d)) != 1)."),
    note="The size of the floating-point residual is a theorem in the standard rounding model and at binary64 absent overflow/underflow, and searched on the implementation; the exact-arithmetic identity and float termination are theorems.",
    technique="Coq proof (any arithmetic / any field) + legacy refutation by vm_compute on primitive floats + differential execution + exact residual search",
    design="7 (C12)")

# integers whose reciprocal does not round-trip in binary64: 1/d*d != 1 (the class of the repaired defect)
BAD_LEAD = [d for d in range(3, 400) if (1.0 / d) * d != 1.0]

def gen_val(rng, fam):
    if fam == 'rat':
        k = rng.below(8)
        if k == 0: return Fraction(0)
        if k < 5: return Fraction(rng.range(-6, 6))
        return Fraction(rng.range(-9, 9), rng.range(2, 4))
    if fam == 'f64int':
        return float(small_int(rng, -9, 9))
    if fam == 'f64gen':
        if rng.chance(1, 10): return 0.0
        m = (rng.unit() * 0.9 + 0.1) * (1 if rng.chance(1, 2) else -1)
        return m * 10.0 ** rng.range(-3, 3)           # magnitudes 1e-4 .. 1e3: ratios up to 1e6 and a little beyond
    if fam == 'cplx':
        if rng.chance(1, 3):
            return complex(float(small_int(rng, -9, 9)), float(small_int(rng, -5, 5, (1, 3))))
        return complex((rng.unit() - 0.5) * 10.0 ** rng.range(-2, 2), (rng.unit() - 0.5) * 10.0 ** rng.range(-2, 2))
    raise ValueError(fam)

ELT = {'rat': 'rat', 'f64int': 'f64', 'f64gen': 'f64', 'cplx': 'cplx'}

def gen_lead(rng, fam):
    """a nonzero leading coefficient of the divisor"""
    if fam == 'rat':
        return Fraction(rng.choice([1, -1, 2, 3, -5, 7, 49]), rng.choice([1, 1, 2, 3]))
    if fam == 'f64int':
        d = float(rng.choice(BAD_LEAD[:40]))
        return d if rng.chance(3, 4) else -d
    if fam == 'f64gen':
        while True:
            x = gen_val(rng, fam)
            if x != 0: return x
    if fam == 'cplx':
        if rng.chance(1, 4):       # unit-modulus leading coefficients: 1/z = conj z there, not z (seeded mutation C12-6)
            return rng.choice([1j, -1j, complex(-1.0, 0.0), complex(1.0, 0.0), complex(0.6, 0.8), complex(-0.8, 0.6), complex(0.0, -1.0)])
        if rng.chance(1, 2):
            return complex(float(rng.choice(BAD_LEAD[:20])), float(rng.range(-3, 3)))
        while True:
            x = gen_val(rng, fam)
            if x != 0: return x

def zero_val(fam):
    return {'rat': Fraction(0), 'f64int': 0.0, 'f64gen': 0.0, 'cplx': complex(0.0, 0.0)}[fam]

def mk_div(fam, u, v, family, nontrivial):
    return mk_case(ELT[fam], "div", [u, v], family, nontrivial=nontrivial, tol=1e-9)

def generate(rng, tier):
    cases = []
    reps = 6 if tier == "thorough" else 1
    for fam in ('rat', 'f64int', 'f64gen', 'cplx'):
        g = rng.fork("div-" + fam)
        for lu in range(0, 12):
            for lv in range(0, 8):
                for _ in range(reps):
                    u = [gen_val(g, fam) for _ in range(lu)]
                    if lu and g.chance(2, 3) and u[-1] == 0: u[-1] = gen_lead(g, fam)
                    v = [gen_val(g, fam) for _ in range(lv)]
                    if lv: v[-1] = gen_lead(g, fam)
                    cases.append(mk_div(fam, u, v, "div-" + fam, nontrivial=(lv > 0 and lu >= lv)))
        # zero divisors: empty, all-zero (for floats also negative zeros), and (outside the claim) a zero leading coefficient
        g = rng.fork("zero-" + fam)
        for lu in (0, 1, 3, 6, 11):
            u = [gen_val(g, fam) for _ in range(lu)]
            for lv in (0, 1, 2, 4):
                z = zero_val(fam)
                v = [z] * lv
                if fam in ('f64int', 'f64gen') and lv >= 2: v[0] = -0.0
                cases.append(mk_div(fam, u, v, "zero-divisor-" + fam, nontrivial=True))
            for lv in (2, 3, 5):
                v = [gen_val(g, fam) for _ in range(lv)]
                if all(x == 0 for x in v[:-1]): v[0] = gen_lead(g, fam)
                v[-1] = zero_val(fam)
                cases.append(mk_div(fam, u, v, "zero-leading-" + fam, nontrivial=False))
    # the class of the repaired defect, densely: u = x^k-ish integer polynomials over divisors d*x + c
    g = rng.fork("spin")
    n = 120 if tier == "thorough" else 30
    for _ in range(n):
        lu, lv = g.range(2, 11), g.range(1, 4)
        u = [float(small_int(g, -9, 9)) for _ in range(lu)]
        if u[-1] == 0: u[-1] = 1.0
        v = [float(small_int(g, -9, 9)) for _ in range(lv)]
        v[-1] = float(g.choice(BAD_LEAD))
        cases.append(mk_div('f64int', u, v, "div-f64-nonroundtrip-lead", nontrivial=(lu >= lv)))
    # structured dividends u = q0*v + r0 with a prescribed quotient that has zero interior coefficients and sparse
    # operands: the remainder's degree then drops by two or more in one pass (exact cancellation of lower terms),
    # the class where 'one degree per pass' shortcuts go wrong.  Exact kinds only (Rat, integer-valued f64 / Complex).
    g = rng.fork("structured")
    n = 60 if tier == "thorough" else 16
    def conv_to(fam, x):
        return x if fam == 'rat' else (float(x) if fam == 'f64int' else complex(float(x), 0.0))
    for fam in ('rat', 'f64int', 'cplx'):
        for _ in range(n):
            lq, lv = g.range(2, 6), g.range(1, 5)
            q0 = [Fraction(small_int(g, -5, 5, (1, 2))) for _ in range(lq)]
            q0[-1] = Fraction(g.choice([1, -1, 2, 3]))
            if lq > 2 and all(a != 0 for a in q0[1:-1]): q0[g.range(1, lq - 2)] = Fraction(0)
            v = [Fraction(small_int(g, -4, 4, (1, 2))) for _ in range(lv)]
            v[-1] = Fraction(g.choice([1, -1, 2, -3]))
            r0 = [Fraction(small_int(g, -6, 6, (1, 3))) for _ in range(g.range(0, lv - 1))]
            u = ref_add(ref_mul(q0, v), r0)
            cases.append(mk_div(fam, [conv_to(fam, a) for a in u], [conv_to(fam, a) for a in v],
                                "div-structured-" + fam, nontrivial=True))
        for _ in range(n // 2):     # sparse u / sparse v (binomials, x^k + c)
            lu, lv = g.range(3, 11), g.range(2, 6)
            u = [Fraction(0)] * lu; v = [Fraction(0)] * lv
            u[-1] = Fraction(g.choice([1, 2, -1])); u[g.below(lu - 1)] = Fraction(g.range(-4, 4))
            v[-1] = Fraction(g.choice([1, -1, 2])); v[g.below(lv - 1)] = Fraction(g.choice([1, -1, 2, -2, 3]))
            cases.append(mk_div(fam, [conv_to(fam, a) for a in u], [conv_to(fam, a) for a in v],
                                "div-sparse-" + fam, nontrivial=(lu >= lv)))
    # exact integer divisions over a divisor whose leading coefficient d has fl(fl(1/d) * d) != 1 (own rng stream): every quotient
    # term lead(r) / lead(v) is an exact integer division and every product and difference is an integer below 2^53, so each
    # float operation of the loop is exact and u = q*v + r must hold EXACTLY (judge demands it); a quotient term formed as
    # lead(r) * (1 / lead(v)) is not that division (seeded mutation C12-12)
    g = rng.fork("exactdiv-badlead")
    for _ in range(40 if tier == "thorough" else 12):
        lq, lv = g.range(1, 5), g.range(1, 4)
        q0 = [Fraction(small_int(g, -5, 5)) for _ in range(lq)]; q0[-1] = Fraction(g.choice([1, -1, 2, 3, 7]))
        v = [Fraction(small_int(g, -9, 9)) for _ in range(lv)]; v[-1] = Fraction(g.choice(BAD_LEAD) * g.choice([1, -1]))
        r0 = [Fraction(small_int(g, -6, 6)) for _ in range(g.range(0, lv - 1))]
        u = ref_add(ref_mul(q0, v), r0)
        cases.append(mk_div('f64int', [float(a) for a in u], [float(a) for a in v], "div-exactdiv-badlead", nontrivial=True))
    cases += special_structure_cases(rng, tier)
    cases += same_object_pairs(cases)
    return rng.fork("order").shuffle(cases)          # balanced coqc shards

def same_object_pairs(cases):
    """div-sameobj-<elt>: for the dividend u and the divisor v of every poly.div case, kind poly.divpair: w.polydiv(&w) (dividend and
    divisor the SAME object) and w.polydiv(&w.clone()), both answers in one stream.  The executor compares nothing: the oracle judges
    each answer by the property itself (u = q*v + r, r = 0 or deg r < deg v; the zero-divisor error for the empty / all-zero w; never a
    panic) and demands the same outcome class of both.  C12 pins no particular representation of q and r: a shortcut returning
    (q = [1], r = []) for w / w satisfies it as well as the general loop's (q = [1], r = [0, ...]).  A non-zero w with a vanishing leading
    coefficient is outside the claim as a divisor: skipped."""
    out, seen = [], set()
    for c in cases:
        if c.meta.get("kind") != "div": continue
        _, (u, v) = case_vals(c)
        for w in (u, v):
            if w and w[-1] == 0 and any(a != 0 for a in w): continue
            p = mk_case(c.elt, "divpair", [w], "div-sameobj-" + c.elt, nontrivial=bool(w) and any(a != 0 for a in w), tol=1e-9)
            if p.line in seen: continue
            seen.add(p.line); out.append(p)
    return out

def nz_special(fam):
    return [v for v in special_scalars(ELT[fam]) if v != 0]

def valid_divisor(g, fam, lv, lead=None):
    v = [gen_val(g, fam) for _ in range(lv)]
    if lv: v[-1] = gen_lead(g, fam) if lead is None else lead
    return v

def imul(elt, p, k):
    """p * i^k, exactly (a permutation of the components with signs)"""
    if elt != 'cplx': return list(p)
    w = [complex(1, 0), complex(0, 1), complex(-1, 0), complex(0, -1)][k % 4]
    return [complex(a) * w for a in p]

def special_structure_cases(rng, tier):
    """Operands with special STRUCTURE (the families above draw dividend and divisor independently of one another):
      div-self-<fam>          u.polydiv(&u): dividend and divisor the SAME object (kind poly.divself; twin run_div u u), u
                              empty, all-zero (either sign of zero), constant, random, structured; the dividend and the divisor
                              of every poly.div case also run as poly.divpair (same_object_pairs below)
      div-related-<fam>       u in a relation to v: equal values, -v, c*v, x^k*v, v*v, v reversed, one coefficient different
      div-special-lead-<fam>  leading coefficient of the divisor 1, -1, 2, 1/2, -2, -1/2 (also among general inexact f64
                              coefficients, where the random families never have a monic divisor); Complex: on the axes
                              +-k, +-ki, +-i, 1+-i
      zero-divisor-signed-<fam>  all-zero divisors of every length 1..7 with zeros of either sign (Complex: per component),
                              [-0.0] included; dividends empty / all-zero / random
      div-rotated-cplx        exact Gaussian-integer divisions u = q0*v + r0, and real ones with u*i^a, v*i^b: purely imaginary
                              and mixed operands with every intermediate exact
      div-struct-<fam>        dividend all-zero of length >= len v, with two or more vanishing leading coefficients, one-term,
                              with zeros of either sign; divisor one-term c*x^k (k >= 1), all ones, alternating signs, zero
                              interior, from the special menu"""
    cases = []
    thorough = tier == "thorough"
    fams = ('rat', 'f64int', 'f64gen', 'cplx')
    for fam in fams:
        elt = ELT[fam]
        z = zero_val(fam)
        # ---- same object
        g = rng.fork("self-" + fam)
        us = [[], [z], [z, z, z], [gen_lead(g, fam)], [z, gen_lead(g, fam)]]
        if elt != 'rat': us += [struct_poly(g, elt, g.range(1, 4), "neg-zeros")[:-1] + [-0.0 if elt == 'f64' else complex(-0.0, 0.0)], [-0.0 if elt == 'f64' else complex(0.0, -0.0)]]
        for lu in (range(2, 8) if thorough else [g.range(2, 4), g.range(5, 7)]):
            us.append(valid_divisor(g, fam, lu))
        us.append(struct_poly(g, elt, g.range(2, 5), g.choice(["monomial", "all-ones", "alternating", "interior-zeros", "lead-zeros"])))
        for u in us:
            cases.append(mk_case(elt, "divself", [u], "div-self-" + fam, nontrivial=bool(u) and any(a != 0 for a in u), tol=1e-9))
        # ---- related operands
        g = rng.fork("related-" + fam)
        exact_fam = fam != 'f64gen'
        rels = ["equal", "negated", "shifted", "scaled", "reversed", "one-differs", "square"]
        for k, rel in enumerate(rels):
            for lv in (range(1, 7) if thorough else [g.range(1, 3), g.range(4, 6)][(k % 2):(k % 2) + 1] + ([g.range(2, 5)] if rel in ("equal", "scaled") else [])):
                v = valid_divisor(g, fam, lv)
                if rel == "square":
                    if not exact_fam: continue
                    v = [conv(elt, small_int(g, -4, 4)) for _ in range(lv)]; v[-1] = conv(elt, g.choice([1, -1, 2, 3]))
                    E = [exact(elt, a) for a in v]; sq = ref_mul(E, E, zero_of(elt))
                    u = [conv(elt, a) if elt != 'cplx' else complex(float(a.re), float(a.im)) for a in sq]
                elif rel == "scaled":
                    c = 2.0 if not exact_fam else g.choice([a for a in nz_special(fam) if a != 1])
                    if exact_fam and fam != 'rat':      # keep the product exact: small integer divisor
                        v = [conv(elt, small_int(g, -6, 6)) for _ in range(lv)]; v[-1] = conv(elt, g.choice([1, -1, 3, 7, 49]))
                    u = [scal_mul(elt, a, c) for a in v]
                elif rel == "one-differs":
                    u = list(v); j = g.below(lv); u[j] = u[j] + conv(elt, 1)
                elif rel == "reversed":
                    u = list(reversed(v))
                    if u[-1] == 0: u[-1] = conv(elt, 1)
                else:
                    u = related_poly(g, elt, v, rel)
                cases.append(mk_div(fam, u, v, "div-related-%s-%s" % (rel, fam), nontrivial=True))
        # ---- special leading coefficients of the divisor
        g = rng.fork("lead-" + fam)
        menu = nz_special(fam)
        for k, lead in enumerate(menu):
            if not thorough and elt != 'cplx' and (k + g.below(2)) % 2: continue
            for rep in range(3 if thorough else 1):
                lv = g.range(1, 5); lu = lv + g.range(0, 5)
                u = [gen_val(g, fam) for _ in range(lu)]
                if u[-1] == 0: u[-1] = gen_lead(g, fam)
                if rep % 2 == 0 and g.chance(1, 2): u[-1] = g.choice(menu)     # both leading coefficients special (Complex: both on an axis)
                cases.append(mk_div(fam, u, valid_divisor(g, fam, lv, lead), "div-special-lead-" + fam, nontrivial=True))
        # ---- zero divisors with zeros of either sign
        if elt != 'rat':
            g = rng.fork("zero-signed-" + fam)
            def sz():
                if elt == 'f64': return g.choice([0.0, -0.0])
                return complex(g.choice([0.0, -0.0]), g.choice([0.0, -0.0]))
            for lv in (range(1, 8) if thorough else [1, g.range(2, 4), g.range(5, 7)]):
                v = [sz() for _ in range(lv)]
                if all(math.copysign(1.0, complex(a).real) > 0 and math.copysign(1.0, complex(a).imag) >= 0 for a in v):
                    v[-1] = -0.0 if elt == 'f64' else complex(-0.0, 0.0)
                u = g.choice([[], [z] * g.range(1, 3), [gen_val(g, fam) for _ in range(g.range(1, 6))]])
                cases.append(mk_div(fam, u, v, "zero-divisor-signed-" + fam, nontrivial=True))
                if lv <= 4:    # dividend and divisor equal BY VALUE (as numbers: zeros of the other sign), both all-zero
                    cases.append(mk_div(fam, [z] * lv, v, "zero-divisor-signed-" + fam, nontrivial=True))
            # (outside the claim, tie only) a negative zero as leading coefficient of a non-zero divisor
            v = valid_divisor(g, fam, g.range(2, 4)); v[-1] = -0.0 if elt == 'f64' else complex(-0.0, 0.0)
            if all(a == 0 for a in v): v[0] = gen_lead(g, fam)
            cases.append(mk_div(fam, [gen_val(g, fam) for _ in range(g.range(2, 6))], v, "zero-leading-" + fam, nontrivial=False))
        else:
            for lv in (1, 2, 3):
                cases.append(mk_div(fam, [z] * lv, [z] * lv, "zero-divisor-equal-" + fam, nontrivial=True))
        # ---- structured dividends / divisors
        g = rng.fork("struct-" + fam)
        for cls in ("all-zero", "lead-zeros", "monomial", "neg-zeros", "all-equal"):
            if elt == 'rat' and cls == "neg-zeros": continue
            lv = g.range(1, 4)
            u = struct_poly(g, elt, lv + g.range(0, 4) + (2 if cls == "lead-zeros" else 0), cls)
            cases.append(mk_div(fam, u, valid_divisor(g, fam, lv), "div-struct-u-%s-%s" % (cls, fam), nontrivial=any(a != 0 for a in u)))
        for cls in ("monomial", "all-ones", "alternating", "interior-zeros", "axis", "all-equal"):
            lv = g.range(2, 5)
            v = struct_poly(g, elt, lv, cls)
            if v[-1] == 0: v[-1] = conv(elt, 1)
            lu = lv + g.range(0, 5)
            u = [gen_val(g, fam) for _ in range(lu)]
            if u[-1] == 0: u[-1] = gen_lead(g, fam)
            cases.append(mk_div(fam, u, v, "div-struct-v-%s-%s" % (cls, fam), nontrivial=True))
    # ---- exact Complex divisions off the real axis
    g = rng.fork("rotated")
    gi = lambda lo, hi, pz: complex(float(small_int(g, lo, hi, pz)), float(small_int(g, lo, hi, pz)))
    for k in range(48 if thorough else 14):
        lq, lv = g.range(1, 4), g.range(1, 4)
        if k % 2 == 0:        # a real division, dividend and divisor turned by powers of i
            q0 = [complex(float(small_int(g, -5, 5, (1, 3))), 0.0) for _ in range(lq)]; q0[-1] = complex(float(g.choice([1, -1, 2, 3])), 0.0)
            v = [complex(float(small_int(g, -4, 4, (1, 3))), 0.0) for _ in range(lv)]; v[-1] = complex(float(g.choice([1, -1, 2, -3, 5])), 0.0)
            r0 = [complex(float(small_int(g, -6, 6, (1, 3))), 0.0) for _ in range(g.range(0, lv - 1))]
        else:                 # Gaussian integers throughout; the leading coefficient of the divisor a unit or on an axis (exact quotients)
            q0 = [gi(-3, 3, (1, 3)) for _ in range(lq)]; q0[-1] = g.choice([complex(1, 1), complex(0, 2), complex(-1, 0), complex(2, -1)])
            v = [gi(-3, 3, (1, 3)) for _ in range(lv)]; v[-1] = g.choice([complex(0, 1), complex(0, -1), complex(-1, 0), complex(0, 2), complex(0, -4), complex(2, 0)])
            r0 = [gi(-4, 4, (1, 3)) for _ in range(g.range(0, lv - 1))]
        E = lambda p: [exact('cplx', a) for a in p]
        U = ref_add(ref_mul(E(q0), E(v), zero_of('cplx')), E(r0))
        u = [complex(float(a.re), float(a.im)) for a in (cq(b) for b in U)]
        # turns (a, b) of dividend and divisor: both on the imaginary axis, one on each axis, ... first, then at random
        turns = [(1, 1), (0, 1), (1, 0), (3, 1), (2, 3), (3, 3), (1, 2)]
        a, b = ((turns[k // 2] if k // 2 < len(turns) else (g.below(4), g.below(4))) if k % 2 == 0 else (0, 0))
        cases.append(mk_div('cplx', imul('cplx', u, a), imul('cplx', v, b), "div-rotated-cplx", nontrivial=True))
    return cases

def case_from_json(j):
    return case_from_json_common(j, ("div", "divself", "divpair"))

# ------------------------------------------------------------------ oracle
def judge(st, elt, U, V, who):
    """reads ONE answer of polydiv(U, V) from the stream and judges it by the property; returns (outcome class, message or None);
    outcome class: 'P' (panic) or the outcome code 0 Ok | 1 zero-divisor error | 2 iteration cap | 3 other error"""
    z = zero_of(elt)
    zero_div = (len(V) == 0) or all(a == 0 for a in V)
    lead_zero = (not zero_div) and V[-1] == 0
    if st.done():
        return None, who + "empty answer"
    if st.peek_panic():
        cls = st.items[st.pos][1]; st.pos += 1
        if lead_zero and elt == 'rat':
            return 'P', None      # zero leading coefficient is outside the claim; over the exact type the division itself panics
        return 'P', who + "panicked (%s): the routine must never panic" % cls
    code = st.int()
    if zero_div:
        if code != 1: return code, who + "division by the empty / all-zero polynomial must be reported as an error, got outcome %d" % code
        return code, None
    if code == 2:
        return code, who + "returned Err(exceeded maximum iterations): the loop spins (at most deg u + 1 passes are ever needed)"
    if code != 0:
        return code, who + "returned an error (outcome %d) for a divisor that is not the zero polynomial" % code
    Qp = st.poly(); R = st.poly()
    if lead_zero:
        # outside the quantifier (leading coefficient zero): only "terminates without a panic" is demanded, and that is what we got
        return code, None
    if not (poly_finite(Qp) and poly_finite(R)):
        return code, who + "quotient or remainder is not finite: q=%s r=%s" % (Qp, R)
    # degree condition: r = 0 or deg r < deg v   (formal degrees, as the code reports them)
    if not (all(a == 0 for a in R) or len(R) < len(V)):
        return code, who + "remainder %s is neither zero nor of lower degree than the divisor" % [str(a) for a in R]
    # identity u = q*v + r, recomputed independently in exact arithmetic
    QV = ref_mul(Qp, V, z)
    n = max(len(U), len(QV), len(R))
    get = lambda p, i: p[i] if i < len(p) else z
    resid = [get(U, i) - (get(QV, i) + get(R, i)) for i in range(n)]
    if elt == 'rat':
        if any(not (a == 0) for a in resid):
            return code, who + "u != q*v + r exactly: q=%s r=%s residual=%s" % ([str(a) for a in Qp], [str(a) for a in R], [str(a) for a in resid])
        return code, None
    vmax = max([mag(a) for a in V])
    scale = max([mag(a) for a in U] + [0]) + sum(mag(a) for a in Qp) * vmax * (2 if elt == 'cplx' else 1) + max([mag(a) for a in R] + [0])
    worst = max([mag(a) for a in resid] + [0])
    if elt == 'f64' and worst != 0:
        ex = _exact_int_division(U, V)
        if ex is not None:
            return code, who + ("an exact integer division (every quotient term an integer, every intermediate an integer below 2^53: each float operation "
                                "of the long division is exact) must satisfy u = q*v + r exactly; exact q=%s r=%s, got q=%s r=%s" % (
                                    [str(a) for a in ex[0]], [str(a) for a in ex[1]], [repr(float(a)) for a in Qp], [repr(float(a)) for a in R]))
    if not (worst <= Fraction(1, 10 ** 10) * scale):
        return code, who + "u - (q*v + r) has a coefficient of size %.3e, above 1e-10 * scale (scale %.3e): q=%s r=%s" % (
            float(worst), float(scale), [float(mag(a)) for a in Qp], [float(mag(a)) for a in R])
    return code, None

def _exact_int_division(U, V):
    """(q, r) when U, V are integer polynomials, lead(V) != 0, len(U) >= len(V) and schoolbook long division stays in the integers with
    every intermediate below 2^53 in magnitude; None otherwise (then only the rounding-accuracy clause applies)"""
    try:
        if not V or V[-1] == 0 or len(U) < len(V): return None
        if any(Fraction(a).denominator != 1 for a in list(U) + list(V)): return None
        r = [Fraction(a) for a in U]; q = [Fraction(0)] * (len(U) - len(V) + 1); lim = Fraction(2 ** 53)
        for k in range(len(U) - len(V), -1, -1):
            t = r[k + len(V) - 1] / Fraction(V[-1])
            if t.denominator != 1 or abs(t) >= lim: return None
            q[k] = t
            for i, a in enumerate(V):
                pr = t * Fraction(a)
                if abs(pr) >= lim: return None
                r[k + i] -= pr
                if abs(r[k + i]) >= lim: return None
        return q, r[:len(V) - 1]
    except (TypeError, ValueError):
        return None

def oracle(case, items):
    kind, uv = case_vals(case)
    u, v = (uv[0], uv[0]) if kind in ("divself", "divpair") else uv         # poly.divself / poly.divpair: u.polydiv(&u)
    elt = case.elt
    U, V = [exact(elt, a) for a in u], [exact(elt, a) for a in v]
    who = "polydiv on %s, u=%s, v=%s%s: " % (elt, [str(a) for a in U], [str(a) for a in V], " (u.polydiv(&u), the same object)" if kind == "divself" else "")
    if not items:
        return who + "empty answer"
    st = Stream(elt, items)
    if kind == "divpair":
        # two answers: w.polydiv(&w), the same object, then w.polydiv(&w.clone()); EACH is judged by the property (not against the other:
        # C12 pins no representation of q and r), and the outcome class -- Ok / zero-divisor error / cap / panic -- must be the same
        try:
            c1, m1 = judge(st, elt, U, V, who + "[w.polydiv(&w), dividend and divisor the same object] ")
            if m1: return m1
            c2, m2 = judge(st, elt, U, V, who + "[w.polydiv(&w.clone())] ")
            if m2: return m2
            if not st.done(): return who + "trailing items in the answer"
        except (StreamError, IndexError) as e:
            return who + "answer stream malformed: %s" % e
        if c1 != c2:
            return who + "w.polydiv(&w) (the same object) has outcome class %r, w.polydiv(&w.clone()) has %r: a shortcut keyed on the identity of the operands changes the outcome" % (c1, c2)
        return None
    if items[-1][0] == 'P':           # (a panic ends the answer of poly.div / poly.divself)
        st.pos = len(items) - 1
    try:
        _, msg = judge(st, elt, U, V, who)
        if msg: return msg
        if not st.done(): return who + "trailing items in the answer"
    except (StreamError, IndexError) as e:
        return who + "answer stream malformed: %s" % e
    return None
